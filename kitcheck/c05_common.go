package main

// C05 helpers: anchors, value provenance (clock readings, timer channels),
// may-store summaries and branch facts on Cron.running.

import (
	"go/constant"
	"go/token"
	"go/types"
	"sort"

	"golang.org/x/tools/go/ssa"
)

type c05 struct {
	c   *Ctx
	p   *Prog
	r   *Report
	e   *LockEngine
	pkg string // import path of the cron package

	fEntries, fRunning, fJobWaiter          FieldID
	fStop, fAdd, fRemove, fSnapshot         FieldID
	fNext, fPrev, fSchedule, fWrapped, fJob FieldID
	fID                                     FieldID
	fLocation                               FieldID
	lockID                                  string
	idType                                  types.Type
	dynCalled                               map[*ssa.Function]bool // reached through a known dynamic route
	jobWaiterIsWG                           bool
	reachMemo                               map[*ssa.Function][2]map[*ssa.Function]bool
	reachLoop                               map[*ssa.Function]bool // functions from which the scheduler loop is reached
	schedRoots                              map[*ssa.Function]bool // where the scheduler role begins/ends
	run                                     *c05Flow               // running/claimed flow (ownership rules)

	sched     *ssa.Function          // the scheduler loop: the function whose select receives from the stop channel
	schedOnly map[*ssa.Function]bool // functions executed (also) on the scheduler goroutine: where the loop's constructs are looked for
	funcs     []*ssa.Function        // functions of the cron package
	sites     map[*ssa.Function][]ssa.CallInstruction
	addrTaken map[*ssa.Function]bool

	clockMemo   map[ssa.Value]int // 0 unknown, 1 in progress, 2 yes, 3 no
	clockDepth  int
	storeMemo   map[string]map[*ssa.Function]bool
	starters    map[*ssa.Function]int // function -> index of the Job parameter it starts in a goroutine
	actMemo     map[string]uint64
	actActive   map[string]bool
	unknownCond map[*ssa.Function]bool
	sections    map[*ssa.Function]map[ssa.Instruction]uint8
}

func c05FieldExists(n *types.Named, name string) bool {
	st, ok := n.Underlying().(*types.Struct)
	if !ok {
		return false
	}
	for i := 0; i < st.NumFields(); i++ {
		if st.Field(i).Name() == name {
			return true
		}
	}
	return false
}

// c05FieldCand: a field of Cron or of one of its own sub-structs.
type c05FieldCand struct {
	id FieldID
	v  *types.Var
}

// c05CollectFields lists the fields of st (type key tkey) and, recursively, of
// its struct-typed fields whose type is declared in the same package or is an
// anonymous struct (fields grouped into a sub-struct).
func c05CollectFields(st *types.Struct, tkey string, pkg *types.Package, depth int) []c05FieldCand {
	var out []c05FieldCand
	for i := 0; i < st.NumFields(); i++ {
		f := st.Field(i)
		out = append(out, c05FieldCand{FieldID{tkey, f.Name()}, f})
		if depth >= 2 {
			continue
		}
		ft := deref(f.Type()) // by value, through a pointer, or embedded
		sub, ok := ft.Underlying().(*types.Struct)
		if !ok {
			continue
		}
		if n, isNamed := ft.(*types.Named); isNamed && (n.Obj().Pkg() == nil || n.Obj().Pkg() != pkg) {
			continue // sync.Mutex, time.Time, ...: not ours to look into
		}
		out = append(out, c05CollectFields(sub, namedKey(ft), pkg, depth+1)...)
	}
	return out
}

// c05PickField resolves a field by ROLE: the candidates satisfying pred; if
// several do, the name hint decides; none or still ambiguous => zero FieldID.
func c05PickField(cands []c05FieldCand, hint string, pred func(f *types.Var) bool) FieldID {
	var ok []FieldID
	for _, c := range cands {
		if pred(c.v) {
			ok = append(ok, c.id)
		}
	}
	if len(ok) == 1 {
		return ok[0]
	}
	for _, c := range ok {
		if c.Field == hint {
			return c
		}
	}
	return FieldID{}
}

func c05HasMethods(t types.Type, names ...string) bool {
	ms := types.NewMethodSet(types.NewPointer(deref(t)))
	for _, n := range names {
		found := false
		for i := 0; i < ms.Len(); i++ {
			if ms.At(i).Obj().Name() == n {
				found = true
			}
		}
		if !found {
			return false
		}
	}
	return true
}

// newC05Base resolves the type anchors of package rel (import path pkgPath)
// and the call-site tables; it is shared by the repo check and the fixture.
// The exported types Cron and Entry (and Entry's exported fields) are stable
// anchors; Cron's unexported fields are resolved by role (type / method set),
// their current names being only a tie-break hint. need lists the roles that
// must resolve (others are left empty).
func newC05Base(p *Prog, r *Report, pkgPath, rel string, need []string) *c05 {
	a := &c05{p: p, r: r, pkg: pkgPath,
		clockMemo: map[ssa.Value]int{}, storeMemo: map[string]map[*ssa.Function]bool{},
		starters: map[*ssa.Function]int{}, actMemo: map[string]uint64{}, actActive: map[string]bool{},
		unknownCond: map[*ssa.Function]bool{}, sections: map[*ssa.Function]map[ssa.Instruction]uint8{},
		sites: map[*ssa.Function][]ssa.CallInstruction{}, addrTaken: map[*ssa.Function]bool{}}
	cronT := p.Named(rel, "Cron")
	entryT := p.Named(rel, "Entry")
	ct, et := a.pkg+".Cron", a.pkg+".Entry"
	for _, f := range []string{"ID", "Schedule", "Next", "Prev", "WrappedJob", "Job"} {
		if !c05FieldExists(entryT, f) {
			undecided("anchor field cron.Entry.%s no longer resolves", f)
		}
	}
	cst, _ := cronT.Underlying().(*types.Struct)
	est, _ := entryT.Underlying().(*types.Struct)
	if cst == nil || est == nil {
		undecided("cron.Cron / cron.Entry are no longer struct types")
	}
	var idT types.Type
	for i := 0; i < est.NumFields(); i++ {
		if est.Field(i).Name() == "ID" {
			idT = est.Field(i).Type()
		}
	}
	isEntryPtr := func(t types.Type) bool {
		pt, ok := t.Underlying().(*types.Pointer)
		return ok && types.Identical(pt.Elem(), entryT)
	}
	chanElem := func(t types.Type) types.Type {
		if ch, ok := t.Underlying().(*types.Chan); ok {
			return ch.Elem()
		}
		return nil
	}
	cands := c05CollectFields(cst, ct, cronT.Obj().Pkg(), 0)
	roles := map[string]FieldID{
		"entries": c05PickField(cands, "entries", func(f *types.Var) bool {
			sl, ok := f.Type().Underlying().(*types.Slice)
			return ok && isEntryPtr(sl.Elem())
		}),
		"running": c05PickField(cands, "running", func(f *types.Var) bool {
			b, ok := f.Type().Underlying().(*types.Basic)
			return ok && b.Kind() == types.Bool
		}),
		"runningMu": c05PickField(cands, "runningMu", func(f *types.Var) bool {
			k := namedKey(f.Type())
			return k == "sync.Mutex" || k == "sync.RWMutex"
		}),
		"jobWaiter": c05PickField(cands, "jobWaiter", func(f *types.Var) bool {
			if _, isIface := f.Type().Underlying().(*types.Interface); isIface {
				return false
			}
			return c05HasMethods(f.Type(), "Add", "Done", "Wait")
		}),
		"location": c05PickField(cands, "location", func(f *types.Var) bool {
			return namedKey(f.Type()) == "time.Location"
		}),
		"add": c05PickField(cands, "add", func(f *types.Var) bool {
			e := chanElem(f.Type())
			return e != nil && isEntryPtr(e)
		}),
		"remove": c05PickField(cands, "remove", func(f *types.Var) bool {
			e := chanElem(f.Type())
			return e != nil && idT != nil && types.Identical(e, idT)
		}),
		"snapshot": c05PickField(cands, "snapshot", func(f *types.Var) bool {
			e := chanElem(f.Type())
			return e != nil && chanElem(e) != nil
		}),
		"stop": c05PickField(cands, "stop", func(f *types.Var) bool {
			e := chanElem(f.Type())
			if e == nil {
				return false
			}
			s, ok := e.Underlying().(*types.Struct)
			return ok && s.NumFields() == 0
		}),
	}
	for _, n := range need {
		if roles[n].Field == "" {
			undecided("cannot resolve the field of cron.Cron playing the role %q (by type/method set, then by name)", n)
		}
	}
	a.fEntries, a.fRunning, a.fJobWaiter = roles["entries"], roles["running"], roles["jobWaiter"]
	a.fStop, a.fAdd, a.fRemove, a.fSnapshot = roles["stop"], roles["add"], roles["remove"], roles["snapshot"]
	a.fNext, a.fPrev, a.fSchedule, a.fWrapped, a.fJob, a.fID = FieldID{et, "Next"}, FieldID{et, "Prev"}, FieldID{et, "Schedule"}, FieldID{et, "WrappedJob"}, FieldID{et, "Job"}, FieldID{et, "ID"}
	a.lockID = roles["runningMu"].Type + "." + roles["runningMu"].Field
	a.fLocation = roles["location"]
	for _, c := range cands {
		if c.id == roles["jobWaiter"] && c.id.Field != "" {
			a.jobWaiterIsWG = namedKey(c.v.Type()) == "sync.WaitGroup"
		}
	}
	a.idType = idT
	a.funcs = p.FuncsOfPkg(rel)

	// call sites / address-taken (within the whole module)
	for _, fn := range p.Funcs {
		allInstrs(fn, func(in ssa.Instruction) {
			ci, isCall := in.(ssa.CallInstruction)
			if isCall {
				if cal := staticCallee(ci); cal != nil && p.funcSet[cal] {
					a.sites[cal] = append(a.sites[cal], ci)
				}
			}
			for _, op := range in.Operands(nil) {
				if op == nil || *op == nil {
					continue
				}
				var f *ssa.Function
				switch v := (*op).(type) {
				case *ssa.Function:
					if _, isMC := in.(*ssa.MakeClosure); isMC {
						continue
					}
					f = origin(v)
				case *ssa.MakeClosure:
					if isCall && ci.Common().Value == *op {
						continue
					}
					f, _ = v.Fn.(*ssa.Function)
				}
				if f == nil {
					continue
				}
				if isCall && ci.Common().Value == *op && !ci.Common().IsInvoke() {
					continue
				}
				a.addrTaken[f] = true
			}
		})
	}

	// second pass: call sites that reach a function through a statically known
	// dynamic route (method value in a local or func-typed field, element of a
	// literal table, single-implementation interface seam)
	a.dynCalled = map[*ssa.Function]bool{}
	for _, fn := range p.Funcs {
		if fn.Pkg == nil || fn.Pkg.Pkg.Path() != pkgPath {
			continue
		}
		allInstrs(fn, func(in ssa.Instruction) {
			ci, ok := in.(ssa.CallInstruction)
			if !ok {
				return
			}
			if h := staticCallee(ci); h != nil && p.funcSet[h] {
				return
			}
			if _, viaParam := ci.Common().Value.(*ssa.Parameter); viaParam {
				return
			}
			for _, t := range a.calleesOf(ci) {
				a.sites[t] = append(a.sites[t], ci)
				a.dynCalled[t] = true
			}
		})
	}
	return a
}

// callees: same-package functions reachable from fn through static calls
// (and, if followGo, go statements), fn included.
func (a *c05) reachFrom(fn *ssa.Function, followGo bool) map[*ssa.Function]bool {
	if a.reachMemo == nil {
		a.reachMemo = map[*ssa.Function][2]map[*ssa.Function]bool{}
	}
	mi := 0
	if followGo {
		mi = 1
	}
	if m := a.reachMemo[fn][mi]; m != nil {
		return m
	}
	out := map[*ssa.Function]bool{}
	defer func() {
		e := a.reachMemo[fn]
		e[mi] = out
		a.reachMemo[fn] = e
	}()
	var walk func(f *ssa.Function)
	walk = func(f *ssa.Function) {
		if out[f] {
			return
		}
		out[f] = true
		allInstrs(f, func(in ssa.Instruction) {
			ci, ok := in.(ssa.CallInstruction)
			if !ok {
				return
			}
			if _, isGo := in.(*ssa.Go); isGo && !followGo {
				return
			}
			if h := staticCallee(ci); h != nil && a.p.funcSet[h] && h.Pkg == fn.Pkg {
				walk(h)
			} else if _, viaParam := ci.Common().Value.(*ssa.Parameter); !viaParam {
				for _, t := range a.calleesOf(ci) {
					walk(t)
				}
			}
			// closures handed to a callee that runs them, and statically known dynamic targets
			for _, h := range a.syncCallbacks(ci) {
				walk(h)
			}
			if _, viaParam := ci.Common().Value.(*ssa.Parameter); !viaParam {
				for _, h := range a.dynTargets(ci) {
					if a.p.funcSet[h] {
						walk(h)
					}
				}
			}
			for _, arg := range ci.Common().Args {
				if mc, ok := arg.(*ssa.MakeClosure); ok && a.passedToCaller(ci, mc) {
					if h, ok := mc.Fn.(*ssa.Function); ok {
						walk(h)
					}
				}
				if h, ok := arg.(*ssa.Function); ok && a.p.funcSet[h] && a.passedToCaller(ci, h) {
					walk(h) // a capture-free closure / plain function handed to a callback helper
				}
			}
		})
	}
	walk(fn)
	return out
}

func newC05(c *Ctx) *c05 {
	p := c.P
	a := newC05Base(p, c.R, p.ModPath+"/cron", "cron", []string{"entries", "running", "runningMu", "jobWaiter", "stop", "add", "remove", "snapshot", "location"})
	a.c = c
	a.e = c.Locks()
	// The scheduler loop is identified by its role: the function whose blocking
	// select receives from the stop channel.
	for _, fn := range a.funcs {
		allInstrs(fn, func(in ssa.Instruction) {
			sel, ok := in.(*ssa.Select)
			if !ok || !sel.Blocking {
				return
			}
			for _, st := range sel.States {
				if st.Dir == types.RecvOnly {
					if _, ok := c05LoadOf(st.Chan, a.fStop); ok {
						if a.sched != nil && a.sched != fn {
							undecided("two functions select on the stop channel (%s, %s); scheduler loop ambiguous", a.name(a.sched), a.name(fn))
						}
						a.sched = fn
					}
				}
			}
		})
	}
	if a.sched == nil {
		undecided("no function of package cron has a blocking select receiving from Cron's stop channel (anchor for the scheduler loop lost)")
	}
	if a.addrTaken[a.sched] {
		undecided("the scheduler function %s is used as a value; its invocation sites cannot be enumerated", FuncName(p, a.sched))
	}
	// reachLoop: functions from which the loop is reached (through calls and go)
	a.reachLoop = map[*ssa.Function]bool{}
	for _, fn := range a.funcs {
		if a.reachFrom(fn, true)[a.sched] {
			a.reachLoop[fn] = true
		}
	}
	// scheduler roots: where the scheduler role begins and ends — the functions
	// leading to the loop that are spawned with go or called from an exported
	// method (the loop itself may be a phase helper returning to its caller).
	a.schedRoots = map[*ssa.Function]bool{}
	for fn := range a.reachLoop {
		if isExportedFunc(fn) {
			continue
		}
		// the role is held by the activation that RUNS the loop (reaches it through
		// calls), not by a helper that merely spawns it
		if !a.reachFrom(fn, false)[a.sched] {
			continue
		}
		for _, s := range a.sites[fn] {
			_, isGo := s.(*ssa.Go)
			if isGo || isExportedFunc(s.Parent()) || !a.reachFrom(s.Parent(), false)[a.sched] {
				a.schedRoots[fn] = true
			}
		}
	}
	if len(a.schedRoots) == 0 {
		a.schedRoots[a.sched] = true
	}
	// scheduler-side functions (for LOCATING constructs, not for safety
	// decisions): the loop, goroutine bodies leading to it, and everything they call.
	a.schedOnly = map[*ssa.Function]bool{}
	for f := range a.reachFrom(a.sched, false) {
		a.schedOnly[f] = true
	}
	for root := range a.schedRoots {
		for f := range a.reachFrom(root, false) {
			a.schedOnly[f] = true
		}
	}
	for _, fn := range a.funcs {
		if !a.reachLoop[fn] || isExportedFunc(fn) || a.addrTaken[fn] {
			continue
		}
		goOnly := len(a.sites[fn]) > 0
		for _, s := range a.sites[fn] {
			if _, isGo := s.(*ssa.Go); !isGo && !a.schedOnly[s.Parent()] {
				goOnly = false
			}
		}
		if goOnly {
			for f := range a.reachFrom(fn, false) {
				a.schedOnly[f] = true
			}
		}
	}
	return a
}

func (a *c05) name(fn *ssa.Function) string { return FuncName(a.p, fn) }
func (a *c05) pos(in ssa.Instruction) string {
	return a.p.Pos(instrPos(in))
}

// fieldAddrIs: v is &X.f for field id; returns X.
func c05FieldAddr(v ssa.Value, id FieldID) (ssa.Value, bool) {
	fa, ok := v.(*ssa.FieldAddr)
	if !ok || fieldIDOfAddr(fa) != id {
		return nil, false
	}
	return fa.X, true
}

// c05LoadOf: v is a load *(&X.f) of field id; returns X.
func c05LoadOf(v ssa.Value, id FieldID) (ssa.Value, bool) {
	for {
		if ct, ok := v.(*ssa.ChangeType); ok {
			v = ct.X
			continue
		}
		break
	}
	u, ok := v.(*ssa.UnOp)
	if !ok || u.Op != token.MUL {
		return nil, false
	}
	return c05FieldAddr(u.X, id)
}

// mayStore: functions of the module that (transitively through static calls)
// store to field id.
func (a *c05) mayStore(id FieldID) map[*ssa.Function]bool {
	key := id.Type + "." + id.Field
	if m, ok := a.storeMemo[key]; ok {
		return m
	}
	m := map[*ssa.Function]bool{}
	for _, fn := range a.p.Funcs {
		allInstrs(fn, func(in ssa.Instruction) {
			if st, ok := in.(*ssa.Store); ok {
				if _, ok := c05FieldAddr(st.Addr, id); ok {
					m[fn] = true
				}
			}
		})
	}
	for changed := true; changed; {
		changed = false
		for _, fn := range a.p.Funcs {
			if m[fn] {
				continue
			}
			allInstrs(fn, func(in ssa.Instruction) {
				if ci, ok := in.(ssa.CallInstruction); ok && !m[fn] {
					if cal := staticCallee(ci); cal != nil && m[cal] {
						m[fn] = true
						changed = true
					}
				}
			})
		}
	}
	a.storeMemo[key] = m
	return m
}

// ---- clock readings -------------------------------------------------------

func c05IsTimeMethod(call *ssa.Call, name string) bool {
	return callIs(call, "time", "Time", name)
}

// timerChan: v is a channel only a timer (or nobody) sends on.
func (a *c05) timerChan(v ssa.Value, seen map[ssa.Value]bool) bool {
	if seen[v] {
		return true
	}
	seen[v] = true
	switch x := v.(type) {
	case *ssa.Phi:
		for _, ed := range x.Edges {
			if !a.timerChan(ed, seen) {
				return false
			}
		}
		return true
	case *ssa.ChangeType:
		return a.timerChan(x.X, seen)
	case *ssa.MakeChan:
		// a channel made locally and never sent on by anyone else: never fires
		return true
	case *ssa.Const:
		return x.IsNil() // a nil channel never becomes ready
	case *ssa.Call:
		obj := calleeObj(x)
		if obj == nil || obj.Pkg() == nil {
			return false
		}
		pp := obj.Pkg().Path()
		isFn := obj.Type().(*types.Signature).Recv() == nil
		if (pp == "k8s.io/utils/clock" && !isFn && (obj.Name() == "C" || obj.Name() == "After")) || (pp == "time" && isFn && obj.Name() == "After") {
			return true
		}
		// a same-package helper returning the channel
		if rets := a.returnsOf(x, 0); rets != nil && x.Call.Signature().Results().Len() == 1 {
			for _, rv := range rets {
				if !a.timerChan(rv, seen) {
					return false
				}
			}
			return true
		}
	case *ssa.Extract:
		if call, ok := x.Tuple.(*ssa.Call); ok {
			if rets := a.returnsOf(call, x.Index); rets != nil {
				for _, rv := range rets {
					if !a.timerChan(rv, seen) {
						return false
					}
				}
				return true
			}
		}
	case *ssa.Parameter:
		acts := a.actualsOf(x)
		if acts == nil {
			return false
		}
		for _, av := range acts {
			if !a.timerChan(av, seen) {
				return false
			}
		}
		return true
	case *ssa.UnOp:
		if x.Op == token.MUL {
			if fa, ok := x.X.(*ssa.FieldAddr); ok {
				id := fieldIDOfAddr(fa)
				if id.Type == "time.Timer" && id.Field == "C" {
					return true
				}
			}
			// a local variable, or a field of a local struct (timer and channel grouped together)
			if vals := c05LocStores(x.X); vals != nil {
				for _, sv := range vals {
					if !a.timerChan(sv, seen) {
						return false
					}
				}
				return true
			}
		}
	}
	return false
}

// returnsOf: the values result #idx of a static call to a module function can
// take (one per return statement); nil when the callee is unknown.
func (a *c05) returnsOf(call *ssa.Call, idx int) []ssa.Value {
	hs := a.calleesOf(call)
	if len(hs) == 0 {
		return nil
	}
	var out []ssa.Value
	for _, h := range hs {
		if len(h.Blocks) == 0 {
			return nil
		}
		allInstrs(h, func(in ssa.Instruction) {
			if ret, ok := in.(*ssa.Return); ok && idx < len(ret.Results) && (len(in.Block().Preds) > 0 || in.Block().Index == 0) {
				out = append(out, ret.Results[idx])
			}
		})
	}
	return out
}

// actualsOf: the arguments bound to parameter par at all its call sites; nil
// when they cannot be enumerated (exported / address-taken / no site).
func (a *c05) actualsOf(par *ssa.Parameter) []ssa.Value {
	fn := par.Parent()
	if isExportedFunc(fn) || a.addrTaken[fn] || len(a.sites[fn]) == 0 {
		return nil
	}
	idx := c05ParamIndex(par)
	var out []ssa.Value
	for _, s := range a.sites[fn] {
		args := s.Common().Args
		if idx < 0 || idx >= len(args) {
			return nil
		}
		out = append(out, args[idx])
	}
	return out
}

// c05CellStores: all values stored into a local cell that is only stored/loaded; nil otherwise.
func c05CellStores(cell *ssa.Alloc) []ssa.Value {
	var out []ssa.Value
	for _, r := range refs(cell) {
		switch s := r.(type) {
		case *ssa.Store:
			if s.Addr != cell {
				return nil
			}
			out = append(out, s.Val)
		case *ssa.UnOp, *ssa.DebugRef:
		default:
			return nil
		}
	}
	return out
}

// clockDerived: v denotes an instant the clock has already reached when v is
// available: a reading of the clock, a value delivered by a timer, or a
// location-only transform / phi of such.
func (a *c05) clockDerived(v ssa.Value) bool {
	if a.clockDepth == 0 {
		// fresh memo per top-level query: the coinductive phi assumption is only valid inside one query
		a.clockMemo = map[ssa.Value]int{}
	}
	a.clockDepth++
	defer func() { a.clockDepth-- }()
	switch a.clockMemo[v] {
	case 1, 2:
		return true // coinductive for phi cycles
	case 3:
		return false
	}
	a.clockMemo[v] = 1
	ok := a.clockDerived1(v)
	if ok {
		a.clockMemo[v] = 2
	} else {
		a.clockMemo[v] = 3
	}
	return ok
}

func (a *c05) clockDerived1(v ssa.Value) bool {
	switch x := v.(type) {
	case *ssa.Phi:
		for _, ed := range x.Edges {
			if !a.clockDerived(ed) {
				return false
			}
		}
		return true
	case *ssa.Extract:
		if sel, ok := x.Tuple.(*ssa.Select); ok && x.Index >= 2 {
			k := 0
			for _, st := range sel.States {
				if st.Dir != types.RecvOnly {
					continue
				}
				if 2+k == x.Index {
					return a.timerChan(st.Chan, map[ssa.Value]bool{})
				}
				k++
			}
		}
		if call, ok := x.Tuple.(*ssa.UnOp); ok && call.Op == token.ARROW && x.Index == 0 {
			return a.timerChan(call.X, map[ssa.Value]bool{})
		}
		if call, ok := x.Tuple.(*ssa.Call); ok {
			if rets := a.returnsOf(call, x.Index); rets != nil {
				for _, rv := range rets {
					if !a.clockDerived(rv) {
						return false
					}
				}
				return true
			}
		}
		return false
	case *ssa.UnOp:
		if x.Op == token.ARROW {
			return a.timerChan(x.X, map[ssa.Value]bool{})
		}
		if x.Op == token.MUL {
			// a local cell or a field of a local struct: every store is clock-derived
			if vals := c05LocStores(x.X); len(vals) > 0 {
				for _, sv := range vals {
					if !a.clockDerived(sv) {
						return false
					}
				}
				return true
			}
		}
		return false
	case *ssa.Call:
		if x.Call.IsInvoke() {
			m := x.Call.Method
			if m != nil && m.Name() == "Now" && m.Pkg() != nil && m.Pkg().Path() == "k8s.io/utils/clock" {
				return true
			}
			if a.seamTarget(x) == nil {
				return false
			}
		}
		if callIs(x, "time", "", "Now") {
			return true
		}
		for _, n := range []string{"In", "UTC", "Local"} {
			if c05IsTimeMethod(x, n) {
				return a.clockDerived(x.Call.Args[0])
			}
		}
		if x.Call.Signature().Results().Len() == 1 {
			if rets := a.returnsOf(x, 0); len(rets) > 0 {
				for _, rv := range rets {
					if !a.clockDerived(rv) {
						return false
					}
				}
				return true
			}
		}
		return false
	case *ssa.Parameter:
		fn := x.Parent()
		if isExportedFunc(fn) || a.addrTaken[fn] || len(a.sites[fn]) == 0 {
			return false
		}
		idx := -1
		for i, pa := range fn.Params {
			if pa == x {
				idx = i
			}
		}
		if idx < 0 {
			return false
		}
		for _, s := range a.sites[fn] {
			args := s.Common().Args
			if idx >= len(args) || !a.clockDerived(args[idx]) {
				return false
			}
		}
		return true
	}
	return false
}

// c05PositiveShift: v is t.Add(d) with a constant d > 0 (an instant in the future of t).
func (a *c05) positiveShift(v ssa.Value) bool {
	call, ok := v.(*ssa.Call)
	if !ok || !c05IsTimeMethod(call, "Add") || len(call.Call.Args) != 2 {
		return false
	}
	k, ok := call.Call.Args[1].(*ssa.Const)
	if !ok || k.Value == nil {
		return false
	}
	return constant.Sign(k.Value) > 0 && a.clockDerived(call.Call.Args[0])
}

// ---- facts on Cron.running -------------------------------------------------

// runningFact returns +1/-1 when every path to b has observed Cron.running
// true/false on a dominating branch, with the load that was tested.
func (a *c05) runningFact(b *ssa.BasicBlock) (int, ssa.Instruction) {
	for _, dc := range domConds(b) {
		cond, br := dc.If.Cond, dc.Branch
		for {
			if u, ok := cond.(*ssa.UnOp); ok && u.Op == token.NOT {
				cond, br = u.X, !br
				continue
			}
			break
		}
		if bo, ok := cond.(*ssa.BinOp); ok && (bo.Op == token.EQL || bo.Op == token.NEQ) {
			x, y := bo.X, bo.Y
			if _, isC := x.(*ssa.Const); isC {
				x, y = y, x
			}
			if k, ok := y.(*ssa.Const); ok && k.Value != nil && k.Value.Kind() == constant.Bool {
				want := constant.BoolVal(k.Value)
				if bo.Op == token.NEQ {
					want = !want
				}
				if !want {
					br = !br
				}
				cond = x
			}
		}
		if _, ok := c05LoadOf(cond, a.fRunning); ok {
			if br {
				return 1, cond.(ssa.Instruction)
			}
			return -1, cond.(ssa.Instruction)
		}
	}
	return 0, nil
}

func (a *c05) section(fn *ssa.Function) map[ssa.Instruction]uint8 {
	if s, ok := a.sections[fn]; ok {
		return s
	}
	s := sectionIndex(a.e, fn, a.lockID)
	a.sections[fn] = s
	return s
}

// underLockWithRunning: instruction in executes with runningMu held (W), on a
// branch where Cron.running was read as want (+1/-1) inside the same critical section.
func (a *c05) underLockWithRunning(in ssa.Instruction, want int) (bool, string) {
	if a.e.At(in)[a.lockID] != ModeW {
		return false, "Cron.runningMu is not held"
	}
	got, load := a.runningFact(in.Block())
	if got == 0 {
		return false, "no dominating test of Cron.running"
	}
	if got != want {
		if want > 0 {
			return false, "executes on the branch where Cron.running is false"
		}
		return false, "executes on the branch where Cron.running is true"
	}
	if a.e.At(load)[a.lockID] != ModeW {
		return false, "Cron.running was read without Cron.runningMu"
	}
	sec := a.section(in.Parent())
	if sec[load] != sec[in] {
		return false, "Cron.running was read in an earlier critical section (lock released in between)"
	}
	return true, ""
}

// isConstInt reports whether v is an integer constant with value k.
func c05ConstInt(v ssa.Value, k int64) bool {
	c, ok := v.(*ssa.Const)
	if !ok || c.Value == nil || c.Value.Kind() != constant.Int {
		return false
	}
	return c.Int64() == k
}

// sameConst: two values are the same constant.
func c05SameValue(x, y ssa.Value) bool {
	if x == y {
		return true
	}
	cx, ok1 := x.(*ssa.Const)
	cy, ok2 := y.(*ssa.Const)
	if ok1 && ok2 {
		if cx.Value == nil || cy.Value == nil {
			return cx.Value == nil && cy.Value == nil
		}
		return cx.Value.Kind() == cy.Value.Kind() && constant.Compare(cx.Value, token.EQL, cy.Value)
	}
	return false
}

// c05SyncHigherOrder: library packages whose functions invoke the function
// values they are given synchronously, before returning (assumption).
var c05SyncHigherOrder = map[string]bool{"sort": true, "slices": true}

// syncCallbacks: same-package functions passed as arguments to a call of a
// synchronous higher-order library function.
func (a *c05) syncCallbacks(ci ssa.CallInstruction) []*ssa.Function {
	if _, isCall := ci.(*ssa.Call); !isCall {
		return nil
	}
	obj := calleeObj(ci)
	if obj == nil || obj.Pkg() == nil || !c05SyncHigherOrder[obj.Pkg().Path()] {
		return nil
	}
	var out []*ssa.Function
	for _, arg := range ci.Common().Args {
		switch x := arg.(type) {
		case *ssa.MakeClosure:
			if fn, ok := x.Fn.(*ssa.Function); ok && a.p.funcSet[fn] {
				out = append(out, fn)
			}
		case *ssa.Function:
			if a.p.funcSet[x] {
				out = append(out, x)
			}
		}
	}
	return out
}

// syncCallbackOnly: every use of fn as a value is as such a callback.
func (a *c05) syncCallbackOnly(fn *ssa.Function) bool {
	par := fn.Parent()
	if par == nil {
		return false
	}
	uses := a.funcValueUses(fn)
	if len(uses) == 0 {
		return false
	}
	for _, u := range uses {
		ci, isCall := u.(ssa.CallInstruction)
		if !isCall {
			return false
		}
		if cv := ci.Common().Value; cv == ssa.Value(fn) {
			return false // called directly, not handed over
		} else if mc, ok := cv.(*ssa.MakeClosure); ok && mc.Fn == fn {
			return false
		}
		handed := false
		for _, arg := range ci.Common().Args {
			if mc, ok := arg.(*ssa.MakeClosure); (ok && mc.Fn == fn) || arg == ssa.Value(fn) {
				if len(a.syncCallbacks(ci)) > 0 || a.passedToCaller(ci, arg) {
					handed = true
				}
			}
		}
		if !handed {
			return false
		}
	}
	return true
}

// c05Atom: a boolean SSA value known to have the given truth.
type c05Atom struct {
	v  ssa.Value
	tv bool
}

// c05ExpandCond: the atomic facts implied by cond having truth tv. go/ssa
// lowers `x && y` / `x || y` used as a VALUE (e.g. a tagless switch case) to a
// phi [false, y] / [true, y] whose constant edge comes straight from the block
// testing x; a true `&&` implies both operands, a false `||` refutes both.
func c05ExpandCond(cond ssa.Value, tv bool, depth int) []c05Atom {
	for {
		if u, ok := cond.(*ssa.UnOp); ok && u.Op == token.NOT {
			cond, tv = u.X, !tv
			continue
		}
		break
	}
	phi, ok := cond.(*ssa.Phi)
	if !ok || depth > 4 || len(phi.Edges) != 2 {
		return []c05Atom{{cond, tv}}
	}
	for i, ed := range phi.Edges {
		k, isK := ed.(*ssa.Const)
		if !isK || k.Value == nil || k.Value.Kind() != constant.Bool {
			continue
		}
		kv := constant.BoolVal(k.Value)
		if kv == tv {
			continue // `false` edge of && while asking for false: nothing implied
		}
		// the phi is !kv only through the other edge; the block of the constant
		// edge tested x and came here directly
		other := phi.Edges[1-i]
		pred := phi.Block().Preds[i]
		out := c05ExpandCond(other, tv, depth+1)
		if len(pred.Instrs) > 0 {
			if ifi, ok := pred.Instrs[len(pred.Instrs)-1].(*ssa.If); ok && len(pred.Succs) == 2 && pred.Succs[0] != pred.Succs[1] {
				// reaching the phi with the constant means x had the truth of that edge;
				// not taking the constant means the opposite
				edgeTruth := pred.Succs[0] == phi.Block()
				out = append(out, c05ExpandCond(ifi.Cond, !edgeTruth, depth+1)...)
			}
		}
		return out
	}
	return []c05Atom{{cond, tv}}
}

// c05DomAtoms: atomic boolean facts that hold on every path to block b.
func c05DomAtoms(b *ssa.BasicBlock) []c05Atom {
	var out []c05Atom
	for _, dc := range domConds(b) {
		out = append(out, c05ExpandCond(dc.If.Cond, dc.Branch, 0)...)
	}
	return out
}

// dynTargets: the same-module functions a dynamic call can reach when that is
// statically known: a call of a PARAMETER whose every actual is a closure or
// function (a callback helper such as withLock(func(){...})), or a call
// through an unexported func-typed struct FIELD all of whose stores are
// closures/functions.
func (a *c05) dynTargets(ci ssa.CallInstruction) []*ssa.Function {
	cc := ci.Common()
	if cc.IsInvoke() {
		return nil
	}
	asFuncs := func(vals []ssa.Value) []*ssa.Function {
		var out []*ssa.Function
		for _, v := range vals {
			switch x := v.(type) {
			case *ssa.MakeClosure:
				fn, ok := x.Fn.(*ssa.Function)
				if !ok {
					return nil
				}
				out = append(out, a.unwrapBound(fn))
			case *ssa.Function:
				out = append(out, a.unwrapBound(x))
			default:
				return nil
			}
		}
		return out
	}
	switch v := cc.Value.(type) {
	case *ssa.Parameter:
		acts := a.actualsOf(v)
		if len(acts) == 0 {
			return nil
		}
		return asFuncs(acts)
	case *ssa.UnOp:
		if v.Op != token.MUL {
			return nil
		}
		fa, ok := v.X.(*ssa.FieldAddr)
		if !ok {
			return nil
		}
		id := fieldIDOfAddr(fa)
		if id.Field == "" || id.Field == "?" || token.IsExported(id.Field) {
			return nil
		}
		var vals []ssa.Value
		for _, fn := range a.p.Funcs {
			allInstrs(fn, func(in ssa.Instruction) {
				if st, ok := in.(*ssa.Store); ok {
					if sfa, ok := st.Addr.(*ssa.FieldAddr); ok && fieldIDOfAddr(sfa) == id {
						vals = append(vals, st.Val)
					}
				}
			})
		}
		if len(vals) == 0 {
			return nil
		}
		return asFuncs(vals)
	}
	return nil
}

// passedToCaller: closure mc is an argument of a plain call to a same-module
// function whose corresponding parameter is only ever CALLED (synchronously):
// the closure runs during that call, on the caller's goroutine.
func (a *c05) passedToCaller(ci ssa.CallInstruction, mc ssa.Value) bool {
	if _, isCall := ci.(*ssa.Call); !isCall {
		return false
	}
	h := staticCallee(ci)
	if h == nil || !a.p.funcSet[h] {
		return false
	}
	found := false
	for k, arg := range ci.Common().Args {
		if arg != mc {
			continue
		}
		if k >= len(h.Params) {
			return false
		}
		for _, u := range refs(h.Params[k]) {
			switch x := u.(type) {
			case *ssa.DebugRef:
			case *ssa.Call:
				if x.Call.Value != ssa.Value(h.Params[k]) {
					return false
				}
			default:
				return false
			}
		}
		found = true
	}
	return found
}

// callbackBinding: for a call of h at ci, the parameters of h that receive a
// closure/function which h only calls.
func (a *c05) callbackBinding(ci ssa.CallInstruction, h *ssa.Function) map[*ssa.Parameter]*ssa.Function {
	if staticCallee(ci) != h {
		return nil
	}
	var out map[*ssa.Parameter]*ssa.Function
	for k, arg := range ci.Common().Args {
		if k >= len(h.Params) {
			break
		}
		var fn *ssa.Function
		switch x := arg.(type) {
		case *ssa.MakeClosure:
			fn, _ = x.Fn.(*ssa.Function)
		case *ssa.Function:
			fn = x
		}
		if fn == nil || !a.p.funcSet[fn] || !a.passedToCaller(ci, arg) {
			continue
		}
		if out == nil {
			out = map[*ssa.Parameter]*ssa.Function{}
		}
		out[h.Params[k]] = fn
	}
	return out
}

// c05SameVar: x and y are the same value, or two reads of the same variable
// (loads of one address: a captured variable or a local cell).
func c05SameVar(x, y ssa.Value) bool {
	if x == y {
		return true
	}
	ux, ok1 := x.(*ssa.UnOp)
	uy, ok2 := y.(*ssa.UnOp)
	if !ok1 || !ok2 || ux.Op != token.MUL || uy.Op != token.MUL {
		return false
	}
	if ux.X != uy.X {
		return false
	}
	switch ux.X.(type) {
	case *ssa.FreeVar, *ssa.Alloc:
		return true
	}
	return false
}

// c05LocStores: the values ever stored into the local location addr — a local
// variable cell (Alloc) or a field of a local struct (FieldAddr of an Alloc) —
// provided the variable does not escape (it is only stored to / loaded from,
// directly or field-wise); nil otherwise. Zero values of never-assigned fields
// are not reported.
func c05LocStores(addr ssa.Value) []ssa.Value {
	switch x := addr.(type) {
	case *ssa.Alloc:
		return c05CellStores(x)
	case *ssa.FieldAddr:
		base, ok := x.X.(*ssa.Alloc)
		if !ok {
			return nil
		}
		var out []ssa.Value
		for _, r := range refs(base) {
			switch y := r.(type) {
			case *ssa.DebugRef:
			case *ssa.FieldAddr:
				for _, r2 := range refs(y) {
					switch z := r2.(type) {
					case *ssa.Store:
						if z.Addr != ssa.Value(y) {
							return nil // the field's address is stored somewhere
						}
						if y.Field == x.Field {
							out = append(out, z.Val)
						}
					case *ssa.UnOp, *ssa.DebugRef:
					default:
						return nil
					}
				}
			case *ssa.Store:
				if y.Addr != ssa.Value(base) {
					return nil
				}
				if _, isConst := y.Val.(*ssa.Const); !isConst {
					return nil
				}
			default:
				return nil
			}
		}
		return out
	}
	return nil
}

const (
	c05ClockUnknown = iota
	c05ClockYes
	c05ClockNo
)

// clockKind: is v a reading of the clock (Yes), positively something else
// (No: an entry's stored instant, a shifted/truncated time, a constant, the
// zero value), or of unknown provenance (Unknown: e.g. the result of a call
// that cannot be resolved)?
func (a *c05) clockKind(v ssa.Value) int {
	if a.clockDerived(v) {
		return c05ClockYes
	}
	return a.clockNo(v, map[ssa.Value]bool{})
}

func (a *c05) clockNo(v ssa.Value, seen map[ssa.Value]bool) int {
	if seen[v] {
		return c05ClockUnknown
	}
	seen[v] = true
	switch x := v.(type) {
	case *ssa.Const:
		return c05ClockNo
	case *ssa.UnOp:
		if x.Op == token.MUL {
			if fa, ok := x.X.(*ssa.FieldAddr); ok {
				id := fieldIDOfAddr(fa)
				if id == a.fNext || id == a.fPrev {
					return c05ClockNo // an activation instant, not the current time
				}
			}
			if vals := c05LocStores(x.X); len(vals) > 0 {
				for _, sv := range vals {
					if !a.clockDerived(sv) && a.clockNo(sv, seen) == c05ClockNo {
						return c05ClockNo
					}
				}
			}
		}
	case *ssa.Phi:
		for _, ed := range x.Edges {
			if !a.clockDerived(ed) && a.clockNo(ed, seen) == c05ClockNo {
				return c05ClockNo
			}
		}
	case *ssa.Parameter:
		for _, av := range a.actualsOf(x) {
			if !a.clockDerived(av) && a.clockNo(av, seen) == c05ClockNo {
				return c05ClockNo
			}
		}
	case *ssa.Call:
		if x.Call.IsInvoke() {
			return c05ClockUnknown
		}
		for _, n := range []string{"Add", "AddDate", "Truncate", "Round"} {
			if c05IsTimeMethod(x, n) {
				return c05ClockNo
			}
		}
		for _, n := range []string{"In", "UTC", "Local"} {
			if c05IsTimeMethod(x, n) {
				return a.clockNo(x.Call.Args[0], seen)
			}
		}
		if obj := calleeObj(x); obj != nil && obj.Pkg() != nil && obj.Pkg().Path() == "time" {
			switch obj.Name() {
			case "Date", "Unix", "UnixMilli", "UnixMicro":
				return c05ClockNo
			}
		}
		if rets := a.returnsOf(x, 0); rets != nil {
			for _, rv := range rets {
				if !a.clockDerived(rv) && a.clockNo(rv, seen) == c05ClockNo {
					return c05ClockNo
				}
			}
		}
	}
	return c05ClockUnknown
}

// unwrapBound: a bound-method / thunk wrapper (c.now used as a value) is
// replaced by the method it wraps.
func (a *c05) unwrapBound(fn *ssa.Function) *ssa.Function {
	if a.p.funcSet[fn] || fn.Synthetic == "" {
		return fn
	}
	if obj, ok := fn.Object().(*types.Func); ok && obj != nil {
		if m := a.p.SSA.FuncValue(obj); m != nil && a.p.funcSet[m] {
			return m
		}
	}
	return fn
}

// calleesOf: the same-module functions a call can reach (static callee, or
// statically known dynamic targets); nil if unknown.
func (a *c05) calleesOf(call ssa.CallInstruction) []*ssa.Function {
	if call.Common().IsInvoke() {
		if m := a.seamTarget(call); m != nil {
			return []*ssa.Function{m}
		}
		return nil
	}
	if h := staticCallee(call); h != nil {
		h = a.unwrapBound(h) // a method value kept in a local: start := c.startJob; start(j)
		if a.p.funcSet[h] {
			return []*ssa.Function{h}
		}
		return nil
	}
	if tab := a.tableTargets(call); len(tab) > 0 {
		return tab
	}
	var out []*ssa.Function
	for _, t := range a.dynTargets(call) {
		if !a.p.funcSet[t] {
			return nil
		}
		out = append(out, t)
	}
	return out
}

// c05CapturedStores: all values stored into the local variable cell, in its
// function and in the closures capturing it; nil if the variable is used in
// any other way (its address escapes).
func c05CapturedStores(cell ssa.Value, depth int) []ssa.Value {
	if depth > 4 {
		return nil
	}
	var out []ssa.Value
	for _, r := range refs(cell) {
		switch x := r.(type) {
		case *ssa.DebugRef, *ssa.UnOp:
		case *ssa.Store:
			if x.Addr != cell {
				return nil
			}
			out = append(out, x.Val)
		case *ssa.MakeClosure:
			cl, ok := x.Fn.(*ssa.Function)
			if !ok {
				return nil
			}
			for bi, b := range x.Bindings {
				if b != cell || bi >= len(cl.FreeVars) {
					continue
				}
				sub := c05CapturedStores(cl.FreeVars[bi], depth+1)
				if sub == nil && len(refs(cl.FreeVars[bi])) > 0 {
					// nil may also mean "no stores": distinguish by re-checking uses
					okUse := true
					for _, u := range refs(cl.FreeVars[bi]) {
						switch u.(type) {
						case *ssa.UnOp, *ssa.DebugRef:
						default:
							okUse = false
						}
					}
					if !okUse {
						return nil
					}
				}
				out = append(out, sub...)
			}
		default:
			return nil
		}
	}
	return out
}

// seamTarget: an invoke on an UNEXPORTED interface declared in the analysed
// package that has exactly one implementation in the package (a seam
// introduced for structure, not for substitution) is a call of that method.
func (a *c05) seamTarget(call ssa.CallInstruction) *ssa.Function {
	cc := call.Common()
	if !cc.IsInvoke() || cc.Method == nil {
		return nil
	}
	named, ok := cc.Value.Type().(*types.Named)
	if !ok || named.Obj().Exported() || named.Obj().Pkg() == nil || named.Obj().Pkg().Path() != a.pkg {
		return nil
	}
	iface, ok := named.Underlying().(*types.Interface)
	if !ok {
		return nil
	}
	var found *ssa.Function
	n := 0
	scope := named.Obj().Pkg().Scope()
	for _, name := range scope.Names() {
		tn, ok := scope.Lookup(name).(*types.TypeName)
		if !ok {
			continue
		}
		t := tn.Type()
		if _, isIface := t.Underlying().(*types.Interface); isIface {
			continue
		}
		for _, cand := range []types.Type{t, types.NewPointer(t)} {
			if !types.Implements(cand, iface) {
				continue
			}
			ms := types.NewMethodSet(cand)
			sel := ms.Lookup(cc.Method.Pkg(), cc.Method.Name())
			if sel == nil {
				continue
			}
			if fn := a.p.SSA.MethodValue(sel); fn != nil && a.p.funcSet[fn] {
				if found != fn {
					n++
				}
				found = fn
			}
			break
		}
	}
	if n == 1 {
		return found
	}
	return nil
}

// tableTargets: the call's function value is an element of a literal
// slice/array of closures or functions (a table of steps): the elements, in order.
func (a *c05) tableTargets(ci ssa.CallInstruction) []*ssa.Function {
	u, ok := ci.Common().Value.(*ssa.UnOp)
	if !ok || u.Op != token.MUL {
		return nil
	}
	ia, ok := u.X.(*ssa.IndexAddr)
	if !ok {
		return nil
	}
	var arr *ssa.Alloc
	switch x := ia.X.(type) {
	case *ssa.Slice:
		arr, _ = x.X.(*ssa.Alloc)
	case *ssa.Alloc:
		arr = x
	}
	if arr == nil {
		return nil
	}
	type el struct {
		idx int64
		fn  *ssa.Function
	}
	var els []el
	for _, r := range refs(arr) {
		switch x := r.(type) {
		case *ssa.IndexAddr:
			if x == ia {
				continue
			}
			k, ok := x.Index.(*ssa.Const)
			if !ok {
				return nil
			}
			for _, r2 := range refs(x) {
				st, ok := r2.(*ssa.Store)
				if !ok {
					return nil
				}
				var fn *ssa.Function
				switch v := st.Val.(type) {
				case *ssa.MakeClosure:
					fn, _ = v.Fn.(*ssa.Function)
				case *ssa.Function:
					fn = v
				}
				if fn == nil {
					return nil
				}
				fn = a.unwrapBound(fn)
				if !a.p.funcSet[fn] {
					return nil
				}
				els = append(els, el{k.Int64(), fn})
			}
		case *ssa.Slice, *ssa.DebugRef:
		default:
			return nil
		}
	}
	sort.Slice(els, func(i, j int) bool { return els[i].idx < els[j].idx })
	var out []*ssa.Function
	for _, e := range els {
		out = append(out, e.fn)
	}
	return out
}

// funcValueUses: the instructions of fn's parent that use fn as a value — an
// anonymous function with captured variables is a MakeClosure, one WITHOUT
// captures is the bare *ssa.Function (go func(w *sync.WaitGroup){...}(wg)).
func (a *c05) funcValueUses(fn *ssa.Function) []ssa.Instruction {
	par := fn.Parent()
	if par == nil {
		return nil
	}
	var out []ssa.Instruction
	allInstrs(par, func(in ssa.Instruction) {
		if mc, ok := in.(*ssa.MakeClosure); ok && mc.Fn == fn {
			for _, u := range refs(mc) {
				if _, dbg := u.(*ssa.DebugRef); !dbg {
					out = append(out, u)
				}
			}
			return
		}
		for _, op := range in.Operands(nil) {
			if op != nil && *op == ssa.Value(fn) {
				out = append(out, in)
				break
			}
		}
	})
	return out
}
