package main

// Thorough tier: sensitivity self-test. Every mutant of the property under
// selftest/mutants/<id>/ is applied to a scratch copy of the analysed
// repository (outside /repo and /verif, removed immediately), the same check
// is run on the copy in a separate process, and the evidence records which
// mutants were reported. Results are evidence about the checker; they never
// produce a VIOLATION for the repository itself.

import (
	"bufio"
	"fmt"
	"os"
	"os/exec"
	"path/filepath"
	"regexp"
	"sort"
	"strings"
	"sync"
)

type mutantResult struct {
	Name     string `json:"mutant"`
	Expected string `json:"expected"`
	Exit     int    `json:"exit"`
	Outcome  string `json:"outcome"` // reported | silent | undecided | not-applicable
	AsWanted bool   `json:"as_expected"`
	Rule     string `json:"first_rule,omitempty"`
}

var (
	reRefactor = regexp.MustCompile(`^(c[0-9]+-)?r[0-9]`)
	reUndec    = regexp.MustCompile(`^(c[0-9]+-)?u[0-9]|UNDECIDED`)
	reNote     = regexp.MustCompile(`^(c[0-9]+-)?n[0-9]|NOTE-only`)
)

func mutantExpectation(verif, name string) []int {
	want := []int{1}
	switch {
	case reRefactor.MatchString(name):
		want = []int{0}
	case reUndec.MatchString(name):
		want = []int{0, 2}
	case reNote.MatchString(name):
		want = []int{0}
	}
	if f, err := os.Open(filepath.Join(verif, "selftest", "mutants", "EXPECT.txt")); err == nil {
		defer f.Close()
		sc := bufio.NewScanner(f)
		for sc.Scan() {
			line := sc.Text()
			if i := strings.Index(line, "#"); i >= 0 {
				line = line[:i]
			}
			fs := strings.Fields(line)
			if len(fs) >= 2 && fs[0] == name {
				want = nil
				for _, x := range fs[1:] {
					var n int
					fmt.Sscanf(x, "%d", &n)
					want = append(want, n)
				}
			}
		}
	}
	return want
}

func runSelfTest(prop, repo, verif string) map[string]any {
	dir := filepath.Join(verif, "selftest", "mutants", prop)
	ents, err := os.ReadDir(dir)
	if err != nil {
		return map[string]any{"mutants": "none recorded for this property"}
	}
	exe, _ := os.Executable()
	var names []string
	for _, e := range ents {
		n := e.Name()
		if e.IsDir() || !(strings.HasSuffix(n, ".sh") || strings.HasSuffix(n, ".diff")) {
			continue
		}
		names = append(names, n)
	}
	sort.Strings(names)
	results := make([]mutantResult, len(names))
	sem := make(chan struct{}, 8)
	var wg sync.WaitGroup
	for i, n := range names {
		wg.Add(1)
		go func(i int, n string) {
			defer wg.Done()
			sem <- struct{}{}
			defer func() { <-sem }()
			results[i] = runOneMutant(exe, prop, repo, verif, filepath.Join(dir, n))
		}(i, n)
	}
	wg.Wait()
	det, sil, und, na, unexpected := 0, 0, 0, 0, 0
	var bad []string
	for _, r := range results {
		switch r.Outcome {
		case "reported":
			det++
		case "silent":
			sil++
		case "undecided":
			und++
		default:
			na++
		}
		if !r.AsWanted && r.Outcome != "not-applicable" {
			unexpected++
			bad = append(bad, fmt.Sprintf("%s: %s (expected exit %s)", r.Name, r.Outcome, r.Expected))
		}
	}
	return map[string]any{
		"mutants_total": len(results), "mutants_reported": det, "mutants_silent": sil, "mutants_undecided": und,
		"mutants_not_applicable": na, "mutants_not_as_expected": unexpected, "not_as_expected": bad, "mutant_results": results,
		"mutant_rule": "each mutant (script or patch) is applied to a scratch copy of the repository, must still compile, and the same check is run on the copy in its own process; r*=behaviour-preserving refactor (must stay silent), u*=may be UNDECIDED, others must be reported; overrides with reasons in selftest/mutants/EXPECT.txt",
	}
}

func runOneMutant(exe, prop, repo, verif, path string) mutantResult {
	name := filepath.Base(path)
	want := mutantExpectation(verif, name)
	res := mutantResult{Name: name, Expected: fmt.Sprint(want), Outcome: "not-applicable", Exit: -1}
	tmp, err := os.MkdirTemp("", "kcmut-")
	if err != nil {
		return res
	}
	defer os.RemoveAll(tmp)
	scratch := filepath.Join(tmp, "repo")
	if out, err := exec.Command("rsync", "-a", "--exclude", ".git", repo+"/", scratch+"/").CombinedOutput(); err != nil {
		_ = out
		return res
	}
	env := append(os.Environ(), "GOFLAGS=-mod=mod", "GOPROXY=off", "GOSUMDB=off", "GOTOOLCHAIN=local", "GOWORK=off")
	var cmd *exec.Cmd
	if strings.HasSuffix(path, ".sh") {
		cmd = exec.Command("bash", path)
	} else {
		cmd = exec.Command("bash", "-c", "git apply --unsafe-paths -p1 \"$0\" 2>/dev/null || patch -s -p1 < \"$0\"", path)
	}
	cmd.Dir, cmd.Env = scratch, env
	if err := cmd.Run(); err != nil {
		return res
	}
	if err := exec.Command("diff", "-rq", "--exclude", ".git", repo, scratch).Run(); err == nil {
		return res // no change
	}
	b := exec.Command("go", "build", "-trimpath", "-tags", "unit", "./...")
	b.Dir, b.Env = scratch, env
	if err := b.Run(); err != nil {
		return res
	}
	evdir := filepath.Join(tmp, "verif")
	os.MkdirAll(evdir, 0o755)
	// the copy needs the fixtures and the known-findings file
	os.Symlink(filepath.Join(verif, "kitcheck"), filepath.Join(evdir, "kitcheck"))
	if kb, err := os.ReadFile(filepath.Join(verif, "known_findings.json")); err == nil {
		os.WriteFile(filepath.Join(evdir, "known_findings.json"), kb, 0o644)
	}
	k := exec.Command(exe, "-prop", prop, "-tier", "quick", "-repo", scratch, "-verif", evdir)
	k.Env = env
	out, _ := k.CombinedOutput()
	res.Exit = k.ProcessState.ExitCode()
	switch res.Exit {
	case 0:
		res.Outcome = "silent"
	case 1:
		res.Outcome = "reported"
	case 2:
		res.Outcome = "undecided"
	}
	if m := regexp.MustCompile(`rule=(\S+)`).FindStringSubmatch(string(out)); m != nil {
		res.Rule = m[1]
	}
	for _, w := range want {
		if w == res.Exit {
			res.AsWanted = true
		}
	}
	return res
}
