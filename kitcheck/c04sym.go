package main

// C04: abstract interpretation of the parser entry point. The package
// initialiser is evaluated once to obtain the package-level tables (arrays of
// field tables, maps of builder functions, ...) as values; Parser.Parse is then
// evaluated with a symbolic expression, following every branch whose condition
// stays symbolic (path exploration) and keeping three roles as symbolic
// applications: the normaliser, the column parser and the descriptor function.
// Whatever the code does in between — a closure latching the first error, an
// accumulator struct with an index, a loop over a literal table of field
// tables, a constructor helper — the SpecSchedule values reaching a successful
// return carry, per field, the application `parse(cols[i], table)`.

import (
	"go/types"
	"sort"
	"strings"

	"golang.org/x/tools/go/ssa"
)

// globalCells evaluates the initialiser of package cron (once).
func (st *c04State) globalCells() map[*ssa.Global]*c04Cell {
	if st.gcells != nil {
		return st.gcells
	}
	p := st.p
	ev := &c04Eval{InModule: c04InMod(p), Tolerant: true}
	sp := p.SSA.Package(p.Pkg("cron").Types)
	if err := ev.RunInit(sp); err != nil {
		st.r.Note("the initialiser of package cron could not be evaluated (%v): package-level tables are read from their literals only", err)
		st.gcells = map[*ssa.Global]*c04Cell{}
		return st.gcells
	}
	st.gcells = ev.GlobalCells
	// symbolic stand-ins for the two fixed locations of package time
	if tp := p.All["time"]; tp != nil {
		if tsp := p.SSA.Package(tp.Types); tsp != nil {
			for _, n := range []string{"Local", "UTC"} {
				if g, ok := tsp.Members[n].(*ssa.Global); ok {
					st.gcells[g] = &c04Cell{V: c04Sym{"time." + n}}
				}
			}
		}
	}
	return st.gcells
}

// tableTerm: a field-table value as a term naming a package-level table with the same contents.
func (st *c04State) tableTerm(v any) (*c04T, bool) {
	sv, ok := v.(*c04Struct)
	if !ok || sv.Type != st.boundsKey {
		if p, isPtr := v.(c04Ptr); isPtr {
			return st.tableTerm(c04load(p))
		}
		return nil, false
	}
	stt := st.boundsT.Underlying().(*types.Struct)
	var min, max uint64
	hasNames, nNames := false, 0
	if iv, ok := c04StructAt(sv, stt, st.minF).(c04Int); ok {
		min = iv.V
	} else {
		return nil, false
	}
	if iv, ok := c04StructAt(sv, stt, st.maxF).(c04Int); ok {
		max = iv.V
	} else {
		return nil, false
	}
	if m, ok := c04StructAt(sv, stt, st.namesF).(*c04Map); ok {
		hasNames, nNames = true, len(m.M)
	}
	var names []string
	for n := range st.tables {
		names = append(names, n)
	}
	sort.Strings(names)
	for _, n := range names {
		t := st.tables[n]
		if t.Min == min && t.Max == max && (t.Names != nil) == hasNames && len(t.Names) == nNames {
			return &c04T{Op: "table", Name: n}, true
		}
	}
	return nil, false
}

type c04ParseOutcome struct {
	Fields []*c04T // per field of SpecSchedule, as terms
}

// exploreParse evaluates Parser.Parse symbolically and returns the SpecSchedule
// values of its successful returns.
func (st *c04State) exploreParse() (outs []c04ParseOutcome, problem string) {
	p := st.p
	parse := p.Func("cron", "Parser.Parse")
	cells := st.globalCells()
	if len(cells) == 0 {
		return nil, "package initialiser not evaluated"
	}
	opaque := func(f *ssa.Function) bool {
		sig := f.Signature
		hasStr, hasTable, hasLoc, hasErr := false, false, false, false
		for i := 0; i < sig.Params().Len(); i++ {
			t := sig.Params().At(i).Type()
			if bt, ok := t.Underlying().(*types.Basic); ok && bt.Kind() == types.String {
				hasStr = true
			}
			if namedKey(t) == st.boundsKey {
				hasTable = true
			}
			if namedKey(t) == "time.Location" {
				hasLoc = true
			}
		}
		for i := 0; i < sig.Results().Len(); i++ {
			if c04IsError(sig.Results().At(i).Type()) {
				hasErr = true
			}
		}
		if hasStr && hasTable && hasErr {
			return true // the column parser
		}
		if sig.Results().Len() > 0 {
			r0 := sig.Results().At(0).Type()
			if sl, ok := r0.Underlying().(*types.Slice); ok {
				if bt, ok := sl.Elem().Underlying().(*types.Basic); ok && bt.Kind() == types.String {
					return true // the normaliser
				}
			}
			if _, isIface := r0.Underlying().(*types.Interface); isIface && hasLoc && hasStr {
				return true // the descriptor function
			}
		}
		return false
	}
	specIdx := map[int]bool{}
	_ = specIdx
	var runErr error
	paths, truncated := c04Explore(2000, func(decide func(*c04T) (bool, bool)) {
		ev := &c04Eval{InModule: c04InMod(p), Tolerant: true, GlobalCells: cells, Opaque: opaque, OpaqueErrNil: true, Decide: decide}
		// table arguments of opaque calls become "table" terms
		ev.ArgTerm = func(v any) (*c04T, bool) { return st.tableTerm(v) }
		ev.Targets = newC04TermBuilder(p).Targets
		var args []any
		for _, par := range parse.Params {
			args = append(args, c04SymV{T: &c04T{Op: "leaf", Name: "param:" + par.Name()}})
		}
		res, err := ev.Run(parse, args)
		if err != nil {
			runErr = err
			return
		}
		tup, ok := res.(c04Tuple)
		if !ok || len(tup) != 2 {
			return
		}
		if _, isNil := tup[1].(c04Nil); !isNil {
			return // a failing return
		}
		ptr, ok := tup[0].(c04Ptr)
		if !ok {
			return // the descriptor function's (symbolic) result
		}
		sv, ok := c04load(ptr).(*c04Struct)
		if !ok || sv.Type != st.spec {
			return
		}
		var o c04ParseOutcome
		for _, f := range sv.F {
			t, ok := c04ValTerm(f)
			if !ok {
				if tt, ok2 := st.tableTerm(f); ok2 {
					t = tt
				} else {
					t = c04Unknown(c04Describe(f))
				}
			}
			o.Fields = append(o.Fields, t)
		}
		outs = append(outs, o)
	})
	switch {
	case runErr != nil && len(outs) == 0:
		return nil, "Parse could not be evaluated symbolically: " + runErr.Error()
	case truncated:
		return nil, "too many paths through Parse"
	case len(outs) == 0:
		return nil, "no path through Parse returns a SpecSchedule it built"
	}
	_ = paths
	return outs, ""
}

// c04StructAt: the value at a dotted field path of an evaluated struct.
func c04StructAt(sv *c04Struct, stt *types.Struct, path string) any {
	var cur any = sv
	for _, name := range strings.Split(path, ".") {
		cs, ok := cur.(*c04Struct)
		if !ok || stt == nil {
			return nil
		}
		idx := -1
		for i := 0; i < stt.NumFields(); i++ {
			if stt.Field(i).Name() == name {
				idx = i
			}
		}
		if idx < 0 || idx >= len(cs.F) {
			return nil
		}
		cur = cs.F[idx]
		stt, _ = stt.Field(idx).Type().Underlying().(*types.Struct)
	}
	return cur
}
