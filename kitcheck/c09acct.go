package main

// C09 flow A: pending-event accounting, run-loop cases, goroutine tracking.
// One path-sensitive exploration (c09flow.go) per entry point (Run, Add,
// Close, every goroutine body) with all same-package callees followed.

import (
	"fmt"
	"go/constant"
	"go/token"
	"go/types"
	"sort"
	"strings"

	"golang.org/x/tools/go/ssa"
)

const (
	aSignPos     uint64 = 1 << iota // current pendingEvents known > 0
	aSignZero                       // current pendingEvents known == 0
	aDebt                           // a signal was spawned on a positive count that is not yet zeroed
	aCredit                         // a positive count was zeroed and not yet turned into a signal
	aCaseIn                         // handling an input token
	aCaseExp                        // handling a window expiry
	aFirst                          // "no window open" established under the write lock
	aCapPath                        // "pending cap reached" established under the write lock
	aArmedInit                      // timer = NewTimer(initialDelay)
	aFlagT                          // window flag stored true
	aFlagF                          // window flag stored false
	aTimerNil                       // timer = nil
	aCurInit                        // currentDur = initialDelay
	aBfOne                          // backoffFactor = 1
	aW                              // write lock held
	aInc                            // pendingEvents++ in this section
	aTok                            // token goroutine started in this section
	aAddOK                          // a section with both completed
	aClosedK                        // "closed" established
	aSectionDone                    // a write-lock section was completed in this case
	aAdded                          // wg.Add since the last go statement
	aDone                           // wg.Done executed
	aWaited                         // wg.Wait executed
	aExpOK                          // a section satisfied the expiry obligations
	aFirstOK
	aCapOK
	aArmedBad // timer armed with something that is positively not initialDelay
	aIdleOK   // a section restored the idle window state at an expiry
	aR        // read lock held
	aClosedF  // the closed flag was observed false in the current write-lock section
	aWinMoved // the window was re-armed / its length or factor changed in the current section
	aHeld     // the entry point being explored holds its own count in the wait group (registered, Done deferred)
)

const aIterBits = aWinMoved | aCaseIn | aCaseExp | aFirst | aCapPath | aArmedInit | aFlagT | aFlagF | aTimerNil | aCurInit | aBfOne | aSectionDone | aExpOK | aFirstOK | aCapOK | aArmedBad | aIdleOK

// per pending-load bits in PState.B
const (
	bCur = iota
	bZF
	bWasPos
	bWasZero
	bPer
)

type c09Finding struct {
	rule, construct, pos, msg string
	bad                       bool
}

type c09Acct struct {
	k        *c09
	loads    map[*ssa.UnOp]int // loads of pendingEvents
	find     map[string]*c09Finding
	seenCase map[string]bool
	diag     map[string]string
	problems []string
	visited  map[ssa.Instruction]bool
	root     *ssa.Function
	rootKind string
	capCmp   map[string]string // comparisons pending vs cap seen: op
	addExits int
	goDone   map[string]bool          // go statements (per calling context) whose body was explored
	lockAt   map[ssa.Instruction]Mode // weakest lock mode held at an instruction over all explored contexts
	addOKs   int
}

func (a *c09Acct) note(rule, construct, pos, okMsg, badMsg string, bad bool) {
	key := rule + "|" + construct
	f := a.find[key]
	if f == nil {
		f = &c09Finding{rule: rule, construct: construct, pos: pos, msg: okMsg}
		a.find[key] = f
	}
	if bad && !f.bad {
		f.bad, f.msg, f.pos = true, badMsg, pos
	}
}

func (a *c09Acct) problem(format string, args ...any) {
	m := fmt.Sprintf(format, args...)
	for _, p := range a.problems {
		if p == m {
			return
		}
	}
	a.problems = append(a.problems, m)
}

func (a *c09Acct) pos(in ssa.Instruction) string { return a.k.p.Pos(instrPos(in)) }

func c09Bit(i, which int) uint64 { return 1 << uint(i*bPer+which) }

func c09AllBits(which int) uint64 {
	var m uint64
	for i := 0; i < 64/bPer; i++ {
		m |= c09Bit(i, which)
	}
	return m
}

func c09ClearKnowledge(st PState) PState {
	st.A &^= aSignPos | aSignZero
	st.B &^= c09AllBits(bCur) | c09AllBits(bZF)
	return st
}

// term classification ------------------------------------------------------

type c09Term struct {
	kind  int // 0 other, 1 const int, 2 field load, 3 deref of pointer field load, 4 nil
	field string
	ld    *ssa.UnOp
	k     int64
}

func (k *c09) term(pf *PathFlow, v ssa.Value) c09Term {
	if pf != nil {
		v = pf.Resolve(v)
	}
	for i := 0; i < 4; i++ {
		switch x := v.(type) {
		case *ssa.ChangeType:
			v = x.X
			continue
		case *ssa.Convert:
			v = x.X
			continue
		}
		break
	}
	if c, ok := v.(*ssa.Const); ok {
		if c.IsNil() {
			return c09Term{kind: 4}
		}
		if c.Value != nil && c.Value.Kind() == constant.Int {
			if n, ok := constant.Int64Val(c.Value); ok {
				return c09Term{kind: 1, k: n}
			}
		}
		return c09Term{}
	}
	if f, ld, ok := k.loadField(v); ok {
		return c09Term{kind: 2, field: f, ld: ld}
	}
	if u, ok := v.(*ssa.UnOp); ok && u.Op == token.MUL {
		inner := u.X
		if pf != nil {
			inner = pf.Resolve(inner)
		}
		if f, ld, ok := k.loadField(inner); ok {
			return c09Term{kind: 3, field: f, ld: ld}
		}
	}
	return c09Term{}
}

func c09Flip(op token.Token) token.Token {
	switch op {
	case token.LSS:
		return token.GTR
	case token.LEQ:
		return token.GEQ
	case token.GTR:
		return token.LSS
	case token.GEQ:
		return token.LEQ
	}
	return op
}

// isTimerChan: v is (only) the channel of the window timer (timer.C()).
func (k *c09) isTimerChan(pf *PathFlow, v ssa.Value) bool {
	var roots []ssa.Value
	if pf != nil {
		roots = pf.Roots(k.rc, v)
	} else {
		roots = k.rc.Roots(v)
	}
	n := 0
	for _, r := range roots {
		if isNilConst(r) {
			continue
		}
		call, ok := r.(*ssa.Call)
		if !ok || !k.isTimerInvoke(pf, call, "C") {
			return false
		}
		n++
	}
	return n > 0
}

// isTimerInvoke: call is timer.<name>(...) on the window timer.
func (k *c09) isTimerInvoke(pf *PathFlow, call ssa.CallInstruction, name string) bool {
	cc := call.Common()
	if !cc.IsInvoke() || cc.Method == nil || cc.Method.Name() != name {
		return false
	}
	var roots []ssa.Value
	if pf != nil {
		roots = pf.Roots(k.rc, cc.Value)
	} else {
		roots = k.rc.Roots(cc.Value)
	}
	if len(roots) == 0 {
		return false
	}
	for _, r := range roots {
		if f, _, ok := k.loadField(r); !ok || f != k.fTimer {
			return false
		}
	}
	return true
}

func (k *c09) isFieldChan(pf *PathFlow, v ssa.Value, field string) bool {
	if pf != nil {
		v = pf.Resolve(v)
	}
	if f, _, ok := k.loadField(v); ok && f == field {
		return true
	}
	roots := k.rc.Roots(v)
	if len(roots) == 0 {
		return false
	}
	for _, r := range roots {
		if f, _, ok := k.loadField(r); !ok || f != field {
			return false
		}
	}
	return true
}

// isEventChan: v may be the channel handed to Run.
func (k *c09) isEventChan(pf *PathFlow, v ssa.Value) bool {
	var roots []ssa.Value
	if pf != nil {
		roots = pf.Roots(k.rc, v)
	} else {
		roots = k.rc.Roots(v)
	}
	for _, r := range roots {
		if r == ssa.Value(k.evParam) {
			return true
		}
	}
	return false
}

// isLoopSelect: the select of the run loop (it receives the input token).
func (k *c09) isLoopSelect(pf *PathFlow, sel *ssa.Select) bool {
	for _, st := range sel.States {
		if st.Dir == types.RecvOnly && k.isFieldChan(pf, st.Chan, k.fInput) {
			return true
		}
	}
	return false
}

// wgCall: call is wg.<name> on the limiter's wait group.
func (k *c09) wgCall(ci ssa.CallInstruction, name string) bool {
	if !callIs(ci, "sync", "WaitGroup", name) || len(ci.Common().Args) == 0 {
		return false
	}
	return wgIdent(ci.Common().Args[0]) == k.wgID
}

// goKind classifies what the goroutine started by g does: sends a signal on
// the event channel ("event"), hands a token to the run loop ("token").
func (k *c09) goKind(pf *PathFlow, g ssa.CallInstruction) (event, token bool, body *ssa.Function) {
	body, _, _ = pf.Callee(g)
	pf.WalkFrom(g, true, func(sub *PathFlow, in ssa.Instruction) {
		for _, ch := range c09SendChans(in) {
			if k.isEventChan(sub, ch) {
				event = true
			}
			if k.isFieldChan(sub, ch, k.fInput) {
				token = true
			}
		}
	})
	return
}

// ---------------------------------------------------------------- transfer

func (a *c09Acct) loadIdx(ld *ssa.UnOp) (int, bool) {
	i, ok := a.loads[ld]
	return i, ok
}

// applySign records that the value loaded by ld is positive / zero.
func (a *c09Acct) applySign(st PState, ld *ssa.UnOp, pos bool) (PState, bool) {
	i, ok := a.loadIdx(ld)
	if !ok {
		return st, true
	}
	if (pos && st.B&c09Bit(i, bWasZero) != 0) || (!pos && st.B&c09Bit(i, bWasPos) != 0) {
		return st, false
	}
	if pos {
		st.B |= c09Bit(i, bWasPos)
	} else {
		st.B |= c09Bit(i, bWasZero)
	}
	if st.B&c09Bit(i, bCur) != 0 {
		if (pos && st.A&aSignZero != 0) || (!pos && st.A&aSignPos != 0) {
			return st, false
		}
		if pos {
			st.A |= aSignPos
		} else {
			st.A |= aSignZero
		}
		for j := 0; j < len(a.loads); j++ {
			if st.B&c09Bit(j, bCur) != 0 {
				if pos {
					st.B |= c09Bit(j, bWasPos)
				} else {
					st.B |= c09Bit(j, bWasZero)
				}
			}
		}
	}
	if st.B&c09Bit(i, bZF) != 0 {
		if pos {
			st.A |= aCredit
		}
		st.B &^= c09AllBits(bZF)
	}
	return st, true
}

func (a *c09Acct) edge(pf *PathFlow, from, to *ssa.BasicBlock, st PState) []PState {
	k := a.k
	for _, f := range k.fc.edgeFacts(from, to, 0) {
		if f.IsCmp {
			// which select case fired
			if ex, ok := f.X.(*ssa.Extract); ok && ex.Index == 0 && f.Op == token.EQL {
				if sel, ok := ex.Tuple.(*ssa.Select); ok {
					if c, ok := f.Y.(*ssa.Const); ok && c.Value != nil {
						idx := int(c.Int64())
						if idx >= 0 && idx < len(sel.States) && sel.States[idx].Dir == types.RecvOnly && k.isLoopSelect(pf, sel) {
							st.A &^= aCaseIn | aCaseExp
							if k.isFieldChan(pf, sel.States[idx].Chan, k.fInput) {
								st.A |= aCaseIn
							} else if k.isTimerChan(pf, sel.States[idx].Chan) {
								st.A |= aCaseExp
							}
						}
					}
				}
				continue
			}
			tx, ty := k.term(pf, f.X), k.term(pf, f.Y)
			op := f.Op
			if ty.kind == 2 && ty.field == k.fPend && !(tx.kind == 2 && tx.field == k.fPend) {
				tx, ty, op = ty, tx, c09Flip(op)
			} else if ty.kind == 2 && ty.field == k.fTimer {
				tx, ty, op = ty, tx, c09Flip(op)
			}
			switch {
			case tx.kind == 2 && tx.field == k.fPend && ty.kind == 1:
				pos := (op == token.GTR && ty.k >= 0) || (op == token.GEQ && ty.k >= 1) || (op == token.NEQ && ty.k == 0)
				zero := (op == token.LEQ && ty.k <= 0) || (op == token.LSS && ty.k <= 1) || (op == token.EQL && ty.k == 0)
				if pos || zero {
					var ok bool
					if st, ok = a.applySign(st, tx.ld, pos); !ok {
						return nil
					}
				}
			case tx.kind == 2 && tx.field == k.fPend && (ty.kind == 3 || ty.kind == 2) && ty.field == k.fCap:
				a.capCmp[op.String()] = a.k.p.Pos(instrPos(from.Instrs[len(from.Instrs)-1]))
				// the direction of the cap test: Add counts independently of the run loop, so the count can pass the
				// cap between two token handlings; only "count >= cap" (false edge: <) covers every reached/passed count
				wrong := op == token.GTR || op == token.LEQ || op == token.EQL || op == token.NEQ
				a.note("C09.L7-handlers", k.fname(from.Parent())+" cap comparison", a.capCmp[op.String()], "the pending count is compared with the cap by >=",
					"the pending count is compared with the cap by "+map[bool]string{true: "== (or !=)", false: "a strict >"}[op == token.EQL || op == token.NEQ]+": Add counts independently of the run loop, so a count that reaches or jumps past the cap between two token handlings does not fire immediately (with == it never fires again in that window)", wrong)
				if wrong {
					a.diag["capWrong"] = "1"
				}
				i, ok := a.loadIdx(tx.ld)
				if op == token.GEQ && ok && st.B&c09Bit(i, bCur) != 0 && st.A&aW != 0 {
					st.A |= aCapPath
				}
			case tx.kind == 2 && tx.field == k.fTimer && ty.kind == 4:
				if op == token.EQL && st.A&aW != 0 {
					st.A |= aFirst
				}
			}
			continue
		}
		if fl, ok := k.flagLoad(f.V); ok {
			if fl == k.fFlag && k.fFlag != "" && !f.Truth && st.A&aW != 0 {
				st.A |= aFirst
			}
			if fl == k.fClosed && k.fClosed != "" && f.Truth {
				st.A |= aClosedK
			}
			if fl == k.fClosed && k.fClosed != "" && !f.Truth && st.A&(aW|aR) != 0 {
				st.A |= aClosedF
			}
		}
	}
	return []PState{st}
}

func (a *c09Acct) sectionEnd(st PState, at ssa.Instruction) PState {
	k := a.k
	where := k.fname(at.Parent())
	if st.A&aDebt != 0 {
		a.note("C09.L3-signals-le-adds", where+" releases the lock after a signal", a.pos(at), "", "a signal goroutine was started for a positive pendingEvents that is not zeroed before the write lock is released: the same Adds are signalled again at the next expiry (signals exceed Adds)", true)
	}
	if st.B&c09AllBits(bZF) != 0 {
		a.note("C09.L7-handlers", where+" zeroes pendingEvents", a.pos(at), "", "pendingEvents is zeroed without a signal being started for it and without it being known to be zero: the Adds counted so far are lost", true)
	}
	zero := st.A&aSignZero != 0
	if st.A&aCaseExp != 0 {
		if zero {
			st.A |= aExpOK
		}
		var miss []string
		for _, m := range []struct {
			b uint64
			n string
			f string
		}{{aCurInit, k.fCur + "=" + k.fInit, k.fCur}, {aBfOne, k.fBackoff + "=1", k.fBackoff}, {aFlagF, k.fFlag + "=false", k.fFlag}, {aTimerNil, k.fTimer + "=nil", k.fTimer}} {
			if m.f != "" && st.A&m.b == 0 {
				miss = append(miss, m.n)
			}
		}
		if len(miss) == 0 {
			st.A |= aIdleOK
		} else {
			a.diag["idle"] = strings.Join(miss, ", ")
		}
	}
	if st.A&aCaseIn != 0 && st.A&aFirst != 0 {
		var miss []string
		if !zero {
			miss = append(miss, "pending events fired")
		}
		if st.A&aArmedInit == 0 {
			miss = append(miss, "timer = NewTimer(initial delay)")
		}
		if k.fFlag != "" && st.A&aFlagT == 0 {
			miss = append(miss, "window flag = true")
		}
		if len(miss) == 0 {
			st.A |= aFirstOK
		} else {
			a.diag["first"] = strings.Join(miss, ", ")
		}
	}
	if st.A&aCaseIn != 0 && st.A&aCapPath != 0 && zero {
		st.A |= aCapOK
	}
	if st.A&aCapPath != 0 {
		// a token that fires on the cap is signalled at once and leaves nothing pending: it must not move the end of
		// the open window (re-arm the timer / grow the window), or the limiter stays non-idle past the window's end
		// and the next first Add is delayed instead of being signalled immediately
		a.note("C09.L7-handlers", k.fname(a.root)+" cap leaves window", a.pos(at), "the cap path fires without re-arming or growing the open window",
			"on the path where the pending-events cap is reached the handler fires AND re-arms/grows the open window (e.g. a missing return after the fire): the window is prolonged although nothing is pending, so the limiter is not idle when its window should have ended and the next first Add is not signalled immediately", st.A&aWinMoved != 0)
	}
	inc, tok := st.A&aInc != 0, st.A&aTok != 0
	if inc != tok {
		a.note("C09.L6-add", k.fname(a.root), a.pos(at), "", "Add no longer counts the event and hands a token to the run loop within one write-lock critical section (an Add can be lost or counted without waking the loop)", true)
	} else if inc {
		st.A |= aAddOK
	}
	st.A &^= aInc | aTok | aDebt
	if st.A&(aCaseIn|aCaseExp) != 0 {
		st.A |= aSectionDone
	}
	return st
}

// caseEnd: the handling of one select case is over (the loop selects again or Run returns).
func (a *c09Acct) caseEnd(st PState, at ssa.Instruction) {
	k := a.k
	where := k.fname(a.root)
	if st.A&aCaseExp != 0 {
		a.seenCase["exp"] = true
		a.note("C09.L7-handlers", where+" expiry order", a.pos(at), "at a window expiry the pending events are fired before the state is reset, inside one write-lock section", "the expiry handler does not leave pendingEvents fired-and-zero in one write-lock section (it resets before firing, or no longer fires): Adds of the closing window are lost or never signalled", st.A&aExpOK == 0)
		a.note("C09.L10-reset-idle", where+" expiry restores idle state", a.pos(at), "window state fully restored when the limiter goes idle", "the expiry path does not restore the whole idle state (missing: "+a.diag["idle"]+"): the next burst starts with stale window state (e.g. a stale back-off factor makes the second Add's window several times too long, so its signal arrives after the end of its quiet window)", st.A&aIdleOK == 0)
	}
	if st.A&aCaseIn != 0 && st.A&aFirst != 0 {
		a.seenCase["first"] = true
		bad := st.A&aFirstOK == 0
		if bad && st.A&aArmedBad == 0 && strings.Contains(a.diag["first"], "NewTimer") && !strings.Contains(a.diag["first"], "fired") && !strings.Contains(a.diag["first"], "flag") && a.diag["armUnknown"] != "" {
			a.problem("the duration the first window is armed with could not be traced (%s)", a.diag["armUnknown"])
			bad = false
		}
		a.note("C09.L7-handlers", where+" first", a.pos(at), "with no window open the token fires immediately and opens a window of initialDelay", "the first Add after an idle period is no longer signalled immediately with a window of initialDelay opened (missing: "+a.diag["first"]+")", bad)
	}
	if st.A&aCaseIn != 0 && st.A&aCapPath != 0 {
		a.seenCase["cap"] = true
		a.note("C09.L7-handlers", where+" cap", a.pos(at), "reaching MaxPendingEvents fires immediately", "reaching the pending-events cap no longer fires immediately", st.A&aCapOK == 0)
	}
}

func (a *c09Acct) instr(pf *PathFlow, in ssa.Instruction, replay bool, st PState) []PState {
	k := a.k
	one := func(s PState) []PState { return []PState{s} }
	mode := ModeNone
	if st.A&aW != 0 {
		mode = ModeW
	} else if st.A&aR != 0 {
		mode = ModeR
	}
	if old, ok := a.lockAt[in]; !ok || mode < old {
		a.lockAt[in] = mode
	}
	switch x := in.(type) {
	case *ssa.Select:
		if k.isLoopSelect(pf, x) {
			a.caseEnd(st, in)
			st.A &^= aIterBits
		}
		if a.rootKind != "go" {
			for _, ch := range c09SendChans(in) {
				if k.isEventChan(pf, ch) {
					st = a.signal(st, in)
				}
			}
		}
		return one(st)
	case *ssa.Send:
		if a.rootKind != "go" && k.isEventChan(pf, x.Chan) {
			st = a.signal(st, in)
		}
		return one(st)
	case *ssa.UnOp:
		if x.Op == token.MUL {
			if f, ok := k.addrFieldR(x.X); ok && f == k.fPend {
				if i, ok := a.loadIdx(x); ok {
					st.B &^= c09Bit(i, bWasPos) | c09Bit(i, bWasZero) | c09Bit(i, bZF)
					st.B |= c09Bit(i, bCur)
					if st.A&aSignPos != 0 {
						st.B |= c09Bit(i, bWasPos)
					}
					if st.A&aSignZero != 0 {
						st.B |= c09Bit(i, bWasZero)
					}
				}
			}
		}
		return one(st)
	case *ssa.Store:
		if fl, val, ok := k.flagStore(in); ok {
			if fl == k.fFlag {
				st.A &^= aFlagT | aFlagF
				if val {
					st.A |= aFlagT
				} else {
					st.A |= aFlagF
				}
			}
			return one(st)
		}
		for _, s := range k.stateStores(in) {
			if s.multi {
				// a value that is not known precisely
				for _, rf := range []string{k.fPend, k.fFlag, k.fTimer, k.fCur, k.fBackoff} {
					if rf == s.field && rf != "" {
						a.problem("%s is assigned through a struct value that is not a simple literal in %s", rf, k.fname(in.Parent()))
					}
				}
				switch s.field {
				case k.fPend:
					st = c09ClearKnowledge(st)
				case k.fFlag:
					st.A &^= aFlagT | aFlagF
				case k.fTimer:
					st.A &^= aTimerNil | aArmedInit
				case k.fCur:
					st.A &^= aCurInit
				case k.fBackoff:
					st.A &^= aBfOne
				}
				continue
			}
			switch s.field {
			case k.fFlag:
				// a plain bool flag set by a sub-struct assignment
				st.A &^= aFlagT | aFlagF
				if s.zero {
					st.A |= aFlagF
				}
			case k.fPend:
				st = a.storePend(pf, st, x, s)
			case k.fTimer:
				st.A &^= aTimerNil | aArmedInit
				if s.zero || isNilConst(s.val) {
					st.A |= aTimerNil
				} else {
					switch a.armedWith(pf, s.val) {
					case 1:
						st.A |= aArmedInit
					case -1:
						st.A |= aArmedBad
					}
				}
			case k.fCur:
				st.A &^= aCurInit
				st.A |= aWinMoved
				if !s.zero {
					if t := k.term(pf, s.val); t.kind == 2 && t.field == k.fInit {
						st.A |= aCurInit
					}
				}
			case k.fBackoff:
				st.A &^= aBfOne
				if !s.zero {
					if t := k.term(pf, s.val); t.kind == 1 && t.k == 1 {
						st.A |= aBfOne
					}
				}
			}
		}
		return one(st)
	case ssa.CallInstruction:
		_, isDefer := in.(*ssa.Defer)
		if isDefer && !replay {
			// registration of a deferred call: pairs a preceding wg.Add with this function's own Done
			if a.callsDone(pf, x) {
				if st.A&aAdded != 0 || (a.rootKind == "go" && pf.Depth() == 0) {
					st.A |= aHeld // registered: the count is held until this function returns
				}
				st.A &^= aAdded
			}
			return one(st)
		}
		if id, kind, ok := k.e.lockOp(x); ok && id == k.lockID {
			switch kind {
			case opLock:
				st = c09ClearKnowledge(st)
				st.A |= aW
				st.A &^= aInc | aTok | aClosedF | aWinMoved
			case opUnlock:
				if st.A&aW != 0 {
					st = a.sectionEnd(st, in)
				}
				st = c09ClearKnowledge(st)
				st.A &^= aW | aClosedF
			case opRLock:
				st = c09ClearKnowledge(st)
				st.A |= aR
				st.A &^= aClosedF
			default:
				st = c09ClearKnowledge(st)
				st.A &^= aR | aClosedF
			}
			return one(st)
		}
		if fl, val, ok := k.flagStore(in); ok && fl == k.fFlag {
			st.A &^= aFlagT | aFlagF
			if val {
				st.A |= aFlagT
			} else {
				st.A |= aFlagF
			}
			return one(st)
		}
		if k.isTimerInvoke(pf, x, "Reset") {
			st.A |= aWinMoved
		}
		if k.isTimerInvoke(pf, x, "Reset") && len(x.Common().Args) == 1 && st.A&aFirst != 0 {
			// a reused timer re-armed for the first window
			if t := k.term(pf, x.Common().Args[0]); t.kind == 2 && t.field == k.fInit {
				st.A |= aArmedInit
			}
		}
		switch {
		case k.wgCall(x, "Add"):
			st.A |= aAdded
			// L12: Close marks the limiter closed, passes the lock as a barrier and then waits: an Add is seen by
			// that Wait only if it is made under the write lock after finding the limiter not closed, or while the
			// counter is certainly positive because the running entry point holds its own count
			if k.fClosed == "" {
				a.problem("the closed flag could not be identified (needed to decide whether wg.Add is atomic with the closed check)")
			} else {
				a.note("C09.L12-add-registered", k.fname(in.Parent())+" wg.Add", a.pos(in), "wg.Add is made under the lock after the limiter was found not closed in the same section, or while the running entry point holds its own count",
					"wg.Add is made neither inside the lock section that found the limiter not closed nor while the running entry point holds its own count: a Close that runs in between passes its lock barrier, finds the wait group empty and returns while this goroutine is still running (and the Add races Wait)",
					!((st.A&(aW|aR) != 0 && st.A&aClosedF != 0) || st.A&aHeld != 0))
			}
		case k.wgCall(x, "Done"):
			st.A |= aDone
		case k.wgCall(x, "Wait"):
			st.A |= aWaited
		}
		if g, ok := in.(*ssa.Go); ok {
			st = a.spawn(pf, st, g)
		}
		return one(st)
	}
	return one(st)
}

// callsDone: the (deferred) call is wg.Done or a followed function that calls it.
func (a *c09Acct) callsDone(pf *PathFlow, ci ssa.CallInstruction) bool {
	if a.k.wgCall(ci, "Done") {
		return true
	}
	hit := false
	pf.WalkFrom(ci, false, func(sub *PathFlow, in ssa.Instruction) {
		if c, ok := in.(ssa.CallInstruction); ok && a.k.wgCall(c, "Done") {
			hit = true
		}
	})
	return hit
}

// armedWith: 1 = the value is clock.NewTimer(initialDelay), -1 = a NewTimer of
// something that is positively another duration, 0 = unknown.
func (a *c09Acct) armedWith(pf *PathFlow, v ssa.Value) int {
	k := a.k
	roots := pf.Roots(k.rc, v)
	if len(roots) == 0 {
		return 0
	}
	res := 1
	for _, r := range roots {
		call, ok := r.(*ssa.Call)
		if !ok || !call.Call.IsInvoke() || call.Call.Method == nil || call.Call.Method.Name() != "NewTimer" || len(call.Call.Args) != 1 {
			a.diag["armUnknown"] = "timer assigned from " + r.String()
			return 0
		}
		// the argument, in the context of the function that makes the call
		var args []ssa.Value
		if call.Parent() == pf.frames[len(pf.frames)-1].fn {
			args = pf.Roots(k.rc, call.Call.Args[0])
		} else {
			args = k.rc.Roots(call.Call.Args[0])
		}
		for _, ar := range args {
			t := k.term(nil, ar)
			switch {
			case t.kind == 2 && t.field == k.fInit:
			case (t.kind == 2 && t.field == k.fMax) || t.kind == 1:
				res = -1
			default:
				a.diag["armUnknown"] = "NewTimer argument " + ar.String()
				if res == 1 {
					res = 0
				}
			}
		}
	}
	return res
}

func (a *c09Acct) storePend(pf *PathFlow, st PState, x *ssa.Store, s c09Store) PState {
	k := a.k
	where := k.fname(x.Parent())
	t := c09Term{kind: 1}
	if !s.zero {
		t = k.term(pf, s.val)
	}
	switch {
	case t.kind == 1 && t.k == 0:
		switch {
		case st.A&aSignZero != 0:
		case st.A&aSignPos != 0:
			if st.A&aDebt != 0 {
				st.A &^= aDebt
			} else {
				st.A |= aCredit
			}
		default:
			var cur uint64
			for i := 0; i < len(a.loads); i++ {
				if st.B&c09Bit(i, bCur) != 0 {
					cur |= c09Bit(i, bZF)
				}
			}
			if st.A&aDebt != 0 {
				// zeroing after a spawn on a positive count whose knowledge was lost: cannot happen (knowledge is only lost at lock operations)
				st.A &^= aDebt
			} else if cur == 0 {
				a.note("C09.L7-handlers", where+" zeroes pendingEvents", a.pos(x), "", "pendingEvents is zeroed without a signal being started for it and without it being known to be zero (e.g. the state is reset before the pending events are fired): the Adds counted so far are lost", true)
			} else {
				st.B |= cur
			}
		}
		a.note("C09.L7-handlers", where+" zeroes pendingEvents", a.pos(x), "pendingEvents is zeroed only when a signal is started for it or when it is known to be zero", "", false)
		st.A &^= aSignPos
		st.A |= aSignZero
		st.B &^= c09AllBits(bCur)
	case !s.zero && k.isIncOf(s.val, k.fPend):
		if st.A&aW == 0 {
			a.note("C09.L6-add", k.fname(a.root), a.pos(x), "", "pendingEvents is incremented outside the write lock section", true)
		}
		st.A &^= aSignZero
		st.A |= aSignPos | aInc
		st.B &^= c09AllBits(bCur)
	default:
		a.problem("store to %s of an unrecognised shape in %s", k.fPend, where)
		st = c09ClearKnowledge(st)
	}
	return st
}

// signal: a signal on the event channel becomes inevitable here.
func (a *c09Acct) signal(st PState, at ssa.Instruction) PState {
	construct := a.k.fname(at.Parent()) + " starts a signal"
	ok := true
	switch {
	case st.A&aCredit != 0:
		st.A &^= aCredit
	case st.A&aSignPos != 0 && st.A&aW != 0:
		st.A |= aDebt
	default:
		ok = false
	}
	a.note("C09.L3-signals-le-adds", construct, a.pos(at), "a signal is started only for a positive pendingEvents that is consumed (zeroed) in the same write-lock section", "a signal is sent without a positive pendingEvents having been established and consumed for it: a window expiry with nothing pending (or a repeated fire) produces more signals than Adds", !ok)
	return st
}

func (a *c09Acct) spawn(pf *PathFlow, st PState, g *ssa.Go) PState {
	k := a.k
	event, token, body := k.goKind(pf, g)
	name := "dynamic"
	if body != nil {
		name = k.fname(body)
	}
	construct := k.fname(g.Parent()) + " go " + name
	if body == nil || !k.follow(body) {
		a.problem("the goroutine started at %s cannot be resolved", a.pos(g))
	} else if key := pf.ContextKey() + a.pos(g); !a.goDone[key] {
		// the goroutine body, explored in the context of this go statement
		a.goDone[key] = true
		sub := *a
		sub.root, sub.rootKind = body, "go"
		spf := &PathFlow{Follow: k.follow, Facts: k.fc, Funcs: k.fns, RootsOf: k.rootsOf, Instr: sub.instr, Edge: sub.edge, Return: sub.ret, Visited: a.visited}
		pf.RunGo(g, spf, []PState{{}})
		a.problems = sub.problems
		for _, p := range spf.Problems {
			a.problem("%s", p)
		}
	}
	a.note("C09.L4-tracked", construct, a.pos(g), "wg.Add before go, wg.Done on every exit of the goroutine", "goroutine is not tracked in "+shortID(k.wgID)+" (no wg.Add before the go statement on some path): Close can return while it is still running", st.A&aAdded == 0)
	st.A &^= aAdded
	if event {
		st = a.signal(st, g)
	}
	if token {
		if st.A&aW == 0 {
			a.note("C09.L6-add", k.fname(a.root), a.pos(g), "", "the token goroutine is started outside the write lock section in which the event is counted", true)
		}
		st.A |= aTok
	}
	return st
}

func (a *c09Acct) ret(pf *PathFlow, ret *ssa.Return, st PState) {
	k := a.k
	if st.A&aW != 0 {
		a.problem("%s returns with the write lock held", k.fname(a.root))
	}
	if st.A&aCredit != 0 {
		// a positive count was consumed and no signal was started for it
		a.note("C09.L7-handlers", k.fname(a.root)+" zeroes pendingEvents", a.pos(ret), "", "a positive pendingEvents is zeroed and no signal is started for it: Adds are lost", true)
	}
	a.note("C09.L4-tracked", k.fname(a.root)+" wg.Add paired", k.p.Pos(a.root.Pos()), "every wg.Add is followed by the go statement it counts, or by the function's own (deferred) wg.Done", "a wg.Add is not followed by a go statement or by the function's own wg.Done on some path: the wait group never drains and Close never returns", st.A&aAdded != 0)
	switch a.rootKind {
	case "run":
		a.caseEnd(st, ret)
	case "add":
		a.addExits++
		if st.A&aAddOK != 0 {
			a.addOKs++
		} else if k.fClosed == "" {
			a.problem("Add has an exit that does not count the event and the closed flag could not be identified")
		} else if st.A&aClosedK == 0 {
			a.note("C09.L6-add", k.fname(a.root), a.pos(ret), "", "Add can return without having counted the event and handed a token to the run loop (and not because the limiter is closed): that Add is lost", true)
		}
	case "close":
		a.note("C09.L4-tracked", k.fname(a.root)+" waits", k.p.Pos(a.root.Pos()), "Close reaches wg.Wait on every path", "Close can return without waiting for the helper goroutines", st.A&aWaited == 0)
	case "go":
		a.note("C09.L4-tracked", "goroutine "+k.fname(a.root)+" done", k.p.Pos(a.root.Pos()), "wg.Done on every exit of the goroutine", "a goroutine counted in "+shortID(k.wgID)+" can exit without wg.Done: Close never returns / returns early", st.A&aDone == 0)
	}
}

// run explores one entry point.
func (a *c09Acct) run(root *ssa.Function, kind string) {
	a.root, a.rootKind = root, kind
	pf := &PathFlow{Follow: a.k.follow, Facts: a.k.fc, Funcs: a.k.fns, RootsOf: a.k.rootsOf, Instr: a.instr, Edge: a.edge, Return: a.ret, Visited: a.visited}
	pf.Run(root, []PState{{}})
	for _, p := range pf.Problems {
		a.problem("%s", p)
	}
}

func (a *c09Acct) sortedFindings() []*c09Finding {
	var keys []string
	for k := range a.find {
		keys = append(keys, k)
	}
	sort.Strings(keys)
	var out []*c09Finding
	for _, k := range keys {
		out = append(out, a.find[k])
	}
	return out
}
