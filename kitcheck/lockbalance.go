package main

import (
	"go/token"
	"sort"
	"strings"

	"golang.org/x/tools/go/ssa"
)

// Lock balance ("every acquire is released on all exits").
//
// For a function that itself acquires lock L (a Lock/RLock operation in its
// body, or a call to a module function whose summary says it returns holding
// L) the exits must agree about L: either L is held at every Return (the
// function is a hand-off: cmap.Mutex.Lock, NewPool's read lock handed to the
// watcher) or at none. The rule compares, at every Return instruction (after
// the deferred calls have run), the MUST lockset of the shared engine with a
// MAY lockset computed here by the same transfer function and a union merge:
//
//	L may be held at one Return and is not must-held at that same Return
//	   (some path into this exit leaks it, another does not), or
//	L may be held at one Return and cannot be held at another
//
// ⇒ the function leaves L locked on some exits only. Functions that acquire
// conditionally by contract (they return a lock on success and nothing on
// failure) are listed by the caller in `conditional`, one reason each.
//
// Not covered: exits by panic, locks identified only by field (two instances
// of one struct are the same lock to the engine), lock operations the engine
// cannot resolve (counted in e.Unresolved by the engine's users).

type lbFinding struct {
	Fn      *ssa.Function
	Lock    string
	HeldAt  token.Pos // a Return at which the lock may still be held
	OtherAt token.Pos // a Return (possibly the same) at which it is not (must-)held
	Same    bool      // both facts at the same Return
	HeldRet *ssa.Return
	FreeRet *ssa.Return
	// all returns at which the lock may still be held / cannot be held
	HeldRets []*ssa.Return
	FreeRets []*ssa.Return
}

// lbRetPos: a usable position for a Return (the implicit return at the end of
// a function has none: fall back to the last positioned instruction of its
// block, then to the end of the function's syntax).
func lbRetPos(r *ssa.Return) token.Pos {
	if r.Pos().IsValid() {
		return r.Pos()
	}
	b := r.Block()
	for i := len(b.Instrs) - 1; i >= 0; i-- {
		if p := b.Instrs[i].Pos(); p.IsValid() {
			return p
		}
	}
	if fn := r.Parent(); fn != nil && fn.Syntax() != nil {
		return fn.Syntax().End()
	}
	return token.NoPos
}

type lbResult struct {
	Checked  int // functions with at least one own acquire and one Return
	Returns  int
	Findings []lbFinding
}

// lockBalance analyses every function of fns.
func lockBalance(e *LockEngine, fns []*ssa.Function) lbResult {
	var res lbResult
	for _, fn := range fns {
		if len(fn.Blocks) == 0 {
			continue
		}
		own := lbOwnAcquires(e, fn)
		if len(own) == 0 {
			continue
		}
		may := lbMayFlow(e, fn)
		var rets []*ssa.Return
		for _, b := range fn.Blocks {
			if len(b.Instrs) == 0 {
				continue
			}
			if r, ok := b.Instrs[len(b.Instrs)-1].(*ssa.Return); ok && e.Reachable(r) {
				rets = append(rets, r)
			}
		}
		if len(rets) == 0 {
			continue
		}
		res.Checked++
		res.Returns += len(rets)
		ids := make([]string, 0, len(own))
		for id := range own {
			ids = append(ids, id)
		}
		sort.Strings(ids)
		for _, id := range ids {
			var held, free *ssa.Return
			var heldAll, freeAll []*ssa.Return
			same := false
			for _, r := range rets {
				_, mayHeld := may[r][id]
				_, mustHeld := e.At(r)[id]
				if mayHeld {
					heldAll = append(heldAll, r)
				} else {
					freeAll = append(freeAll, r)
				}
				if mayHeld && !mustHeld && !same {
					held, free, same = r, r, true
				}
				if mayHeld && held == nil {
					held = r
				}
				if !mayHeld && free == nil {
					free = r
				}
			}
			if held != nil && free != nil {
				res.Findings = append(res.Findings, lbFinding{Fn: fn, Lock: id, HeldAt: lbRetPos(held), OtherAt: lbRetPos(free), Same: same, HeldRet: held, FreeRet: free, HeldRets: heldAll, FreeRets: freeAll})
			}
		}
	}
	return res
}

// lbOpaque reports why the exits of fn cannot be judged, or "": lock
// operations the engine cannot attribute to a lock, releases that may happen
// through function values (a bound Unlock method value created in fn, or a
// call through a function value that comes from a field, a global or a table
// rather than from a parameter or a literal closure), and closures that are
// part of their parent's flow (deferred or called in place: the parent decides
// what its exits hold) — only top-level functions and goroutine bodies are
// judged on their own.
func lbOpaque(e *LockEngine, fn *ssa.Function) string {
	if fn.Parent() != nil {
		isGo := false
		for _, b := range fn.Parent().Blocks {
			for _, in := range b.Instrs {
				if g, ok := in.(*ssa.Go); ok {
					if mc, ok := g.Call.Value.(*ssa.MakeClosure); ok && mc.Fn == fn {
						isGo = true
					}
					if g.Call.Value == ssa.Value(fn) {
						isGo = true
					}
				}
			}
		}
		if !isGo {
			return "a closure that runs as part of its parent (deferred or called in place)"
		}
	}
	for _, b := range fn.Blocks {
		for _, in := range b.Instrs {
			switch x := in.(type) {
			case *ssa.MakeClosure:
				if f, ok := x.Fn.(*ssa.Function); ok && f.Synthetic != "" {
					n := f.Name()
					if strings.HasSuffix(n, "Unlock$bound") || strings.HasSuffix(n, "RUnlock$bound") {
						return "an Unlock method value is created here: the release may happen through it"
					}
				}
			case ssa.CallInstruction:
				c := x.Common()
				if _, _, ok := e.lockOp(x); ok {
					continue
				}
				if isLockName(x) {
					return "a lock operation whose lock the engine cannot identify"
				}
				if c.IsInvoke() || staticCallee(x) != nil {
					if f := staticCallee(x); f != nil && f.Synthetic != "" && (strings.HasSuffix(f.Name(), "Unlock$bound") || strings.HasSuffix(f.Name(), "RUnlock$bound")) {
						return "a bound Unlock method value is called here"
					}
					continue
				}
				if _, isBuiltin := c.Value.(*ssa.Builtin); isBuiltin {
					continue
				}
				switch v := c.Value.(type) {
				case *ssa.Parameter, *ssa.MakeClosure, *ssa.FreeVar:
					_ = v // a caller-supplied callback or a literal closure: not a hidden release
				default:
					return "a call through a function value that comes from memory (field, table, result): it may release the lock"
				}
			}
		}
	}
	return ""
}

// lbOwnAcquires: locks acquired by fn itself (directly or through a static
// module callee that returns holding them).
func lbOwnAcquires(e *LockEngine, fn *ssa.Function) map[string]bool {
	own := map[string]bool{}
	defer func() {
		// a lock that some path releases before acquiring it is held at entry
		// by contract (an unlock/relock window inside a caller's section): its
		// state at entry is the caller's business, not an own acquire
		if s := e.summaries[origin(fn)]; s != nil {
			for id := range s.released {
				delete(own, id)
			}
		}
	}()
	for _, b := range fn.Blocks {
		for _, in := range b.Instrs {
			c, ok := in.(ssa.CallInstruction)
			if !ok {
				continue
			}
			if _, isGo := in.(*ssa.Go); isGo {
				continue
			}
			if id, kind, ok := e.lockOp(c); ok {
				if kind == opLock || kind == opRLock {
					own[id] = true
				}
				continue
			}
			if cal := staticCallee(c); cal != nil {
				if s := e.summaries[cal]; s != nil {
					for id := range s.acquired {
						own[id] = true
					}
				}
			}
		}
	}
	return own
}

// lbMayFlow: the may-held lockset before every Return of fn (union merge; same
// transfer function as the engine, deferred calls replayed at RunDefers when
// the defer statement is on some path into it — approximated, like the must
// analysis, by "the defer statement dominates or may precede": a defer that
// has not been registered on a path is replayed anyway only if it releases,
// which can only hide a leak behind a defer registered later than the early
// exit; that exit then carries no RunDefers effect in SSA either because the
// Defer instruction is simply not on its path — go/ssa emits RunDefers on all
// exits, so the replay is restricted to defers whose block reaches the exit).
func lbMayFlow(e *LockEngine, fn *ssa.Function) map[*ssa.Return]LS {
	type dinfo struct {
		d *ssa.Defer
		b *ssa.BasicBlock
	}
	var defers []dinfo
	for _, b := range fn.Blocks {
		for _, in := range b.Instrs {
			if d, ok := in.(*ssa.Defer); ok {
				defers = append(defers, dinfo{d, b})
			}
		}
	}
	reach := lbReach(fn)
	n := len(fn.Blocks)
	in := make([]LS, n)
	out := make([]LS, n)
	entry := e.Entry(fn)
	if entry == nil {
		entry = LS{}
	}
	in[0] = entry.clone()
	transfer := func(b *ssa.BasicBlock, st LS, sink map[*ssa.Return]LS) LS {
		for _, instr := range b.Instrs {
			switch x := instr.(type) {
			case *ssa.Call:
				e.applyCall(st, x, nil, false)
			case *ssa.RunDefers:
				for i := len(defers) - 1; i >= 0; i-- {
					if defers[i].b == b || reach[defers[i].b.Index][b.Index] {
						e.applyCall(st, defers[i].d, nil, false)
					}
				}
			case *ssa.Return:
				if sink != nil {
					sink[x] = st.clone()
				}
			}
		}
		return st
	}
	union := func(a, b LS) LS {
		r := a.clone()
		for k, m := range b {
			if r[k] < m {
				r[k] = m
			}
		}
		return r
	}
	work := []int{0}
	inWork := map[int]bool{0: true}
	for len(work) > 0 {
		bi := work[0]
		work = work[1:]
		inWork[bi] = false
		st := transfer(fn.Blocks[bi], in[bi].clone(), nil)
		if out[bi] != nil && equalLS(out[bi], st) {
			continue
		}
		out[bi] = st
		for _, s := range fn.Blocks[bi].Succs {
			var ns LS
			if in[s.Index] == nil {
				ns = st.clone()
			} else {
				ns = union(in[s.Index], st)
			}
			if in[s.Index] == nil || !equalLS(ns, in[s.Index]) {
				in[s.Index] = ns
				if !inWork[s.Index] {
					work = append(work, s.Index)
					inWork[s.Index] = true
				}
			}
		}
	}
	sink := map[*ssa.Return]LS{}
	for bi, b := range fn.Blocks {
		if in[bi] != nil {
			transfer(b, in[bi].clone(), sink)
		}
	}
	return sink
}

// lbReach[a][b]: block b is reachable from block a by at least one edge.
func lbReach(fn *ssa.Function) []map[int]bool {
	n := len(fn.Blocks)
	r := make([]map[int]bool, n)
	for i := range fn.Blocks {
		seen := map[int]bool{}
		stack := []int{}
		for _, s := range fn.Blocks[i].Succs {
			stack = append(stack, s.Index)
		}
		for len(stack) > 0 {
			x := stack[len(stack)-1]
			stack = stack[:len(stack)-1]
			if seen[x] {
				continue
			}
			seen[x] = true
			for _, s := range fn.Blocks[x].Succs {
				stack = append(stack, s.Index)
			}
		}
		r[i] = seen
	}
	return r
}
