package main

// c07tables: literal tables as value sets. A lookup `v, ok := table[key]` that
// succeeded, `table[key]` being true in a map[string]bool, or
// `slices.Contains(list, key)` being true, says the same as a switch over the
// table's constant keys: key is one of them. The table must be a literal
// (package-level variable initialised once and never modified, or a local
// literal) whose keys/elements are constant strings.

import (
	"go/token"
	"go/types"

	"golang.org/x/tools/go/ssa"
)

type c07Table struct {
	OK     bool
	MinLen int64
	N      int
	Name   string
}

// readOnlyCollUse: ref uses collection value v without modifying or leaking it.
func c07ReadOnlyCollUse(ref ssa.Instruction, v ssa.Value) bool {
	switch x := ref.(type) {
	case *ssa.Lookup, *ssa.Index, *ssa.Range, *ssa.DebugRef, *ssa.BinOp:
		return true
	case *ssa.IndexAddr:
		for _, r := range refs(x) {
			if u, ok := r.(*ssa.UnOp); !ok || u.Op != token.MUL {
				return false
			}
		}
		return true
	case *ssa.Slice:
		for _, r := range refs(x) {
			if !c07ReadOnlyCollUse(r, x) {
				return false
			}
		}
		return true
	case *ssa.Call:
		switch builtinName(x) {
		case "len", "cap":
			return true
		}
		if obj := calleeObj(x); obj != nil && obj.Pkg() != nil {
			switch obj.Pkg().Path() + "." + obj.Name() {
			case "slices.Contains", "slices.Index", "slices.IndexFunc", "slices.ContainsFunc", "strings.Join", "slices.BinarySearch":
				return true
			}
		}
	}
	return false
}

// tableOf resolves a map or slice value to its literal constant keys/elements.
func (e *c07Engine) tableOf(v ssa.Value) c07Table {
	if t, ok := e.tblMemo[v]; ok {
		return t
	}
	t := e.tableOf0(v)
	e.tblMemo[v] = t
	return t
}

func (e *c07Engine) tableOf0(v ssa.Value) c07Table {
	bad := c07Table{}
	var lit ssa.Value
	name := "literal table"
	switch x := v.(type) {
	case *ssa.UnOp:
		if x.Op != token.MUL {
			return bad
		}
		g, ok := x.X.(*ssa.Global)
		if !ok {
			return bad
		}
		name = "package-level table " + g.Name()
		// every use of the global: one store (initialiser), loads used read-only
		var store *ssa.Store
		okAll := true
		scan := func(fn *ssa.Function) {
			allInstrs(fn, func(in ssa.Instruction) {
				for _, op := range in.Operands(nil) {
					if op == nil || *op != ssa.Value(g) {
						continue
					}
					switch y := in.(type) {
					case *ssa.Store:
						if y.Addr == ssa.Value(g) && store == nil && fn.Name() == "init" && fn.Parent() == nil {
							store = y
						} else {
							okAll = false
						}
					case *ssa.UnOp:
						if y.Op != token.MUL {
							okAll = false
							break
						}
						for _, r := range refs(y) {
							if !c07ReadOnlyCollUse(r, y) {
								okAll = false
							}
						}
					default:
						okAll = false
					}
				}
			})
		}
		for _, fn := range e.p.Funcs {
			scan(fn)
		}
		if g.Pkg != nil {
			if initFn := g.Pkg.Func("init"); initFn != nil && !e.p.funcSet[initFn] {
				scan(initFn)
			}
		}
		if !okAll || store == nil {
			return bad
		}
		lit = store.Val
	case *ssa.MakeMap, *ssa.Slice:
		lit = v
	default:
		return bad
	}
	var keys []ssa.Value
	switch m := lit.(type) {
	case *ssa.MakeMap:
		for _, r := range refs(m) {
			switch y := r.(type) {
			case *ssa.MapUpdate:
				if y.Map != ssa.Value(m) {
					return bad
				}
				keys = append(keys, y.Key)
			case *ssa.Store:
				if y.Val != ssa.Value(m) {
					return bad
				}
				if _, isG := y.Addr.(*ssa.Global); !isG {
					return bad
				}
			default:
				if !c07ReadOnlyCollUse(r, m) {
					return bad
				}
			}
		}
	case *ssa.Slice:
		al, ok := m.X.(*ssa.Alloc)
		if !ok || m.Low != nil || m.High != nil {
			return bad
		}
		at, ok := al.Type().Underlying().(*types.Pointer).Elem().Underlying().(*types.Array)
		if !ok {
			return bad
		}
		for _, r := range refs(al) {
			switch y := r.(type) {
			case *ssa.IndexAddr:
				for _, r2 := range refs(y) {
					st, ok := r2.(*ssa.Store)
					if !ok || st.Addr != ssa.Value(y) {
						return bad
					}
					keys = append(keys, st.Val)
				}
			case *ssa.Slice:
				if y != m {
					return bad
				}
			default:
				return bad
			}
		}
		if int64(len(keys)) != at.Len() {
			return bad
		}
		for _, r := range refs(m) {
			if st, ok := r.(*ssa.Store); ok {
				if _, isG := st.Addr.(*ssa.Global); isG && st.Val == ssa.Value(m) {
					continue
				}
			}
			if !c07ReadOnlyCollUse(r, m) {
				return bad
			}
		}
	default:
		return bad
	}
	if len(keys) == 0 {
		return bad
	}
	min := int64(c07PosInf)
	for _, k := range keys {
		if ct, ok := k.(*ssa.ChangeType); ok {
			k = ct.X
		}
		s, ok := c07ConstString(k)
		if !ok {
			return bad
		}
		if int64(len(s)) < min {
			min = int64(len(s))
		}
	}
	return c07Table{OK: true, MinLen: min, N: len(keys), Name: name}
}

// memberFact: cond (taken with branch) implies that a value length-equal to
// subj is a key/element of a literal table; returns the table.
func (e *c07Engine) memberFact(cond ssa.Value, branch bool, subj ssa.Value) (c07Table, bool) {
	for {
		if u, ok := cond.(*ssa.UnOp); ok && u.Op == token.NOT {
			cond, branch = u.X, !branch
			continue
		}
		break
	}
	if !branch {
		return c07Table{}, false
	}
	same := func(v ssa.Value) bool { return c07SameLen(v) == c07SameLen(subj) }
	switch x := cond.(type) {
	case *ssa.Extract:
		if lk, ok := x.Tuple.(*ssa.Lookup); ok && lk.CommaOk && x.Index == 1 && same(lk.Index) {
			if t := e.tableOf(lk.X); t.OK {
				return t, true
			}
		}
	case *ssa.Lookup:
		if !x.CommaOk && same(x.Index) {
			if _, isMap := x.X.Type().Underlying().(*types.Map); isMap {
				if t := e.tableOf(x.X); t.OK {
					return t, true
				}
			}
		}
	case *ssa.Call:
		if callIs(x, "slices", "", "Contains") && len(x.Call.Args) == 2 && same(x.Call.Args[1]) {
			if t := e.tableOf(x.Call.Args[0]); t.OK {
				return t, true
			}
		}
	}
	return c07Table{}, false
}
