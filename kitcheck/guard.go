package main

// E2: branch facts that hold on every path to an instruction (through
// dominating edges), and small decoders for conditions.

import (
	"go/token"

	"golang.org/x/tools/go/ssa"
)

// DomCond is a branch condition known at a block: If instruction and the
// branch (true/false) whose edge dominates the block.
type DomCond struct {
	If     *ssa.If
	Branch bool
}

// domConds returns the conditions established by dominating edges of b.
func domConds(b *ssa.BasicBlock) []DomCond {
	var out []DomCond
	for d := b; d != nil; d = d.Idom() {
		id := d.Idom()
		if id == nil {
			break
		}
		// find edges from any dominator block "id" ... we need edges (p -> s) where s dominates b.
		_ = id
	}
	// Walk all dominators s of b (including b): if s has a single predecessor p ending in If, the edge p->s dominates b.
	for s := b; s != nil; s = s.Idom() {
		if len(s.Preds) != 1 {
			continue
		}
		p := s.Preds[0]
		if len(p.Instrs) == 0 {
			continue
		}
		ifi, ok := p.Instrs[len(p.Instrs)-1].(*ssa.If)
		if !ok {
			continue
		}
		if p.Succs[0] == s && p.Succs[1] != s {
			out = append(out, DomCond{ifi, true})
		} else if p.Succs[1] == s && p.Succs[0] != s {
			out = append(out, DomCond{ifi, false})
		}
	}
	return out
}

// Cmp is a decoded comparison `X op Y`, already adjusted for the branch taken.
type Cmp struct {
	Op   token.Token // EQL NEQ LSS LEQ GTR GEQ
	X, Y ssa.Value
}

func negateOp(op token.Token) token.Token {
	switch op {
	case token.EQL:
		return token.NEQ
	case token.NEQ:
		return token.EQL
	case token.LSS:
		return token.GEQ
	case token.LEQ:
		return token.GTR
	case token.GTR:
		return token.LEQ
	case token.GEQ:
		return token.LSS
	}
	return op
}

// decodeCond decodes cond (taken with the given branch) into a comparison if
// it is a BinOp comparison, unwrapping `!`.
func decodeCond(cond ssa.Value, branch bool) (Cmp, bool) {
	for {
		if u, ok := cond.(*ssa.UnOp); ok && u.Op == token.NOT {
			cond = u.X
			branch = !branch
			continue
		}
		break
	}
	bo, ok := cond.(*ssa.BinOp)
	if !ok {
		return Cmp{}, false
	}
	switch bo.Op {
	case token.EQL, token.NEQ, token.LSS, token.LEQ, token.GTR, token.GEQ:
	default:
		return Cmp{}, false
	}
	op := bo.Op
	if !branch {
		op = negateOp(op)
	}
	return Cmp{Op: op, X: bo.X, Y: bo.Y}, true
}

// boolCallCond: cond is (possibly negated) result of a call; returns the call
// and the truth value it has on this branch.
func boolCallCond(cond ssa.Value, branch bool) (*ssa.Call, bool, bool) {
	for {
		if u, ok := cond.(*ssa.UnOp); ok && u.Op == token.NOT {
			cond = u.X
			branch = !branch
			continue
		}
		break
	}
	if c, ok := cond.(*ssa.Call); ok {
		return c, branch, true
	}
	return nil, false, false
}

// errNilOnAllPaths reports whether on every path to b the error value err
// (an SSA value) was tested and found nil (err == nil edge or err != nil false edge).
func errKnownNil(b *ssa.BasicBlock, err ssa.Value) bool {
	for _, dc := range domConds(b) {
		if cmp, ok := decodeCond(dc.If.Cond, dc.Branch); ok {
			if cmp.Op == token.EQL && ((cmp.X == err && isNilConst(cmp.Y)) || (cmp.Y == err && isNilConst(cmp.X))) {
				return true
			}
		}
	}
	return false
}

// errKnownNonNil: the mirror image.
func errKnownNonNil(b *ssa.BasicBlock, err ssa.Value) bool {
	for _, dc := range domConds(b) {
		if cmp, ok := decodeCond(dc.If.Cond, dc.Branch); ok {
			if cmp.Op == token.NEQ && ((cmp.X == err && isNilConst(cmp.Y)) || (cmp.Y == err && isNilConst(cmp.X))) {
				return true
			}
		}
	}
	return false
}

// callResult returns the i-th result value of a call (through Extract for tuples).
func callResult(c *ssa.Call, i int) ssa.Value {
	sig := c.Call.Signature()
	if sig.Results().Len() == 1 {
		if i == 0 {
			return c
		}
		return nil
	}
	for _, r := range refs(c) {
		if ex, ok := r.(*ssa.Extract); ok && ex.Index == i {
			return ex
		}
	}
	return nil
}
