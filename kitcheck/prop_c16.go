package main

import (
	"go/token"
	"go/types"

	"golang.org/x/tools/go/ssa"
)

// C16 — streams: LimitReadCloser, MultiReaderCloser, TeeReadCloser.

func init() { register("C16", checkC16) }

func checkC16(c *Ctx) {
	r := c.R
	r.Explanation = "Decides structural necessary conditions of C16 on the three stream wrappers of package streams, on the SSA of every run. Each exported entry point (Read, Close, WriteTo) is analysed on an INLINED VIEW: the control-flow graph of the method with every statically resolved same-package callee (helper methods, functions, closures) spliced in at its call site — including function values whose target is known (a closure or method value passed as a callback such as withLock(func(){…}), a local assigned once, a func-typed field assigned once in the package, bound-method wrappers) — a call through a package interface with a single implementation and the function given to sync.Once.Do — and deferred calls replayed at the exits, counting loops over small local literals (tables of values or of steps) unrolled, branches on values that are constant in their context pruned, so a step counts wherever it is written; facts are branch conditions on paths (dominance, per-predecessor splitting of joins, short-circuit values, per-return splitting of helper results), and the types/fields are found by ROLE (the type LimitReadCloser returns; its interface field with Read+Close, its integer budget field, its bool flag; the []io.Reader field of MultiReaderCloser; the reader / writer interface fields of TeeReadCloser), not by unexported names, also when the fields are grouped into nested structs or a nil test is replaced by a flag; a closing loop over a local literal slice ([]any{r, w}) is understood; the list may hold small structs wrapping the readers; the closed flag may be a bool, an atomic.Bool (Load/Store/Swap(true)/CompareAndSwap(false,true)) or be replaced by a sync.Once around the close; clear(list) and slices.Delete(list,0,1) are read as the list updates they stand for; counting loops are recognised from their induction variable (while, range, rotated/range-over-int, backwards). " +
		"LimitReadCloser: (V0-ctor) the constructor returns on every path with a non-nil source the limiting wrapper holding that source and the budget n itself — never the bare source for some limits, never n shifted; its Read: (V1) on every path from the source read to a return the budget N was decreased by the source's count (or the count is known <= 0), and within the limit the source's count and error are passed through unchanged; " +
		"(V2-pre) before reading, ErrStreamTooLarge is returned only under N<0 or under a guard on another field than the budget (source==nil, a no-source flag) and io.EOF only under the closed flag; (V2-cap) the buffer handed to the source is capped at N+1; (V2-hide) on the over-limit side the look-ahead byte is hidden (count-1); (V2-err) on the over-limit side the returned error is ErrStreamTooLarge or a source error proven != io.EOF and != nil — never the source's io.EOF; " +
		"(V2-close) every over-limit return has closed the source; (V4) the source's Close() is only reached with the flag known false, the flag is set on that path, and Close() closes the source unless already closed. " +
		"MultiReaderCloser: (V3) a reader leaves the list (re-slice, nil-ing, truncation) only after it was closed if it is an io.Closer (exception: http.ErrBodyReadAfterClose) and, in Read, only after its Read returned a non-nil error; a reader closed while consuming is removed before it is used again or the method returns; WriteTo and Close walk the whole list (counting loop 0..len-1, or consuming it from the head, or detach-then-walk) and leave each element copied (WriteTo) and closed-if-Closer; " +
		"(V1-multi) Read returns the head's byte count unchanged and calls the next Read only when the previous count is known <= 0; (V6) Read returns io.EOF only when no reader remains. " +
		"TeeReadCloser: (V5) Write receives exactly p[:n] of this read on every path with n>0 before Read returns, and Read reports the source's count (or the writer's on a write error); Close closes the source if it is a Closer. " +
		"Verdicts: a VIOLATION is reported only when the whole entry point was understood (every same-package call followed, no unrecognised update/loop/expression, the object not handed to unmodelled code); otherwise the finding is UNDECIDED. " +
		"NOTE only (never affects the verdict): TeeReadCloser.Close not clearing the source field; a constructor keeping the caller's slice as the list of sources (may-alias summary of the exported functions). " +
		"NOT decided: what happens when the caller rewrites a slice of sources it passed while the stream is live (not a clause of the statement); byte preservation for every chunking as a runtime fact; behaviour of the underlying readers/writers; that the budget is never modified elsewhere; stickiness of ErrStreamTooLarge on later Reads; concurrency of Multi/Limit; double user Close() calls; recursion and calls through function values (UNDECIDED when a rule depends on them)."
	r.Assumptions = append(r.Assumptions,
		"underlying readers honour the io.Reader contract (0 <= n <= len(p)); io.Copy/io.CopyBuffer copy until EOF and return nil at EOF",
		"the over-limit state of the limiting reader is exactly `budget < 0 after the post-read update`; with the N+1 cap the budget never goes below -1",
		"helper functions are analysed as if inlined (context-sensitively, depth <= 5, no recursion); loops over local literals are unrolled up to 8 entries; a branch on a constant argument of a helper is resolved; other goroutines do not touch the wrappers during a call",
		"a field load denotes the receiver's field (the wrappers never hold a second instance of their own type)")

	r.Rule("C16.V0-ctor", "LimitReadCloser returns, on every path with a source, the limiting wrapper initialised with that source and with the budget n itself (never the bare source, never n shifted)", 1)
	r.Rule("C16.V1-count", "limitReadCloser.Read charges the source's byte count against N unconditionally; within the limit count and error pass through unchanged", 2)
	r.Rule("C16.V2-cap", "limitReadCloser.Read hands the source a buffer of at most N+1 bytes", 1)
	r.Rule("C16.V2-pre", "limiting reader's Read: before reading, ErrStreamTooLarge only under N<0 (or a guard on a field other than the budget: no source), io.EOF only under the closed flag", 1)
	r.Rule("C16.V2-hide", "over-limit returns report count-1 (the look-ahead byte is hidden)", 1)
	r.Rule("C16.V2-err", "over-limit returns fail with ErrStreamTooLarge (or a source error proven non-EOF), never io.EOF/nil", 1)
	r.Rule("C16.V2-close", "over-limit returns have closed the source", 1)
	r.Rule("C16.V4-once", "limitReadCloser: l.R.Close() only with closed known false and closed=true on the same path; Close() closes the source unless closed", 5)
	r.Rule("C16.V3-drop", "MultiReaderCloser: a reader leaves `readers` only after Close-if-Closer (exception ErrBodyReadAfterClose); in Read only after a non-nil error from it", 2)
	r.Rule("C16.V3-loop", "MultiReaderCloser: loops over readers visit 0..len-1 and finish each iteration with the element closed-if-Closer (and copied on the WriteTo path); Close closes all remaining readers", 2)
	r.Rule("C16.V3-once", "MultiReaderCloser.Read: a reader closed on EOF is removed from readers before Read returns (no second Close later)", 1)
	r.Rule("C16.V1-multi", "MultiReaderCloser.Read returns the byte count of the head's Read unchanged and reads on only after a zero-length read", 2)
	r.Rule("C16.V6-eof-last", "MultiReaderCloser.Read returns io.EOF only when no reader remains", 1)
	r.Rule("C16.V5-tee", "TeeReadCloser.Read: Write gets exactly p[:n] of this read on every path with n>0 before returning; returned count is the source's (or the writer's on write error)", 3)
	r.Rule("C16.V4-tee-close", "TeeReadCloser.Close closes the source if it is an io.Closer", 1)

	c16Limit(c)
	c16Multi(c)
	c16Tee(c)
}

// c16Viol records a violation, or UNDECIDED when the inlined view of the entry
// point is incomplete (a call could not be followed: the missing construct
// may live there).
func c16Viol(r *Report, g *c16G, rule, construct, pos, msg string) {
	switch {
	case len(g.Unfollowed) > 0:
		r.Undecide("%s %s: %s — but not every call could be followed%s", rule, construct, msg, c16Desc(g))
	case g.Esc != "":
		r.Undecide("%s %s: %s — but the stream is handed to %s, which is not modelled", rule, construct, msg, g.Esc)
	case len(g.Unknown) > 0:
		r.Undecide("%s %s: %s — but parts of the function were not understood (%s)", rule, construct, msg, g.Unknown[0])
	default:
		r.Violation(rule, construct, pos, msg)
	}
}

// c16Absent reports that a required construct was not found. That is a
// violation only if the whole entry point was understood: every call followed,
// no unrecognised shape, and the object in question not handed to code the
// analysis does not see (escape != "").
func c16Absent(r *Report, g *c16G, escape, rule, construct, pos, msg string) {
	switch {
	case escape != "":
		r.Undecide("%s %s: %s — but the object is handed to %s, which is not modelled", rule, construct, msg, escape)
	case len(g.Unknown) > 0:
		r.Undecide("%s %s: %s — but parts of the function were not understood (%s)", rule, construct, msg, g.Unknown[0])
	default:
		c16Viol(r, g, rule, construct, pos, msg)
	}
}

func c16Check(r *Report, g *c16G, cond bool, rule, construct, pos, okMsg, badMsg string) bool {
	if cond {
		r.OK(rule, construct, pos, okMsg)
		return true
	}
	c16Viol(r, g, rule, construct, pos, badMsg)
	return false
}

func c16PosOr(a, b token.Pos) token.Pos {
	if a.IsValid() {
		return a
	}
	return b
}

// c16LimitType resolves the concrete type behind the exported constructor
// LimitReadCloser (role: "what LimitReadCloser returns"), whatever its name.
func c16LimitType(p *Prog) *types.Named {
	ctor := p.Func("streams", "LimitReadCloser")
	var found *types.Named
	g := c16Build(p, ctor)
	for _, rl := range g.ExitLeaves(0) {
		for _, lf := range rl.Leaves {
			if mi, ok := lf.Val.V.(*ssa.MakeInterface); ok {
				if n, ok := deref(mi.X.Type()).(*types.Named); ok {
					if _, isStruct := n.Underlying().(*types.Struct); isStruct {
						if found != nil && found != n {
							undecided("LimitReadCloser returns more than one concrete type")
						}
						found = n
					}
				}
			}
		}
	}
	if found == nil {
		undecided("cannot resolve the concrete type returned by streams.LimitReadCloser")
	}
	return found
}

// ---------------------------------------------------------------- limit

func c16Limit(c *Ctx) {
	r, p := c.R, c.P
	pkg := p.ModPath + "/streams"
	named := c16LimitType(p)
	fR := c16FieldByType(named, "source stream", "R", func(t types.Type) bool {
		return c16IsIface(t) && c16HasMethod(t, "Read") && c16HasMethod(t, "Close")
	})
	fN := c16FieldByType(named, "remaining byte budget", "N", func(t types.Type) bool {
		b, ok := t.Underlying().(*types.Basic)
		return ok && b.Info()&types.IsInteger != 0
	})
	read := c16Method(p, named, "Read")
	closeFn := c16Method(p, named, "Close")
	if read == nil || closeFn == nil {
		undecided("the type returned by LimitReadCloser has no Read/Close method body")
	}
	// the closed flag: the bool field; if there are several (e.g. a "has source"
	// flag next to it), the one that Close() sets to true
	setInClose := map[string]bool{}
	{
		gc0 := c16Build(p, closeFn)
		gc0.All(func(n c16N, b *c16B) {
			if st, ok := n.In.(*ssa.Store); ok {
				if fa, ok := st.Addr.(*ssa.FieldAddr); ok {
					if k, ok := gc0.Val(c16V{st.Val, n.Ctx}).V.(*ssa.Const); ok && k.Value != nil && k.Value.String() == "true" {
						setInClose[fieldIDOfAddr(fa).Field] = true
					}
				}
			}
		})
	}
	nBool := 0
	isBool := func(t types.Type) bool {
		if n, ok := types.Unalias(t).(*types.Named); ok && n.Obj().Pkg() != nil && n.Obj().Pkg().Path() == "sync/atomic" && n.Obj().Name() == "Bool" {
			return true // a flag kept in an atomic.Bool
		}
		b, ok := t.Underlying().(*types.Basic)
		return ok && b.Kind() == types.Bool
	}
	hasOnce := false
	c16EachField(named, func(name string, t types.Type) {
		if n, ok := types.Unalias(t).(*types.Named); ok && n.Obj().Pkg() != nil && n.Obj().Pkg().Path() == "sync" && n.Obj().Name() == "Once" {
			hasOnce = true
		}
	})
	c16EachField(named, func(name string, t types.Type) {
		if isBool(t) {
			nBool++
		}
	})
	var fClosed FieldID
	if nBool > 1 && len(setInClose) == 1 {
		for name := range setInClose {
			fClosed = c16FieldByTypeName(named, "closed flag", name, isBool)
		}
	} else if nBool == 0 && hasOnce {
		// closing at most once is delegated to a sync.Once: no flag to track
		fClosed = FieldID{Type: "<none>", Field: "<none>"}
	} else {
		fClosed = c16FieldByType(named, "closed flag", "closed", isBool)
	}
	c16LimitCtor(c, named, fR, fN)
	const rname = "streams.LimitReadCloser.Read"
	g := c16Build(p, read)
	g.Esc = g.Escapes(fR, false)
	isR := func(v c16V) bool { return g.IsFieldLoad(v, fR) }

	var srcs []c16N
	g.All(func(n c16N, b *c16B) {
		if _, isCall := n.In.(*ssa.Call); isCall && g.MethodCall(n, "Read", isR) {
			srcs = append(srcs, n)
		}
	})
	if len(srcs) == 0 {
		c16Absent(r, g, g.Escapes(fR, false), "C16.V2-cap", rname+" source read", p.Pos(read.Pos()), "Read no longer reads from the source stream: nothing is delivered")
		return
	}
	if len(srcs) > 1 {
		r.Undecide("LimitReadCloser's Read reads the source at %d call sites; the C16 rules are written for one", len(srcs))
		return
	}
	src := srcs[0]
	srcB := g.where[src]
	cnt, e := g.Result(src, 0), g.Result(src, 1)
	if cnt.V == nil || e.V == nil {
		c16Viol(r, g, "C16.V1-count", rname+" N -= count", p.Pos(g.Pos(src)), "the byte count or the error of the source's Read is discarded")
		return
	}
	if len(read.Params) < 2 {
		undecided("Read has no buffer parameter")
	}
	buf := c16V{read.Params[1], nil}
	cntR, eR := g.Val(cnt), g.Val(e)

	// stores to N after the read
	var storesN []c16N
	g.All(func(n c16N, b *c16B) {
		if c16FieldStore(n.In, fN) != nil && g.NDominates(src, n) {
			storesN = append(storesN, n)
		}
	})
	storeVal := func(n c16N) c16V { return g.Val(c16V{n.In.(*ssa.Store).Val, n.Ctx}) }
	base := func(v c16V) string {
		if v == cntR {
			return "cnt"
		}
		if call, ok := v.V.(*ssa.Call); ok && builtinName(call) == "len" && len(call.Call.Args) == 1 && g.Val(c16V{call.Call.Args[0], v.Ctx}) == buf {
			return "len"
		}
		for _, st := range storesN {
			if storeVal(st) == v {
				return "postN"
			}
		}
		if c16IsFieldLoad(v.V, fN) {
			if in, ok := v.V.(ssa.Instruction); ok {
				n := c16N{In: in, Ctx: v.Ctx}
				for _, st := range storesN {
					if g.NDominates(st, n) {
						return "postN"
					}
				}
				if g.NDominates(src, n) {
					return "midN"
				}
			}
			return "N"
		}
		return ""
	}
	isCharge := func(n c16N) bool {
		if c16FieldStore(n.In, fN) == nil {
			return false
		}
		bo, ok := storeVal(n).V.(*ssa.BinOp)
		return ok && bo.Op == token.SUB && g.Val(c16V{bo.Y, storeVal(n).Ctx}) == cntR && g.IsFieldLoad(c16V{bo.X, storeVal(n).Ctx}, fN)
	}

	// one collecting flow for Read: charging, limit side, close discipline
	const (
		bRead = 1 << iota
		bCharged
		bOver
		bSrcClosed
		bKnownOpen
		bSetTrue
		bCalled
	)
	isCloseOnR := func(gg *c16G) func(n c16N) bool {
		return func(n c16N) bool {
			return gg.MethodCall(n, "Close", func(v c16V) bool { return gg.IsFieldLoad(v, fR) })
		}
	}
	mkFlow := func(gg *c16G, bs func(c16V) string, srcN *c16N) *c16Flow {
		closeOn := isCloseOnR(gg)
		ff := &c16Flow{G: gg, Entry: 0,
			Transfer: func(n c16N, s uint32) uint32 {
				if srcN != nil && n == *srcN {
					return (s | bRead) &^ bCharged
				}
				if srcN != nil && isCharge(n) {
					s |= bCharged
				}
				if st := c16FieldStore(n.In, fClosed); st != nil {
					if k, ok := gg.Res(c16V{st.Val, n.Ctx}).V.(*ssa.Const); ok && k.Value != nil && k.Value.String() == "true" {
						return s | bSetTrue
					}
					return s &^ bSetTrue
				}
				if closeOn(n) {
					if n.InOnce() {
						s |= bSetTrue // sync.Once is the flag
					}
					return (s | bSrcClosed | bCalled) &^ bKnownOpen
				}
				// flag kept in an atomic.Bool
				if v, isVal := n.In.(ssa.Value); isVal {
					switch op, call := gg.AtomicBoolOp(c16V{v, n.Ctx}, fClosed); op {
					case "Store":
						if k, ok := gg.Res(c16V{call.Call.Args[1], n.Ctx}).V.(*ssa.Const); ok && k.Value != nil && k.Value.String() == "true" {
							return s | bSetTrue
						}
						return s &^ bSetTrue
					case "Swap", "CompareAndSwap":
						if len(refs(call)) == 0 {
							return s | bSetTrue // result ignored: just sets the flag
						}
					}
				}
				return s
			},
			Edge: func(conds []c16C, s uint32) (uint32, bool) {
				for _, c := range conds {
					cv, truth := gg.BoolCond(c)
					if cv.V != nil {
						switch op, call := gg.AtomicBoolOp(cv, fClosed); op {
						case "Swap", "CompareAndSwap":
							// Swap(true) returns the old value; CompareAndSwap(false, true) whether it was false
							wasClosed := truth
							if op == "CompareAndSwap" {
								wasClosed = !truth
							}
							okForm := false
							if op == "Swap" && len(call.Call.Args) == 2 {
								k, isK := gg.Res(c16V{call.Call.Args[1], cv.Ctx}).V.(*ssa.Const)
								okForm = isK && k.Value != nil && k.Value.String() == "true"
							}
							if op == "CompareAndSwap" && len(call.Call.Args) == 3 {
								k1, ok1 := gg.Res(c16V{call.Call.Args[1], cv.Ctx}).V.(*ssa.Const)
								k2, ok2 := gg.Res(c16V{call.Call.Args[2], cv.Ctx}).V.(*ssa.Const)
								okForm = ok1 && ok2 && k1.Value != nil && k2.Value != nil && k1.Value.String() == "false" && k2.Value.String() == "true"
							}
							if okForm {
								if wasClosed {
									s = (s | bSrcClosed | bSetTrue) &^ bKnownOpen
								} else {
									s |= bKnownOpen | bSetTrue
								}
								continue
							}
						}
					}
					if op, _ := gg.AtomicBoolOp(cv, fClosed); cv.V != nil && (gg.IsFieldLoad(cv, fClosed) || op == "Load") {
						if truth {
							if s&bSetTrue == 0 {
								s |= bSrcClosed
							}
							s &^= bKnownOpen
							continue
						}
						if s&bSetTrue != 0 {
							return s, false // infeasible: the flag was just set on this path
						}
						s |= bKnownOpen
						continue
					}
					if bs != nil {
						for _, rel := range gg.Rels([]c16C{c}, bs) {
							if rel.X == "postN" && rel.Y == "" {
								if rel.impliesLE(-1) {
									s |= bOver
								} else if rel.impliesGE(0) {
									s &^= bOver
								}
							}
							if rel.X == "cnt" && rel.Y == "" && rel.impliesLE(0) {
								s |= bCharged // nothing to charge
							}
						}
					}
				}
				return s, true
			}}
		ff.Run()
		return ff
	}
	ff := mkFlow(g, base, &src)

	// V1-count
	{
		bad := token.NoPos
		ff.AtExits(func(exit *c16B, ret c16N, st map[uint32]bool) {
			if c16AnyState(st, func(s uint32) bool { return s&bRead != 0 && s&bCharged == 0 }) {
				bad = g.Pos(ret)
			}
		})
		nCharge := 0
		for _, st := range storesN {
			if isCharge(st) {
				nCharge++
			}
		}
		why := "Read can return after the source read without `N = N - count` having been executed on that path (the update is missing or control-dependent, e.g. on err): bytes returned together with an error/EOF are not charged against the limit"
		if nCharge == 0 {
			why = "no store `N = N - int64(n)` of the source's byte count after the source read: bytes are not charged against the limit"
			for _, st := range storesN {
				if g.Mentions(c16V{st.In.(*ssa.Store).Val, st.Ctx}, cntR, 0) {
					g.Unk(r, "C16.V1-count: N is updated from the source's count in a form the rule does not recognise at %s", p.Pos(g.Pos(st)))
				}
			}
			c16Absent(r, g, g.Escapes(fN, false), "C16.V1-count", rname+" N -= count", p.Pos(g.Pos(src)), why)
			return
		}
		if !c16Check(r, g, nCharge > 0 && !bad.IsValid(), "C16.V1-count", rname+" N -= count", p.Pos(c16PosOr(bad, g.Pos(src))), "on every path from the source read to a return N was decreased by the source's count (or the count is known <= 0)", why) {
			return
		}
	}

	// V2-cap
	{
		construct := rname + " buffer cap N+1"
		why, unknownShape := "", ""
		args := g.CallArgs(src)
		if len(args) != 1 {
			undecided("source Read call has %d args", len(args))
		}
		for _, lf := range g.Leaves(args[0]) {
			switch v := lf.Val.V.(type) {
			case *ssa.Parameter:
				if lf.Val != buf {
					unknownShape = "the source reads into something other than the caller's buffer"
					continue
				}
				good := false
				for _, rel := range g.Rels(lf.Conds, base) {
					if rel.X == "len" && rel.Y == "N" && rel.impliesLE(1) {
						good = true
					}
					if rel.X == "N" && rel.Y == "len" && rel.impliesGE(-1) {
						good = true
					}
				}
				if !good {
					why = "the caller's buffer reaches the source's Read uncapped on a path where len(p) <= N+1 is not established: more than N bytes can be delivered before the limit is noticed"
				}
			case *ssa.Slice:
				rootOK := true
				for _, l2 := range g.Leaves(c16V{v.X, lf.Val.Ctx}) {
					if l2.Val != buf {
						rootOK = false
					}
				}
				lowOK := v.Low == nil
				if v.Low != nil {
					if k, ok := g.IntConst(c16V{v.Low, lf.Val.Ctx}); ok && k == 0 {
						lowOK = true
					}
				}
				b, off, ok := "", int64(0), false
				if v.High != nil {
					hv := g.Res(c16V{v.High, lf.Val.Ctx})
					b, off, ok = g.Lin(hv, base)
					if call, isCall := hv.V.(*ssa.Call); isCall && builtinName(call) == "min" {
						ok = false
						nOther := 0
						for _, a := range call.Call.Args {
							ab, ao, aok := g.Lin(c16V{a, hv.Ctx}, base)
							switch {
							case aok && ab == "N" && ao == 1:
								b, off, ok = ab, ao, true
							case aok && ab == "len" && ao == 0:
							default:
								nOther++
							}
						}
						if nOther > 0 {
							ok = false
						}
					}
				}
				if !rootOK || !lowOK {
					unknownShape = "the buffer handed to the source is not a prefix p[0:…] of the caller's buffer"
				} else if !ok {
					unknownShape = "the bound of the buffer handed to the source is not an expression over N the rule can evaluate"
				} else if b != "N" || off != 1 {
					why = "the buffer handed to the source is capped at something other than N+1 (cap N reads nothing at N==0 and never sees the look-ahead byte; cap > N+1 delivers more than N bytes)"
				}
			default:
				unknownShape = "the buffer handed to the source is not derived from the caller's buffer in a recognised way"
			}
		}
		if why == "" && unknownShape != "" {
			g.Unk(r, "C16.V2-cap: %s", unknownShape)
		} else {
			c16Check(r, g, why == "", "C16.V2-cap", construct, p.Pos(g.Pos(src)), "every buffer reaching the source's Read is p with len(p)<=N+1 known, or p[0:N+1]", why)
		}
	}

	// over / within sides
	anyOverTest := false
	overReach, withinReach := map[*c16B]bool{}, map[*c16B]bool{}
	for _, b := range g.Blocks {
		for _, s := range b.Succs {
			c, ok := g.EdgeCond(b, s)
			if !ok {
				continue
			}
			for _, rel := range g.Rels([]c16C{c}, base) {
				if rel.X != "postN" || rel.Y != "" {
					continue
				}
				if rel.impliesLE(-1) {
					anyOverTest = true
					for x := range g.Reach(s) {
						overReach[x] = true
					}
				}
				if rel.impliesGE(0) {
					for x := range g.Reach(s) {
						withinReach[x] = true
					}
				}
			}
		}
	}
	if !anyOverTest {
		c16Viol(r, g, "C16.V2-err", rname+" over-limit error", p.Pos(g.Pos(src)), "after charging the read against N there is no test `N < 0`: a source longer than N is never turned into ErrStreamTooLarge")
		return
	}
	classify := func(lf c16Leaf) (over, within, unreachable bool) {
		for _, rel := range g.Rels(lf.Conds, base) {
			if rel.X != "postN" || rel.Y != "" {
				continue
			}
			if rel.impliesLE(-1) {
				over = true
			}
			if rel.impliesGE(0) {
				within = true
			}
			if rel.impliesLE(-2) || (rel.excludes(-1) && !rel.impliesGE(0)) {
				unreachable = true // N < -1 cannot happen with the N+1 cap
			}
		}
		if over && within {
			return false, false, true // contradictory combination of origin and path
		}
		if over && unreachable {
			return false, false, true
		}
		return over, within, false
	}
	type verdict struct {
		n   int
		why string
		pos token.Pos
	}
	hide, errv, pass := &verdict{}, &verdict{}, &verdict{}
	unknown := ""
	checkOver := func(idx int, lf c16Leaf, ret *ssa.Return) {
		if idx == 0 {
			hide.n++
			b, off, ok := g.Lin(lf.Val, base)
			if _, isConst := lf.Val.V.(*ssa.Const); !ok && !isConst && g.Mentions(lf.Val, cntR, 0) {
				unknown = "an over-limit return of Read reports a count computed from the source's count in a form the rule cannot evaluate at " + p.Pos(ret.Pos())
			} else if !(ok && b == "cnt" && off == -1) {
				hide.why = "an over-limit return reports a count that is not (source count - 1): the look-ahead byte N+1 is delivered to the consumer (more than N bytes)"
				hide.pos = ret.Pos()
			}
			return
		}
		errv.n++
		v := lf.Val
		isTooLarge := func(a c16V) bool { return g.IsGlobalLoad(a, pkg, "ErrStreamTooLarge") }
		switch {
		case isTooLarge(v):
		case c16CallHasArg(v.V, func(a ssa.Value) bool { return isTooLarge(c16V{a, v.Ctx}) }):
		case v == eR:
			f := g.FactsAbout(lf.Conds, append(append([]c16V(nil), lf.Via...), e))
			if !f.NotEOF {
				errv.why = "on the over-limit branch the source's own error is returned without io.EOF having been excluded: a source that returns its bytes N+1.. together with io.EOF makes Read deliver N bytes and then a clean io.EOF — the over-long stream is mistaken for a complete one (silent truncation)"
				errv.pos = ret.Pos()
			} else if !f.NonNil {
				errv.why = "on the over-limit branch a nil error can be returned: the over-long stream is not failed"
				errv.pos = ret.Pos()
			}
		case g.IsNil(v):
			errv.why = "an over-limit return has a nil error: the over-long stream is not failed with ErrStreamTooLarge"
			errv.pos = ret.Pos()
		case g.IsGlobalLoad(v, "io", "EOF"):
			errv.why = "an over-limit return yields io.EOF: the over-long stream is mistaken for a complete one"
			errv.pos = ret.Pos()
		default:
			unknown = "over-limit return of Read yields an error value the rule cannot classify at " + p.Pos(ret.Pos())
		}
	}
	checkWithin := func(idx int, lf c16Leaf, ret *ssa.Return) {
		pass.n++
		if idx == 0 && !g.IsCount(lf, cntR) {
			pass.why = "within the limit Read reports a count different from what the source returned: bytes are lost or invented"
			pass.pos = ret.Pos()
		}
		if idx == 1 && lf.Val != eR {
			pass.why = "within the limit Read replaces the source's error/EOF: a stream of at most N bytes is not yielded unchanged"
			pass.pos = ret.Pos()
		}
	}
	post := g.Reach(srcB)
	for idx := 0; idx < 2; idx++ {
		for _, rl := range g.ExitLeaves(idx) {
			if !post[rl.Exit] || !g.Dominates(srcB, rl.Exit) {
				continue
			}
			for _, lf := range rl.Leaves {
				over, within, unreach := classify(lf)
				if unreach {
					continue
				}
				if !over && !within {
					// a return before the budget is touched, on a path where nothing was read
					// (count known <= 0): the budget is what the entry guard saw (>= 0)
					retN := rl.Exit.Ns[len(rl.Exit.Ns)-1]
					beforeStore := true
					for _, st := range storesN {
						if g.Reach(g.where[st])[rl.Exit] {
							beforeStore = false
						}
					}
					_ = retN
					if beforeStore {
						zero := false
						for _, rel := range g.Rels(lf.Conds, base) {
							if rel.X == "cnt" && rel.Y == "" && rel.impliesLE(0) {
								zero = true
							}
						}
						if zero {
							checkWithin(idx, lf, rl.Ret)
							continue
						}
					}
					// the value does not depend on which side of the test was taken
					if overReach[rl.Exit] {
						checkOver(idx, lf, rl.Ret)
						over = true
					}
					if withinReach[rl.Exit] {
						checkWithin(idx, lf, rl.Ret)
						within = true
					}
					if !over && !within {
						unknown = "a return of Read after the source read is neither on the `N<0` nor on the `N>=0` side at " + p.Pos(rl.Ret.Pos())
					}
					continue
				}
				if over {
					checkOver(idx, lf, rl.Ret)
				} else {
					checkWithin(idx, lf, rl.Ret)
				}
			}
		}
	}
	if unknown != "" {
		g.Unk(r, "%s", unknown)
	}
	fin := func(v *verdict, rule, construct, okMsg, missing string) {
		if v.n == 0 {
			c16Viol(r, g, rule, construct, p.Pos(g.Pos(src)), missing)
			return
		}
		c16Check(r, g, v.why == "", rule, construct, p.Pos(c16PosOr(v.pos, g.Pos(src))), okMsg, v.why)
	}
	fin(hide, "C16.V2-hide", rname+" over-limit count", "every over-limit return reports count-1", "no return on the over-limit branch")
	fin(errv, "C16.V2-err", rname+" over-limit error", "every over-limit return yields ErrStreamTooLarge or a source error proven non-EOF and non-nil", "no return on the over-limit branch: over-long streams are not failed")
	fin(pass, "C16.V1-count", rname+" within-limit results", "within the limit the source's count and error are returned unchanged", "no return on the within-limit branch")

	// V2-pre: returns before the source read
	{
		why, wpos, n := "", token.NoPos, 0
		for _, rl := range g.ExitLeaves(1) {
			if post[rl.Exit] {
				continue
			}
			for _, lf := range rl.Leaves {
				tooLarge := g.IsGlobalLoad(lf.Val, pkg, "ErrStreamTooLarge")
				eof := g.IsGlobalLoad(lf.Val, "io", "EOF")
				if !tooLarge && !eof {
					continue
				}
				n++
				ok := false
				if tooLarge {
					for _, rel := range g.Rels(lf.Conds, base) {
						if rel.X == "N" && rel.Y == "" && rel.impliesLE(-1) {
							ok = true
						}
					}
					// … or the return is guarded by a fact about another field of the
					// reader (today: the source being nil; a "no source" flag is the same
					// thing in value+flag form). Only a guard on the budget itself can fail a
					// source of at most N bytes that is actually there.
					isOtherField := func(v c16V) bool {
						v = g.Val(v)
						u, isLoad := v.V.(*ssa.UnOp)
						if !isLoad || u.Op != token.MUL {
							return false
						}
						fa, isFA := u.X.(*ssa.FieldAddr)
						return isFA && fieldIDOfAddr(fa) != fN
					}
					for _, c := range lf.Conds {
						if cmp, isCmp := g.Cmp(c); isCmp && (isOtherField(cmp.X) || isOtherField(cmp.Y)) {
							ok = true
						} else if cv, _ := g.BoolCond(c); cv.V != nil && isOtherField(cv) {
							ok = true
						}
					}
					if !ok {
						why = "Read fails with ErrStreamTooLarge before reading although N < 0 is not established (e.g. `N <= 0`): a source of exactly N bytes is failed instead of yielded unchanged"
						wpos = rl.Ret.Pos()
					}
				} else {
					for _, c := range lf.Conds {
						if cv, truth := g.BoolCond(c); truth && cv.V != nil {
							if op, _ := g.AtomicBoolOp(cv, fClosed); g.IsFieldLoad(cv, fClosed) || op == "Load" {
								ok = true
							}
						}
					}
					if !ok {
						why = "Read returns io.EOF before reading the source on a path where the closed flag is not known true: the stream is cut short"
						wpos = rl.Ret.Pos()
					}
				}
			}
		}
		if n > 0 {
			c16Check(r, g, why == "", "C16.V2-pre", rname+" early returns", p.Pos(c16PosOr(wpos, read.Pos())), "before the read, ErrStreamTooLarge is returned only under N<0 (or a guard on another field: no source) and io.EOF only under closed", why)
		} else {
			r.Trivial("C16.V2-pre", rname+" early returns", p.Pos(read.Pos()), "no early ErrStreamTooLarge/EOF return")
		}
	}

	// V2-close, V4-once
	type fnGraph struct {
		name string
		g    *c16G
		ff   *c16Flow
	}
	gc := c16Build(p, closeFn)
	gc.Esc = gc.Escapes(fR, false)
	for _, fg := range []fnGraph{{rname, g, ff}, {"streams.LimitReadCloser.Close", gc, mkFlow(gc, nil, nil)}} {
		gg, fl := fg.g, fg.ff
		closeOn := isCloseOnR(gg)
		nCalls := 0
		unguarded := token.NoPos
		gg.All(func(n c16N, b *c16B) {
			if !closeOn(n) || !fl.Reached(n) {
				return
			}
			nCalls++
			if !n.InOnce() && fl.Any(n, func(s uint32) bool { return s&bKnownOpen == 0 }) {
				unguarded = gg.Pos(n)
			}
		})
		if nCalls > 0 {
			c16Check(r, gg, !unguarded.IsValid(), "C16.V4-once", fg.name+" source Close guarded by !closed", p.Pos(c16PosOr(unguarded, gg.Root.Pos())),
				"the source is closed only where closed was tested false on every path", "the source's Close() is reachable without a `closed == false` test on the path (or after a previous Close on the same path): the source can be closed twice (over-limit Read then Close, or Close twice)")
		}
		flagBad, overBad, closeBad := token.NoPos, token.NoPos, token.NoPos
		nRet := 0
		fl.AtExits(func(exit *c16B, ret c16N, st map[uint32]bool) {
			nRet++
			if c16AnyState(st, func(s uint32) bool { return s&bCalled != 0 && s&bSetTrue == 0 }) {
				flagBad = gg.Pos(ret)
			}
			if c16AnyState(st, func(s uint32) bool { return s&bOver != 0 && s&bSrcClosed == 0 }) {
				overBad = gg.Pos(ret)
			}
			if c16AnyState(st, func(s uint32) bool { return s&bSrcClosed == 0 }) {
				closeBad = gg.Pos(ret)
			}
		})
		if nCalls > 0 {
			c16Check(r, gg, !flagBad.IsValid(), "C16.V4-once", fg.name+" sets closed when it closes the source", p.Pos(c16PosOr(flagBad, gg.Root.Pos())),
				"every path that closes the source sets closed=true before returning", "a path closes the source and returns without closed=true: the next Close()/over-limit Read closes the source a second time")
		}
		if gg == g {
			c16Check(r, gg, !overBad.IsValid() && nRet > 0, "C16.V2-close", fg.name+" over-limit closes the source", p.Pos(c16PosOr(overBad, gg.Root.Pos())),
				"every over-limit return has closed the source or seen closed==true", "an over-limit return is reachable without the source having been closed (Close() dropped or made conditional)")
		} else {
			c16Check(r, gg, !closeBad.IsValid() && nRet > 0, "C16.V4-once", fg.name+" closes the source unless closed", p.Pos(c16PosOr(closeBad, gg.Root.Pos())),
				"every return of Close has closed the source or seen closed==true", "Close() can return without closing the source although closed was not set before: the source is never closed")
		}
	}
}

// c16CallHasArg: v is a call one of whose arguments (also inside a variadic
// []any literal) satisfies pred.
func c16CallHasArg(v ssa.Value, pred func(ssa.Value) bool) bool {
	call, ok := v.(*ssa.Call)
	if !ok {
		return false
	}
	for _, a := range call.Call.Args {
		if pred(a) {
			return true
		}
		if sl, ok := a.(*ssa.Slice); ok {
			if al, ok := sl.X.(*ssa.Alloc); ok {
				for _, rr := range refs(al) {
					if ia, ok := rr.(*ssa.IndexAddr); ok {
						for _, r2 := range refs(ia) {
							if st, ok := r2.(*ssa.Store); ok {
								x := st.Val
								if mi, ok := x.(*ssa.MakeInterface); ok {
									x = mi.X
								}
								if pred(x) {
									return true
								}
							}
						}
					}
				}
			}
		}
	}
	return false
}

// c16LimitCtor (V0-ctor): the limit is only enforced if the constructor hands
// out the limiting wrapper, for every limit value: each value it can return is
// the wrapper (with the source field set to the source parameter and the
// budget field to the limit parameter itself), except on paths where the
// source is known nil. Returning the source parameter itself on some other
// condition (`if n == 0 { return r }`) leaves that limit unenforced: an
// over-long source is delivered whole and ends with a clean EOF.
func c16LimitCtor(c *Ctx, named *types.Named, fR, fN FieldID) {
	r, p := c.R, c.P
	ctor := p.Func("streams", "LimitReadCloser")
	const construct = "streams.LimitReadCloser constructor"
	g := c16Build(p, ctor)
	var srcP, limP c16V
	for _, pa := range ctor.Params {
		switch {
		case c16IsIface(pa.Type()) && c16HasMethod(pa.Type(), "Read") && c16HasMethod(pa.Type(), "Close"):
			srcP = c16V{pa, nil}
		default:
			if b, ok := pa.Type().Underlying().(*types.Basic); ok && b.Info()&types.IsInteger != 0 {
				limP = c16V{pa, nil}
			}
		}
	}
	if srcP.V == nil || limP.V == nil {
		undecided("LimitReadCloser no longer takes a source stream and an integer limit")
	}
	srcNil := func(conds []c16C) bool {
		for _, cd := range conds {
			if cmp, ok := g.Cmp(cd); ok && cmp.Op == token.EQL {
				if (g.Val(cmp.X) == srcP && g.IsNil(cmp.Y)) || (g.Val(cmp.Y) == srcP && g.IsNil(cmp.X)) {
					return true
				}
			}
		}
		return false
	}
	why, wpos := "", token.NoPos
	nWrapped := 0
	for _, rl := range g.ExitLeaves(0) {
		for _, lf := range rl.Leaves {
			if srcNil(lf.Conds) {
				continue // no source: nothing to limit
			}
			v := lf.Val
			switch x := v.V.(type) {
			case *ssa.MakeInterface:
				if n, ok := deref(x.X.Type()).(*types.Named); ok && n == named {
					nWrapped++
					continue
				}
				g.Unk(r, "C16.V0-ctor: LimitReadCloser returns a value of another type at %s", p.Pos(rl.Ret.Pos()))
			case *ssa.Parameter:
				if v == srcP {
					why = "LimitReadCloser returns the source stream itself (unwrapped) on a path where the source is not nil: for the limits taking that path nothing is enforced — a source longer than N is delivered whole and ends with a clean io.EOF instead of ErrStreamTooLarge, and is not closed by the failing Read"
					wpos = rl.Ret.Pos()
					continue
				}
				g.Unk(r, "C16.V0-ctor: LimitReadCloser returns an unexpected parameter at %s", p.Pos(rl.Ret.Pos()))
			default:
				g.Unk(r, "C16.V0-ctor: LimitReadCloser returns a value the rule cannot classify at %s", p.Pos(rl.Ret.Pos()))
			}
		}
	}
	// initialisation of the wrapper: budget := n, source := r on every path that returns
	const (
		iN = 1 << iota
		iR
	)
	limBase := func(v c16V) string {
		if v == limP {
			return "n"
		}
		return ""
	}
	ff := &c16Flow{G: g, Entry: 0,
		Transfer: func(n c16N, s uint32) uint32 {
			if st := c16FieldStore(n.In, fN); st != nil {
				b, off, ok := g.Lin(c16V{st.Val, n.Ctx}, limBase)
				switch {
				case ok && b == "n" && off == 0:
					s |= iN
				case ok && b == "n":
					why = "LimitReadCloser initialises the budget with the limit shifted by a constant: one byte more or less than N is allowed"
					wpos = g.Pos(n)
				default:
					g.Unk(r, "C16.V0-ctor: the budget field is initialised with an expression the rule cannot relate to the limit parameter at %s", p.Pos(g.Pos(n)))
				}
			}
			if st := c16FieldStore(n.In, fR); st != nil && g.Val(c16V{st.Val, n.Ctx}) == srcP {
				s |= iR
			}
			return s
		}}
	ff.Run()
	ff.AtExits(func(exit *c16B, ret c16N, st map[uint32]bool) {
		wrapped := false
		for _, lf := range g.Leaves(c16V{ret.In.(*ssa.Return).Results[0], ret.Ctx}) {
			if _, ok := lf.Val.V.(*ssa.MakeInterface); ok {
				wrapped = true
			}
		}
		if !wrapped {
			return
		}
		if c16AnyState(st, func(s uint32) bool { return s&iN == 0 }) && why == "" {
			why = "LimitReadCloser can return the wrapper without having stored the limit in its budget field: the limit given by the caller is not the one enforced"
			wpos = g.Pos(ret)
		}
		if c16AnyState(st, func(s uint32) bool { return s&iR == 0 }) && why == "" {
			why = "LimitReadCloser can return the wrapper without having stored the source stream in it: nothing is read"
			wpos = g.Pos(ret)
		}
	})
	if nWrapped == 0 && why == "" {
		why = "LimitReadCloser never returns the limiting wrapper"
	}
	c16Check(r, g, why == "", "C16.V0-ctor", construct, p.Pos(c16PosOr(wpos, ctor.Pos())), "every return with a source hands out the wrapper holding that source and the budget n", why)
}
