package main

import (
	"go/token"
	"go/types"

	"golang.org/x/tools/go/ssa"
)

// C16 — streams: LimitReadCloser, MultiReaderCloser, TeeReadCloser.

func init() { register("C16", checkC16) }

func checkC16(c *Ctx) {
	r := c.R
	r.Explanation = "Decides structural necessary conditions of C16 on streams/{limitreadcloser,multireadercloser,teereadcloser}.go, on the SSA of every run. " +
		"limitReadCloser.Read: (V1) the bytes returned by the source are charged against N unconditionally (not control-dependent on the error) and within the limit the source's count and error are passed through unchanged; " +
		"(V2-pre) before reading, ErrStreamTooLarge is returned only under N<0 (or R==nil) and io.EOF only under closed; (V2-cap) the buffer handed to the source is capped at N+1; (V2-hide) on the over-limit branch the look-ahead byte is hidden (count-1); (V2-err) on the over-limit branch the returned error is ErrStreamTooLarge or a source error proven != io.EOF and != nil — never the source's io.EOF; " +
		"(V2-close) every over-limit return has closed the source; (V4) l.R.Close() is only reached with closed known false, the flag is set on that path, and Close() closes the source unless already closed. " +
		"MultiReaderCloser: (V3) in every method, a reader is removed from `readers` (re-slice, nil-ing, truncation) only after it was closed if it is an io.Closer (exception: http.ErrBodyReadAfterClose) and, in Read, only after its Read returned a non-nil error; a reader closed while consuming is removed before returning; every loop over the readers (WriteTo path, Close) handles each element before moving on, WriteTo copies each one; Close closes all remaining; " +
		"(V1-multi) Read returns the head's byte count unchanged and calls the next Read only when the previous count is known <= 0; (V6) Read returns io.EOF only when no reader remains. " +
		"TeeReadCloser: (V5) Write receives exactly p[:n] of this read on every path with n>0 before Read returns, and Read reports the source's count (or the writer's on a write error); Close closes the source if it is a Closer. " +
		"NOT decided: byte preservation for every chunking as a runtime fact; behaviour of the underlying readers/writers; that N is never modified elsewhere; stickiness of ErrStreamTooLarge on later Reads; concurrency of Multi/Limit; double user Close() calls."
	r.Assumptions = append(r.Assumptions,
		"underlying readers honour the io.Reader contract (0 <= n <= len(p)); io.CopyBuffer copies until EOF and returns nil at EOF",
		"the over-limit state of limitReadCloser is exactly `N < 0 after the post-read update`; with the N+1 cap N never goes below -1",
		"no deferred closure rewrites named results in the analysed methods (checked: none contains a deferred closure today)")

	r.Rule("C16.V1-count", "limitReadCloser.Read charges the source's byte count against N unconditionally; within the limit count and error pass through unchanged", 2)
	r.Rule("C16.V2-cap", "limitReadCloser.Read hands the source a buffer of at most N+1 bytes", 1)
	r.Rule("C16.V2-pre", "limitReadCloser.Read: before reading, ErrStreamTooLarge only under N<0 (or R==nil), io.EOF only under closed", 1)
	r.Rule("C16.V2-hide", "over-limit returns report count-1 (the look-ahead byte is hidden)", 1)
	r.Rule("C16.V2-err", "over-limit returns fail with ErrStreamTooLarge (or a source error proven non-EOF), never io.EOF/nil", 1)
	r.Rule("C16.V2-close", "over-limit returns have closed the source", 1)
	r.Rule("C16.V4-once", "limitReadCloser: l.R.Close() only with closed known false and closed=true on the same path; Close() closes the source unless closed", 5)
	r.Rule("C16.V3-drop", "MultiReaderCloser: a reader leaves `readers` only after Close-if-Closer (exception ErrBodyReadAfterClose); in Read only after a non-nil error from it", 2)
	r.Rule("C16.V3-loop", "MultiReaderCloser: loops over readers visit 0..len-1 and finish each iteration with the element closed-if-Closer (and copied on the WriteTo path); Close closes all remaining readers", 2)
	r.Rule("C16.V3-once", "MultiReaderCloser.Read: a reader closed on EOF is removed from readers before Read returns (no second Close later)", 1)
	r.Rule("C16.V1-multi", "MultiReaderCloser.Read returns the byte count of the head's Read unchanged and reads on only after a zero-length read", 2)
	r.Rule("C16.V6-eof-last", "MultiReaderCloser.Read returns io.EOF only when no reader remains", 1)
	r.Rule("C16.V5-tee", "TeeReadCloser.Read: Write gets exactly p[:n] of this read on every path with n>0 before returning; returned count is the source's (or the writer's on write error)", 3)
	r.Rule("C16.V4-tee-close", "TeeReadCloser.Close closes the source if it is an io.Closer", 1)

	c16Limit(c)
	c16Multi(c)
	c16Tee(c)
}

// c16Field resolves a field of a named struct; UNDECIDED if it is gone.
func c16Field(n *types.Named, name string) FieldID {
	st, ok := n.Underlying().(*types.Struct)
	if !ok {
		undecided("anchor type %s is no longer a struct", n.Obj().Name())
	}
	for i := 0; i < st.NumFields(); i++ {
		if st.Field(i).Name() == name {
			return FieldID{Type: n.Obj().Pkg().Path() + "." + n.Obj().Name(), Field: name}
		}
	}
	undecided("anchor field %s.%s no longer resolves", n.Obj().Name(), name)
	return FieldID{}
}

// c16SourceRead finds the calls of Read on the value loaded from field f.
func c16CallsOnField(fn *ssa.Function, method string, f FieldID) []*ssa.Call {
	var out []*ssa.Call
	allInstrs(fn, func(in ssa.Instruction) {
		if ci, ok := c16InvokeOn(in, method, func(v ssa.Value) bool { return c16IsFieldLoad(v, f) }); ok {
			if call, ok := ci.(*ssa.Call); ok {
				out = append(out, call)
			}
		}
	})
	return out
}

// boolean field condition on an edge: returns (truth, ok)
func c16BoolFieldEdge(from, to *ssa.BasicBlock, f FieldID) (bool, bool) {
	dc, ok := c16EdgeCond(from, to)
	if !ok {
		return false, false
	}
	cond, branch := dc.If.Cond, dc.Branch
	for {
		if u, ok := cond.(*ssa.UnOp); ok && u.Op == token.NOT {
			cond, branch = u.X, !branch
			continue
		}
		break
	}
	if c16IsFieldLoad(cond, f) {
		return branch, true
	}
	if bo, ok := cond.(*ssa.BinOp); ok && (bo.Op == token.EQL || bo.Op == token.NEQ) {
		x, y := bo.X, bo.Y
		if !c16IsFieldLoad(x, f) {
			x, y = y, x
		}
		if k, ok := y.(*ssa.Const); ok && c16IsFieldLoad(x, f) && k.Value != nil {
			kv := k.Value.String() == "true"
			if bo.Op == token.NEQ {
				kv = !kv
			}
			if !branch {
				kv = !kv
			}
			return kv, true
		}
	}
	return false, false
}

// ---------------------------------------------------------------- limit

func c16Limit(c *Ctx) {
	r, p := c.R, c.P
	pkg := p.ModPath + "/streams"
	named := p.Named("streams", "limitReadCloser")
	fN, fR, fClosed := c16Field(named, "N"), c16Field(named, "R"), c16Field(named, "closed")
	read := p.Func("streams", "limitReadCloser.Read")
	closeFn := p.Func("streams", "limitReadCloser.Close")
	rname := FuncName(p, read)

	srcs := c16CallsOnField(read, "Read", fR)
	if len(srcs) == 0 {
		r.Violation("C16.V2-cap", rname+" source read", p.Pos(read.Pos()), "limitReadCloser.Read no longer reads from l.R: nothing is delivered")
		return
	}
	if len(srcs) > 1 {
		r.Undecide("limitReadCloser.Read reads the source at %d call sites; the C16 rules are written for one", len(srcs))
		return
	}
	src := srcs[0]
	cnt, e := callResult(src, 0), callResult(src, 1)
	if cnt == nil || e == nil {
		r.Violation("C16.V1-count", rname+" N -= count", p.Pos(src.Pos()), "the byte count or the error of l.R.Read is discarded")
		return
	}
	if len(read.Params) < 2 {
		undecided("limitReadCloser.Read has no buffer parameter")
	}
	buf := read.Params[1]

	// stores to N after the read
	var storesN []*ssa.Store
	allInstrs(read, func(in ssa.Instruction) {
		if st := c16FieldStore(in, fN); st != nil && instrDominates(src, st) {
			storesN = append(storesN, st)
		}
	})
	afterStore := func(in ssa.Instruction) bool {
		for _, st := range storesN {
			if instrDominates(st, in) {
				return true
			}
		}
		return false
	}
	base := func(v ssa.Value) string {
		if v == cnt {
			return "cnt"
		}
		if call, ok := v.(*ssa.Call); ok && builtinName(call) == "len" && len(call.Call.Args) == 1 && call.Call.Args[0] == buf {
			return "len"
		}
		for _, st := range storesN {
			if st.Val == v {
				return "postN"
			}
		}
		if c16IsFieldLoad(v, fN) {
			if in, ok := v.(ssa.Instruction); ok && afterStore(in) {
				return "postN"
			}
			if in, ok := v.(ssa.Instruction); ok && instrDominates(src, in) {
				return "midN" // after the read but before the update
			}
			return "N"
		}
		return ""
	}

	// V1-count: N = N - count, unconditionally after the read
	{
		construct := rname + " N -= count"
		ok, why := false, "no store `l.N = l.N - int64(n)` of the source's byte count after l.R.Read: bytes are not charged against the limit"
		for _, st := range storesN {
			bo, isBin := c16Unconv(st.Val).(*ssa.BinOp)
			if !isBin || bo.Op != token.SUB || c16Unconv(bo.Y) != cnt || !c16IsFieldLoad(bo.X, fN) {
				continue
			}
			cond := false
			for _, dc := range domConds(st.Block()) {
				if instrDominates(src, dc.If) {
					cond = true
				}
			}
			if cond {
				why = "the update of N is control-dependent on a test made after the read (e.g. on err): bytes returned together with an error/EOF are not charged against the limit"
				continue
			}
			ok = true
		}
		pos := src.Pos()
		r.Check(ok, "C16.V1-count", construct, p.Pos(pos), "N is decreased by the source's count in a block not conditioned on the error", why)
		if !ok {
			return
		}
	}

	// V2-cap
	{
		construct := rname + " buffer cap N+1"
		why := ""
		args := c16CallArgs(src)
		if len(args) != 1 {
			undecided("l.R.Read call has %d args", len(args))
		}
		for _, lf := range c16Leaves(args[0]) {
			switch v := lf.Val.(type) {
			case *ssa.Parameter:
				if v != buf {
					why = "the source reads into something other than the caller's buffer"
					continue
				}
				good := false
				for _, rel := range c16Rels(lf.Conds, base) {
					if rel.X == "len" && rel.Y == "N" && rel.impliesLE(1) {
						good = true
					}
					if rel.X == "N" && rel.Y == "len" && rel.impliesGE(-1) {
						good = true
					}
				}
				if !good {
					why = "the caller's buffer reaches l.R.Read uncapped on a path where len(p) <= N+1 is not established: more than N bytes can be delivered before the limit is noticed"
				}
			case *ssa.Slice:
				rootOK := false
				for _, l2 := range c16Leaves(v.X) {
					if l2.Val == buf {
						rootOK = true
					}
				}
				lowOK := v.Low == nil
				if k, ok := c16IntConst(v.Low); v.Low != nil && ok && k == 0 {
					lowOK = true
				}
				b, off, ok := "", int64(0), false
				if v.High != nil {
					b, off, ok = c16Lin(v.High, base)
					if call, isCall := c16Unconv(v.High).(*ssa.Call); isCall && builtinName(call) == "min" {
						ok = false
						for _, a := range call.Call.Args {
							if ab, ao, aok := c16Lin(a, base); aok && ab == "N" && ao == 1 {
								b, off, ok = ab, ao, true
							}
						}
					}
				}
				if !rootOK || !lowOK {
					why = "the buffer handed to the source is not a prefix p[0:…] of the caller's buffer"
				} else if !ok || b != "N" || off != 1 {
					why = "the buffer handed to the source is capped at something other than N+1 (cap N reads nothing at N==0 and never sees the look-ahead byte; cap > N+1 delivers more than N bytes)"
				}
			default:
				why = "the buffer handed to the source is not derived from the caller's buffer in a recognised way"
			}
		}
		r.Check(why == "", "C16.V2-cap", construct, p.Pos(src.Pos()), "every buffer reaching l.R.Read is p with len(p)<=N+1 known, or p[0:N+1]", why)
	}

	// return leaves
	post := reachableFrom(src.Block(), nil)
	anyOverTest := false
	overReach, withinReach := map[*ssa.BasicBlock]bool{}, map[*ssa.BasicBlock]bool{}
	allInstrs(read, func(in ssa.Instruction) {
		if ifi, ok := in.(*ssa.If); ok {
			for _, br := range []bool{true, false} {
				tgt := ifi.Block().Succs[0]
				if !br {
					tgt = ifi.Block().Succs[1]
				}
				for _, rel := range c16Rels([]DomCond{{ifi, br}}, base) {
					if rel.X == "postN" && rel.Y == "" && rel.impliesLE(-1) {
						anyOverTest = true
						for b := range reachableFrom(tgt, nil) {
							overReach[b] = true
						}
					}
					if rel.X == "postN" && rel.Y == "" && rel.impliesGE(0) {
						for b := range reachableFrom(tgt, nil) {
							withinReach[b] = true
						}
					}
				}
			}
		}
	})
	if !anyOverTest {
		r.Violation("C16.V2-err", rname+" over-limit error", p.Pos(src.Pos()), "after charging the read against N there is no test `N < 0`: a source longer than N is never turned into ErrStreamTooLarge")
		return
	}
	classify := func(lf c16Leaf) (over, within, unreachable bool) {
		for _, rel := range c16Rels(lf.Conds, base) {
			if rel.X != "postN" || rel.Y != "" {
				continue
			}
			if rel.impliesLE(-1) {
				over = true
			}
			if rel.impliesGE(0) {
				within = true
			}
			if rel.impliesLE(-2) || (rel.excludes(-1) && !rel.impliesGE(0)) {
				unreachable = true // N < -1 cannot happen with the N+1 cap
			}
		}
		if over && unreachable {
			return false, false, true
		}
		return over, within, false
	}
	type verdict struct {
		n   int
		why string
		pos token.Pos
	}
	hide, errv, pass := &verdict{}, &verdict{}, &verdict{}
	unknown := ""
	checkOver := func(idx int, lf c16Leaf, ret *ssa.Return) {
		if idx == 0 {
			hide.n++
			b, off, ok := c16Lin(lf.Val, base)
			if !(ok && b == "cnt" && off == -1) {
				hide.why = "an over-limit return reports a count that is not (source count - 1): the look-ahead byte N+1 is delivered to the consumer (more than N bytes)"
				hide.pos = ret.Pos()
			}
			return
		}
		errv.n++
		v := c16Unconv(lf.Val)
		switch {
		case c16IsGlobalLoad(v, pkg, "ErrStreamTooLarge"):
		case c16CallHasArg(v, func(a ssa.Value) bool { return c16IsGlobalLoad(a, pkg, "ErrStreamTooLarge") }):
		case v == e:
			f := c16FactsAbout(lf.Conds, append(append([]ssa.Value(nil), lf.Via...), e))
			if !f.NotEOF {
				errv.why = "on the over-limit branch the source's own error is returned without io.EOF having been excluded: a source that returns its bytes N+1.. together with io.EOF makes Read deliver N bytes and then a clean io.EOF — the over-long stream is mistaken for a complete one (silent truncation)"
				errv.pos = ret.Pos()
			} else if !f.NonNil {
				errv.why = "on the over-limit branch a nil error can be returned: the over-long stream is not failed"
				errv.pos = ret.Pos()
			}
		case isNilConst(v):
			errv.why = "an over-limit return has a nil error: the over-long stream is not failed with ErrStreamTooLarge"
			errv.pos = ret.Pos()
		case c16IsGlobalLoad(v, "io", "EOF"):
			errv.why = "an over-limit return yields io.EOF: the over-long stream is mistaken for a complete one"
			errv.pos = ret.Pos()
		default:
			unknown = "over-limit return of limitReadCloser.Read yields an error value the rule cannot classify at " + p.Pos(ret.Pos())
		}
	}
	checkWithin := func(idx int, lf c16Leaf, ret *ssa.Return) {
		pass.n++
		if idx == 0 && c16Unconv(lf.Val) != cnt {
			pass.why = "within the limit Read reports a count different from what the source returned: bytes are lost or invented"
			pass.pos = ret.Pos()
		}
		if idx == 1 && c16Unconv(lf.Val) != e {
			pass.why = "within the limit Read replaces the source's error/EOF: a stream of at most N bytes is not yielded unchanged"
			pass.pos = ret.Pos()
		}
	}
	for idx := 0; idx < 2; idx++ {
		for _, rl := range c16ReturnLeaves(read, idx) {
			if !post[rl.Ret.Block()] || !src.Block().Dominates(rl.Ret.Block()) {
				continue
			}
			for _, lf := range rl.Leaves {
				over, within, unreach := classify(lf)
				if unreach {
					continue
				}
				if !over && !within {
					// the value does not depend on which side of the test was taken: it is
					// what the return yields on every side that can reach it
					if overReach[rl.Ret.Block()] {
						checkOver(idx, lf, rl.Ret)
						over = true
					}
					if withinReach[rl.Ret.Block()] {
						checkWithin(idx, lf, rl.Ret)
						within = true
					}
					if !over && !within {
						unknown = "a return of limitReadCloser.Read after the source read is neither on the `N<0` nor on the `N>=0` side at " + p.Pos(rl.Ret.Pos())
					}
					continue
				}
				if over {
					checkOver(idx, lf, rl.Ret)
				} else {
					checkWithin(idx, lf, rl.Ret)
				}
			}
		}
	}
	if unknown != "" {
		r.Undecide("%s", unknown)
	}
	fin := func(v *verdict, rule, construct, okMsg, missing string) {
		if v.n == 0 {
			r.Violation(rule, construct, p.Pos(src.Pos()), missing)
			return
		}
		pos := src.Pos()
		if v.pos.IsValid() {
			pos = v.pos
		}
		r.Check(v.why == "", rule, construct, p.Pos(pos), okMsg, v.why)
	}
	fin(hide, "C16.V2-hide", rname+" over-limit count", "every over-limit return reports count-1", "no return on the over-limit branch")
	fin(errv, "C16.V2-err", rname+" over-limit error", "every over-limit return yields ErrStreamTooLarge or a source error proven non-EOF and non-nil", "no return on the over-limit branch: over-long streams are not failed")
	fin(pass, "C16.V1-count", rname+" within-limit results", "within the limit the source's count and error are returned unchanged", "no return on the within-limit branch")

	// V2-pre: returns before the source read
	{
		why, wpos, n := "", token.NoPos, 0
		for _, rl := range c16ReturnLeaves(read, 1) {
			if post[rl.Ret.Block()] {
				continue
			}
			for _, lf := range rl.Leaves {
				tooLarge := c16IsGlobalLoad(lf.Val, pkg, "ErrStreamTooLarge")
				eof := c16IsGlobalLoad(lf.Val, "io", "EOF")
				if !tooLarge && !eof {
					continue
				}
				n++
				ok := false
				if tooLarge {
					for _, rel := range c16Rels(lf.Conds, base) {
						if rel.X == "N" && rel.Y == "" && rel.impliesLE(-1) {
							ok = true
						}
					}
					for _, dc := range lf.Conds {
						if cmp, isCmp := decodeCond(dc.If.Cond, dc.Branch); isCmp && cmp.Op == token.EQL {
							if (c16IsFieldLoad(cmp.X, fR) && isNilConst(cmp.Y)) || (c16IsFieldLoad(cmp.Y, fR) && isNilConst(cmp.X)) {
								ok = true
							}
						}
					}
					if !ok {
						why = "Read fails with ErrStreamTooLarge before reading although N < 0 is not established (e.g. `N <= 0`): a source of exactly N bytes is failed instead of yielded unchanged"
						wpos = rl.Ret.Pos()
					}
				} else {
					for _, dc := range lf.Conds {
						cond, br := dc.If.Cond, dc.Branch
						for {
							if u, isNot := cond.(*ssa.UnOp); isNot && u.Op == token.NOT {
								cond, br = u.X, !br
								continue
							}
							break
						}
						if c16IsFieldLoad(cond, fClosed) && br {
							ok = true
						}
					}
					if !ok {
						why = "Read returns io.EOF before reading the source on a path where closed is not known true: the stream is cut short"
						wpos = rl.Ret.Pos()
					}
				}
			}
		}
		if n > 0 {
			r.Check(why == "", "C16.V2-pre", rname+" early returns", p.Pos(c16PosOr(wpos, read.Pos())), "before the read, ErrStreamTooLarge is returned only under N<0 (or R==nil) and io.EOF only under closed", why)
		} else {
			r.Trivial("C16.V2-pre", rname+" early returns", p.Pos(read.Pos()), "no early ErrStreamTooLarge/EOF return")
		}
	}

	// V2-close, V4-once: powerset flow
	const (
		bOver = 1 << iota
		bSrcClosed
		bKnownOpen
		bSetTrue
		bCalled
	)
	isCloseOnR := func(in ssa.Instruction) bool {
		_, ok := c16InvokeOn(in, "Close", func(v ssa.Value) bool { return c16IsFieldLoad(v, fR) })
		if _, isDefer := in.(*ssa.Defer); isDefer {
			return ok
		}
		_, isCall := in.(*ssa.Call)
		return ok && isCall
	}
	mkFlow := func(fn *ssa.Function) *FlagFlow {
		ff := &FlagFlow{Fn: fn, Must: false, Entry: 1 << 0,
			Transfer: func(in ssa.Instruction, st uint64) uint64 {
				if s := c16FieldStore(in, fClosed); s != nil {
					if k, ok := s.Val.(*ssa.Const); ok && k.Value != nil && k.Value.String() == "true" {
						return mapStates(st, func(x int) int { return x | bSetTrue })
					}
					return mapStates(st, func(x int) int { return x &^ bSetTrue })
				}
				if isCloseOnR(in) {
					return mapStates(st, func(x int) int { return (x | bSrcClosed | bCalled) &^ bKnownOpen })
				}
				return st
			},
			EdgeTransfer: func(from, to *ssa.BasicBlock, st uint64) uint64 {
				if truth, ok := c16BoolFieldEdge(from, to, fClosed); ok {
					var out uint64
					for i := 0; i < 64; i++ {
						if st&(1<<uint(i)) == 0 {
							continue
						}
						x := i
						if truth {
							if x&bSetTrue == 0 {
								x |= bSrcClosed
							}
							x &^= bKnownOpen
						} else {
							if x&bSetTrue != 0 {
								continue // infeasible: flag was just set on this path
							}
							x |= bKnownOpen
						}
						out |= 1 << uint(x)
					}
					return out
				}
				if dc, ok := c16EdgeCond(from, to); ok {
					for _, rel := range c16Rels([]DomCond{dc}, base) {
						if rel.X == "postN" && rel.Y == "" {
							if rel.impliesLE(-1) {
								return mapStates(st, func(x int) int { return x | bOver })
							}
							if rel.impliesGE(0) {
								return mapStates(st, func(x int) int { return x &^ bOver })
							}
						}
					}
				}
				return st
			}}
		ff.Run()
		return ff
	}
	anyState := func(st uint64, pred func(x int) bool) bool {
		for i := 0; i < 64; i++ {
			if st&(1<<uint(i)) != 0 && pred(i) {
				return true
			}
		}
		return false
	}
	for _, fn := range []*ssa.Function{read, closeFn} {
		fname := FuncName(p, fn)
		ff := mkFlow(fn)
		nCalls := 0
		allInstrs(fn, func(in ssa.Instruction) {
			if _, isDefer := in.(*ssa.Defer); isDefer || !isCloseOnR(in) {
				return
			}
			nCalls++
			st, reach := ff.Before(in)
			if !reach {
				return
			}
			r.Check(!anyState(st, func(x int) bool { return x&bKnownOpen == 0 }), "C16.V4-once", fname+" l.R.Close() guarded by !closed", p.Pos(instrPos(in)),
				"the source is closed only where closed was tested false on every path", "l.R.Close() is reachable without a `closed == false` test on the path (or after a previous Close on the same path): the source can be closed twice (over-limit Read then Close, or Close twice)")
		})
		flagBad, overBad, closeBad := token.NoPos, token.NoPos, token.NoPos
		nRet := 0
		ff.AtReturns(func(ret *ssa.Return, st uint64) {
			nRet++
			if anyState(st, func(x int) bool { return x&bCalled != 0 && x&bSetTrue == 0 }) {
				flagBad = ret.Pos()
			}
			if anyState(st, func(x int) bool { return x&bOver != 0 && x&bSrcClosed == 0 }) {
				overBad = ret.Pos()
			}
			if anyState(st, func(x int) bool { return x&bSrcClosed == 0 }) {
				closeBad = ret.Pos()
			}
		})
		if nCalls > 0 {
			r.Check(!flagBad.IsValid(), "C16.V4-once", fname+" sets closed when it closes the source", p.Pos(c16PosOr(flagBad, fn.Pos())),
				"every path that closes the source sets closed=true before returning", "a path closes the source and returns without closed=true: the next Close()/over-limit Read closes the source a second time")
		}
		if fn == read {
			r.Check(!overBad.IsValid() && nRet > 0, "C16.V2-close", fname+" over-limit closes the source", p.Pos(c16PosOr(overBad, fn.Pos())),
				"every over-limit return has called l.R.Close() or seen closed==true", "an over-limit return is reachable without the source having been closed (l.R.Close() dropped or made conditional)")
		} else {
			r.Check(!closeBad.IsValid() && nRet > 0, "C16.V4-once", fname+" closes the source unless closed", p.Pos(c16PosOr(closeBad, fn.Pos())),
				"every return of Close has called l.R.Close() or seen closed==true", "Close() can return without closing the source although closed was not set before: the source is never closed")
		}
	}
}

func c16PosOr(a, b token.Pos) token.Pos {
	if a.IsValid() {
		return a
	}
	return b
}

// c16CallHasArg: v is a call one of whose arguments (also inside a variadic
// []any literal) satisfies pred.
func c16CallHasArg(v ssa.Value, pred func(ssa.Value) bool) bool {
	call, ok := v.(*ssa.Call)
	if !ok {
		return false
	}
	for _, a := range call.Call.Args {
		if pred(a) {
			return true
		}
		if sl, ok := a.(*ssa.Slice); ok {
			if al, ok := sl.X.(*ssa.Alloc); ok {
				for _, rr := range refs(al) {
					if ia, ok := rr.(*ssa.IndexAddr); ok {
						for _, r2 := range refs(ia) {
							if st, ok := r2.(*ssa.Store); ok {
								x := st.Val
								if mi, ok := x.(*ssa.MakeInterface); ok {
									x = mi.X
								}
								if pred(x) {
									return true
								}
							}
						}
					}
				}
			}
		}
	}
	return false
}
