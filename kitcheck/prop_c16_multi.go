package main

import (
	"fmt"
	"go/token"
	"go/types"

	"golang.org/x/tools/go/ssa"
)

// ---------------------------------------------------------------- multi

// c16Removal is one update of the readers list.
type c16Removal struct {
	N     c16N
	Kind  string // "head" (readers[1:]), "all" (nil / [:0]), "prefix" (readers[v:]), "elem" (readers[v] = nil)
	Index c16V   // for prefix / elem
}

// c16MultiG bundles an inlined entry point of MultiReaderCloser with the
// role predicates.
type c16MultiG struct {
	*c16G
	fReaders FieldID
	// isList, if set, replaces "load of the readers field" as the notion of "the
	// list" (used to run the loop recognition over a local literal slice).
	isList func(v c16V) bool
	// listLen > 0: the list is a literal array of that constant length; a loop
	// bound equal to it counts as len(list).
	listLen int64
}

func (m *c16MultiG) isReadersLoad(v c16V) bool {
	if m.isList != nil {
		return m.isList(v)
	}
	return m.IsFieldLoad(v, m.fReaders)
}

// c16LiteralArray: al is a local array literal ([k]T{a, b, …}, possibly sliced:
// []T{a, b, …}) only written by constant-index element stores; returns the
// element values (interface wrapping removed).
func (g *c16G) c16LiteralArray(al *ssa.Alloc, ctx *c16Ctx) ([]c16V, bool) {
	if _, isArr := deref(al.Type()).Underlying().(*types.Array); !isArr {
		return nil, false
	}
	var elems []c16V
	for _, rr := range refs(al) {
		switch x := rr.(type) {
		case *ssa.Slice, *ssa.UnOp, *ssa.DebugRef:
		case *ssa.IndexAddr:
			if _, isK := c16IntConst(x.Index); !isK {
				// a variable index: fine as long as it is only read through
				for _, r2 := range refs(x) {
					if st, isStore := r2.(*ssa.Store); isStore && st.Addr == ssa.Value(x) {
						return nil, false
					}
				}
				continue
			}
			for _, r2 := range refs(x) {
				st, isStore := r2.(*ssa.Store)
				if !isStore || st.Addr != ssa.Value(x) {
					continue
				}
				e := st.Val
				if mi, isMI := e.(*ssa.MakeInterface); isMI {
					e = mi.X
				}
				elems = append(elems, g.Val(c16V{e, ctx}))
			}
		default:
			return nil, false
		}
	}
	return elems, len(elems) > 0
}

// literalOf: v denotes the literal array al: its address, its value or a slice of it.
func (g *c16G) literalOf(v c16V) (*ssa.Alloc, *c16Ctx) {
	v = g.Res(v)
	switch x := v.V.(type) {
	case *ssa.Alloc:
		return x, v.Ctx
	case *ssa.Slice:
		if x.Low == nil && x.High == nil {
			if al, ok := x.X.(*ssa.Alloc); ok {
				return al, v.Ctx
			}
		}
	case *ssa.UnOp:
		if al, ok := x.X.(*ssa.Alloc); ok && x.Op == token.MUL {
			return al, v.Ctx
		}
	}
	return nil, nil
}

// c16LiteralLoopsClosing finds counting loops over a local literal slice/array
// one of whose elements satisfies want, that run over all its indices, cannot
// be left early and in every iteration close the current element if it is a
// Closer. Returns the first instruction occurrence after each such loop: there,
// every element has been closed-if-Closer.
func c16LiteralLoopsClosing(g *c16G, want func(c16V) bool) map[c16N]bool {
	out := map[c16N]bool{}
	type lit struct {
		al  *ssa.Alloc
		ctx *c16Ctx
	}
	var lits []lit
	seenLit := map[lit]bool{}
	g.All(func(n c16N, b *c16B) {
		al, ok := n.In.(*ssa.Alloc)
		if !ok || seenLit[lit{al, n.Ctx}] {
			return
		}
		elems, ok := g.c16LiteralArray(al, n.Ctx)
		if !ok {
			return
		}
		for _, e := range elems {
			if want(e) {
				seenLit[lit{al, n.Ctx}] = true
				lits = append(lits, lit{al, n.Ctx})
				return
			}
		}
	})
	var loops []*c16Loop
	var lms []*c16MultiG
	for _, l := range lits {
		l := l
		lm := &c16MultiG{c16G: g}
		lm.listLen = deref(l.al.Type()).Underlying().(*types.Array).Len()
		lm.isList = func(v c16V) bool {
			al, ctx := g.literalOf(v)
			return al == l.al && ctx == l.ctx
		}
		for _, lp := range lm.readerLoops() {
			loops = append(loops, lp)
			lms = append(lms, lm)
		}
	}
	for li, lp := range loops {
		lm := lms[li]
		if lp.Why != "" || len(lp.Exit.Ns) == 0 {
			continue
		}
		isElem := func(v c16V) bool {
			idx, ok := lm.elemIndex(v)
			return ok && idx == lp.Idx
		}
		hdr := lp.Header.Ns[0]
		ff := &c16Flow{G: g, Entry: 0,
			Transfer: func(n c16N, s uint32) uint32 {
				if n == hdr {
					s = 0
				}
				if lm.closeOf(n, isElem) {
					s |= 1
				}
				return s
			},
			Edge: func(conds []c16C, s uint32) (uint32, bool) {
				for _, c := range conds {
					if x, truth, ok := g.AssertOk(c); ok && !truth && isElem(x) {
						s |= 1
					}
				}
				return s, true
			}}
		ff.Run()
		good := true
		for _, b := range g.Blocks {
			if !lp.Blocks[b] {
				continue
			}
			for _, s := range b.Succs {
				switch {
				case s == lp.Header:
					if c16AnyState(ff.OutEdge(b, s), func(x uint32) bool { return x&1 == 0 }) {
						good = false
					}
				case !lp.Blocks[s] && !lp.normalExit(g, b, s):
					good = false // early exit
				}
			}
		}
		if good && lp.exitClean(g) {
			out[lp.Exit.Ns[0]] = true
		}
	}
	return out
}

// elemIndex: v is element i of the readers slice: *(&S[i]) with S a load of readers.
func (m *c16MultiG) elemIndex(v c16V) (c16V, bool) {
	v = m.Val(v)
	// the list may hold small structs wrapping the reader: look through the field
	if f, ok := v.V.(*ssa.Field); ok {
		return m.elemIndex(c16V{f.X, v.Ctx})
	}
	if u, ok := v.V.(*ssa.UnOp); ok && u.Op == token.MUL {
		if fa, ok := u.X.(*ssa.FieldAddr); ok {
			if ia, ok := fa.X.(*ssa.IndexAddr); ok && m.isReadersLoad(c16V{ia.X, v.Ctx}) {
				return m.Res(c16V{ia.Index, v.Ctx}), true
			}
			// a local copy of the element (`for _, e := range list` / `e := list[i]`
			// with e a struct): every store into the copy is an element of the list
			// at one and the same index
			if al, ok := m.Res(c16V{fa.X, v.Ctx}).V.(*ssa.Alloc); ok && m.cellIsPrivateStruct(al) {
				var idx c16V
				n := 0
				for _, rr := range refs(al) {
					if st, isStore := rr.(*ssa.Store); isStore && st.Addr == ssa.Value(al) {
						i2, ok := m.elemIndex(c16V{st.Val, v.Ctx})
						if !ok || (n > 0 && i2 != idx) {
							return c16V{}, false
						}
						idx = i2
						n++
					}
				}
				if n > 0 {
					return idx, true
				}
			}
		}
	}
	if u, ok := v.V.(*ssa.UnOp); ok && u.Op == token.MUL {
		if ia, ok := u.X.(*ssa.IndexAddr); ok && m.isReadersLoad(c16V{ia.X, v.Ctx}) {
			return m.Res(c16V{ia.Index, v.Ctx}), true
		}
	}
	if ix, ok := v.V.(*ssa.Index); ok && m.isReadersLoad(c16V{ix.X, v.Ctx}) {
		return m.Res(c16V{ix.Index, v.Ctx}), true // element of an array value
	}
	return c16V{}, false
}

func (m *c16MultiG) isHead(v c16V) bool {
	idx, ok := m.elemIndex(v)
	if !ok {
		return false
	}
	k, ok := c16IntConst(idx.V)
	return ok && k == 0
}

// closeOf: occurrence n closes (through an assertion to a Closer interface) a
// value satisfying want.
func (m *c16MultiG) closeOf(n c16N, want func(c16V) bool) bool {
	return m.MethodCall(n, "Close", func(v c16V) bool {
		x, ok := m.CloserAssert(v)
		return ok && want(x)
	})
}

func (m *c16MultiG) removals() (out []c16Removal, unknown []c16N) {
	m.All(func(n c16N, b *c16B) {
		if st := c16FieldStore(n.In, m.fReaders); st != nil {
			v := m.Res(c16V{st.Val, n.Ctx})
			if isNilConst(v.V) {
				out = append(out, c16Removal{n, "all", c16V{}})
				return
			}
			// slices.Delete(list, 0, 1) ≙ list[1:]
			if call, ok := v.V.(*ssa.Call); ok && callIs(call, "slices", "", "Delete") && len(call.Call.Args) == 3 && m.isReadersLoad(c16V{call.Call.Args[0], v.Ctx}) {
				lo, ok1 := m.IntConst(c16V{call.Call.Args[1], v.Ctx})
				hi, ok2 := m.IntConst(c16V{call.Call.Args[2], v.Ctx})
				if ok1 && ok2 && lo == 0 && hi == 1 {
					out = append(out, c16Removal{n, "head", c16V{}})
				} else {
					unknown = append(unknown, n)
				}
				return
			}
			if sl, ok := v.V.(*ssa.Slice); ok && m.isReadersLoad(c16V{sl.X, v.Ctx}) && sl.Max == nil {
				lowK, lowConst := int64(0), sl.Low == nil
				if sl.Low != nil {
					lowK, lowConst = m.IntConst(c16V{sl.Low, v.Ctx})
				}
				if sl.High != nil {
					if hk, ok := m.IntConst(c16V{sl.High, v.Ctx}); ok && hk == 0 {
						out = append(out, c16Removal{n, "all", c16V{}})
						return
					}
					unknown = append(unknown, n)
					return
				}
				switch {
				case lowConst && lowK == 0:
				case lowConst && lowK == 1:
					out = append(out, c16Removal{n, "head", c16V{}})
				case lowConst:
					unknown = append(unknown, n)
				default:
					out = append(out, c16Removal{n, "prefix", m.Res(c16V{sl.Low, v.Ctx})})
				}
				return
			}
			unknown = append(unknown, n)
			return
		}
		if st, ok := n.In.(*ssa.Store); ok {
			if ia, ok := st.Addr.(*ssa.IndexAddr); ok && m.isReadersLoad(c16V{ia.X, n.Ctx}) {
				if k, isK := m.Val(c16V{st.Val, n.Ctx}).V.(*ssa.Const); isK && k.Value == nil {
					// nil, or the zero value of a wrapping struct
					out = append(out, c16Removal{n, "elem", m.Res(c16V{ia.Index, n.Ctx})})
				} else {
					unknown = append(unknown, n)
				}
			}
		}
		if call, ok := n.In.(*ssa.Call); ok {
			if builtinName(call) == "clear" && len(call.Call.Args) == 1 && m.isReadersLoad(c16V{call.Call.Args[0], n.Ctx}) {
				// clear(list) zeroes every slot: the same as dropping all readers
				out = append(out, c16Removal{n, "all", c16V{}})
				return
			}
			if bn := builtinName(call); bn == "clear" || bn == "copy" || bn == "append" {
				for _, a := range call.Call.Args {
					if m.isReadersLoad(c16V{a, n.Ctx}) && (bn != "append" || a == call.Call.Args[0]) && bn != "append" {
						unknown = append(unknown, n)
					}
				}
			}
		}
	})
	return
}

// cellIsPrivateStruct: a local struct variable only stored to as a whole and
// read through its fields.
func (m *c16MultiG) cellIsPrivateStruct(al *ssa.Alloc) bool {
	if _, isStruct := deref(al.Type()).Underlying().(*types.Struct); !isStruct {
		return false
	}
	for _, rr := range refs(al) {
		switch x := rr.(type) {
		case *ssa.Store:
			if x.Addr != ssa.Value(al) {
				return false
			}
		case *ssa.FieldAddr:
			for _, r2 := range refs(x) {
				if st, isStore := r2.(*ssa.Store); isStore && st.Addr == ssa.Value(x) {
					return false
				}
			}
		case *ssa.UnOp, *ssa.DebugRef:
		default:
			return false
		}
	}
	return true
}

// c16IsZeroConst: nil or the zero value of an aggregate.
func c16IsZeroConst(v ssa.Value) bool {
	k, ok := v.(*ssa.Const)
	return ok && k.Value == nil
}

func c16HasClose(t types.Type) bool {
	it, ok := t.Underlying().(*types.Interface)
	if !ok {
		return false
	}
	for i := 0; i < it.NumMethods(); i++ {
		if it.Method(i).Name() == "Close" {
			return true
		}
	}
	return false
}

func c16Multi(c *Ctx) {
	r, p := c.R, c.P
	named := p.Named("streams", "MultiReaderCloser")
	fReaders := c16FieldByType(named, "list of source readers", "readers", func(t types.Type) bool {
		sl, ok := t.Underlying().(*types.Slice)
		if !ok {
			return false
		}
		isReader := func(t types.Type) bool { return c16IsIface(t) && c16HasMethod(t, "Read") }
		if isReader(sl.Elem()) {
			return true
		}
		// a slice of small structs (by value or pointer) wrapping exactly one reader
		if st, isStruct := deref(sl.Elem()).Underlying().(*types.Struct); isStruct {
			n := 0
			for i := 0; i < st.NumFields(); i++ {
				if isReader(st.Field(i).Type()) {
					n++
				}
			}
			return n == 1
		}
		return false
	})
	read := c16Method(p, named, "Read")
	closeFn := c16Method(p, named, "Close")
	writeTo := c16Method(p, named, "WriteTo")
	if read == nil || closeFn == nil {
		undecided("MultiReaderCloser has no Read/Close method body")
	}
	mk := func(fn *ssa.Function) *c16MultiG {
		g := c16Build(p, fn)
		g.Esc = g.Escapes(fReaders, true, "io.Copy", "io.CopyBuffer")
		if g.Esc == "" {
			g.Esc = g.Escapes(fReaders, false)
		}
		return &c16MultiG{c16G: g, fReaders: fReaders}
	}

	c16MultiOwnsList(c, fReaders)
	c16MultiRead(c, mk(read))
	hasClose := false
	if writeTo != nil {
		c16MultiLoop(c, mk(writeTo), "streams.MultiReaderCloser.WriteTo", true, false)
	} else {
		r.Note("MultiReaderCloser has no WriteTo: io.Copy goes through Read (covered by the Read rules)")
		r.Trivial("C16.V3-loop", "streams.MultiReaderCloser.WriteTo loop over readers", "-", "no WriteTo fast path")
	}
	hasClose = c16MultiLoop(c, mk(closeFn), "streams.MultiReaderCloser.Close", false, true)
	_ = hasClose
}

// c16MultiOwnsList (NOTE only): does a constructor keep a caller's slice as the
// readers list? The statement of C16 quantifies over sources, chunkings, reader
// styles, buffer sizes and the consumption route of ONE stream; for all of
// those an aliased list behaves exactly like a copied one. It only differs
// when the caller rewrites the slice it passed (`NewMultiReaderCloser(parts...)`
// and reuse of parts) while the stream is live — a caller history outside that
// quantifier — so this is reported as good practice, never as a violation.
// Decided with the shared may-alias engine: the summary of every exported
// function of the package says which parameter labels reach a store into the
// list field.
func c16MultiOwnsList(c *Ctx, fReaders FieldID) {
	r, p := c.R, c.P
	t := NewTaintEngine(p)
	t.Run()
	lbl := "field:" + fReaders.Type + "." + fReaders.Field
	for _, fn := range p.FuncsOfPkg("streams") {
		if fn.Parent() != nil || !isExportedFunc(fn) {
			continue
		}
		sum := t.Sum[fn]
		if sum == nil {
			continue
		}
		for l := range sum.FieldStores[lbl] {
			var i int
			if _, err := fmt.Sscanf(l, "p%d", &i); err == nil && i < len(fn.Params) {
				if _, isSlice := fn.Params[i].Type().Underlying().(*types.Slice); isSlice {
					r.Note("%s keeps the caller's slice %q as the list of sources (no copy): a caller that passes `parts...` and reuses parts while the stream is live changes the stream's sources, and WriteTo nils the caller's entries (good practice as in io.MultiReader; outside what C16 quantifies over)", FuncName(p, fn), fn.Params[i].Name())
				}
			}
		}
	}
}

// c16MultiRead: the rules for Read (head-consuming form).
func c16MultiRead(c *Ctx, m *c16MultiG) {
	r, p := c.R, c.P
	const fname = "streams.MultiReaderCloser.Read"
	read := m.Root
	g := m.c16G

	var headReads []c16N
	g.All(func(n c16N, b *c16B) {
		if _, isCall := n.In.(*ssa.Call); isCall && g.MethodCall(n, "Read", m.isHead) {
			headReads = append(headReads, n)
		}
	})
	if len(headReads) == 0 {
		c16Absent(r, g, g.Escapes(m.fReaders, true), "C16.V1-multi", fname+" returned count", p.Pos(read.Pos()), "Read no longer reads from readers[0]")
		return
	}
	var cnts, errs []c16V
	for _, hr := range headReads {
		if v := g.Result(hr, 0); v.V != nil {
			cnts = append(cnts, g.Res(v))
		}
		if v := g.Result(hr, 1); v.V != nil {
			errs = append(errs, g.Res(v))
		}
	}
	isOneOf := func(v c16V, set []c16V) bool {
		v = g.Res(v)
		for _, s := range set {
			if s == v {
				return true
			}
		}
		return false
	}
	cntOf := func(v c16V) string {
		if isOneOf(v, cnts) {
			return "cnt"
		}
		return ""
	}
	isHeadRead := func(n c16N) bool {
		for _, hr := range headReads {
			if hr == n {
				return true
			}
		}
		return false
	}

	rem, unk := m.removals()
	for _, u := range unk {
		g.Unk(r, "unrecognised update of the readers list in %s at %s", fname, p.Pos(g.Pos(u)))
	}
	heads := map[c16N]bool{}
	for _, rm := range rem {
		if rm.Kind == "head" {
			heads[rm.N] = true
		} else {
			g.Unk(r, "%s updates the readers list in an unrecognised way (%s) at %s", fname, rm.Kind, p.Pos(g.Pos(rm.N)))
		}
	}
	hf := c16HeadFlow(m, heads, func(n c16N) bool { return isHeadRead(n) }, errs, cntOf)

	if len(heads) == 0 {
		c16Absent(r, g, "", "C16.V3-drop", fname+" drops readers[0] only after its Read failed/EOF", p.Pos(read.Pos()), "Read never advances to the next reader (no readers = readers[1:]): only the first source is ever yielded")
		return
	}
	c16Check(r, g, !hf.dropBad.IsValid(), "C16.V3-drop", fname+" drops readers[0] only after Close-if-Closer", p.Pos(c16PosOr(hf.dropBad, read.Pos())),
		"whenever the head was dropped, before Read returns or drops again it was closed if it is an io.Closer (or the read failed with http.ErrBodyReadAfterClose)",
		"readers[0] is dropped from the list and Read returns / goes on with that reader not closed (and not the ErrBodyReadAfterClose exception): a closable source is never closed — neither here nor by Close(), which only sees the remaining readers")
	c16Check(r, g, !hf.reqBad.IsValid(), "C16.V3-drop", fname+" drops readers[0] only after its Read failed/EOF", p.Pos(c16PosOr(hf.reqBad, read.Pos())),
		"the head is dropped only where its Read returned a non-nil error",
		"readers[0] is dropped on a path where its Read may have returned err == nil: the rest of that source's bytes are lost from the concatenation")
	if hf.nClose == 0 {
		c16Absent(r, g, g.Escapes(m.fReaders, true), "C16.V3-once", fname+" closed head is removed", p.Pos(read.Pos()), "Read never closes a reader that reached EOF: finished closable sources are dropped open")
	} else {
		c16Check(r, g, !hf.onceBad.IsValid(), "C16.V3-once", fname+" closed head is removed", p.Pos(c16PosOr(hf.onceBad, read.Pos())),
			"whenever Read closed the head it also removed it from readers before returning or using it again", "Read closes readers[0] and can return / read again with it still at the head: it is read after Close and closed again later")
	}
	c16Check(r, g, !hf.dataBad.IsValid(), "C16.V1-multi", fname+" reads on only after a zero-length read", p.Pos(c16PosOr(hf.dataBad, read.Pos())),
		"Read calls the next readers[0].Read only on paths where the previous count is known <= 0", "Read can loop to the next readers[0].Read although the previous one delivered bytes into p (e.g. data together with io.EOF): those bytes are overwritten and lost from the concatenation")

	// V1-multi returned count
	why, wpos := "", token.NoPos
	for _, rl := range g.ExitLeaves(0) {
		for _, lf := range rl.Leaves {
			if isOneOf(lf.Val, cnts) {
				continue
			}
			if k, ok := c16IntConst(lf.Val.V); ok && k == 0 {
				dom := false
				for _, hr := range headReads {
					if g.Dominates(g.where[hr], rl.Exit) {
						dom = true
					}
				}
				if !dom {
					continue
				}
				z := false
				for _, rel := range g.Rels(lf.Conds, cntOf) {
					if rel.X == "cnt" && rel.Y == "" && rel.impliesLE(0) {
						z = true
					}
				}
				if z {
					continue
				}
			} else if _, isConst := lf.Val.V.(*ssa.Const); !isConst {
				g.Unk(r, "%s returns a byte count the rule cannot relate to the head's Read at %s", fname, p.Pos(rl.Ret.Pos()))
				continue
			}
			why = "Read can return a byte count that is not the count of the head's Read (bytes already placed in p — e.g. data delivered together with an error/EOF — are lost)"
			wpos = rl.Ret.Pos()
		}
	}
	c16Check(r, g, why == "", "C16.V1-multi", fname+" returned count", p.Pos(c16PosOr(wpos, read.Pos())), "every return after a head read reports that read's count", why)

	// V6
	lenBase := func(v c16V) string {
		if call, ok := v.V.(*ssa.Call); ok && builtinName(call) == "len" && len(call.Call.Args) == 1 && m.isReadersLoad(c16V{call.Call.Args[0], v.Ctx}) {
			return "lenR"
		}
		return ""
	}
	why, wpos = "", token.NoPos
	nEOF, nOther := 0, 0
	for _, rl := range g.ExitLeaves(1) {
		for _, lf := range rl.Leaves {
			mayEOF := false
			switch {
			case g.IsGlobalLoad(lf.Val, "io", "EOF"):
				mayEOF = true
				if f := g.FactsAbout(lf.Conds, lf.Via); f.NotEOF || f.Nil {
					mayEOF = false
				}
			case isOneOf(lf.Val, errs):
				f := g.FactsAbout(lf.Conds, append(append([]c16V(nil), lf.Via...), lf.Val))
				mayEOF = !f.NotEOF && !f.Nil
			case g.IsNil(lf.Val):
			default:
				nOther++
			}
			if !mayEOF {
				continue
			}
			nEOF++
			empty := false
			for _, rel := range g.Rels(lf.Conds, lenBase) {
				if rel.X == "lenR" && rel.Y == "" && rel.impliesLE(0) {
					empty = true
				}
			}
			if !empty {
				why = "Read can return io.EOF on a path where len(readers) == 0 is not established: a consumer stops at the end of one source and the remaining sources are cut off the concatenation"
				wpos = rl.Ret.Pos()
			}
		}
	}
	if nEOF == 0 && nOther > 0 {
		g.Unk(r, "%s returns error values the rule cannot classify and none that is recognisably io.EOF", fname)
	} else if nEOF == 0 {
		c16Viol(r, g, "C16.V6-eof-last", fname+" io.EOF only when no reader remains", p.Pos(read.Pos()), "Read never returns io.EOF: the stream never ends")
	} else {
		c16Check(r, g, why == "", "C16.V6-eof-last", fname+" io.EOF only when no reader remains", p.Pos(c16PosOr(wpos, read.Pos())), "every return that may carry io.EOF is under len(readers) == 0", why)
	}
}

// c16HeadResult is the outcome of the head-consuming analysis.
type c16HeadResult struct {
	dropBad, reqBad, onceBad, dataBad token.Pos
	nClose, nLoads                    int
	ff                                *c16Flow
}

// c16HeadFlow analyses a function that consumes the list from its head
// (`readers = readers[1:]`). It tracks the reader currently at index 0 (the
// "head") and the one that just left the list (the "departed"), whichever
// load of readers[0] a later Close/assertion uses:
//
//	hDone    the head was closed if it is a Closer (or hit the ErrBodyReadAfterClose exception)
//	hClosed  Close was really invoked on the head
//	hReq     the requirement for dropping the head holds (Read: its Read returned a non-nil error; WriteTo: it was copied)
//	hData    (Read) the head's last Read may have delivered bytes not yet returned
//	dPending a departed reader still has to be closed-if-Closer
//
// use(n) says whether occurrence n "consumes" the head (its Read / its copy).
func c16HeadFlow(m *c16MultiG, heads map[c16N]bool, use func(n c16N) bool, errs []c16V, cntOf func(c16V) string) *c16HeadResult {
	g := m.c16G
	const (
		hDone = 1 << iota
		hClosed
		hReq
		hData
		dPending
		curShift = 8
		depShift = 16
	)
	// the loads of readers[0]
	var loads []c16V
	loadIdx := func(v c16V) int {
		v = g.Val(v)
		for i, l := range loads {
			if l == v {
				return i
			}
		}
		return -1
	}
	g.All(func(n c16N, b *c16B) {
		if v, ok := n.In.(ssa.Value); ok && m.isHead(c16V{v, n.Ctx}) && loadIdx(c16V{v, n.Ctx}) < 0 {
			loads = append(loads, g.Res(c16V{v, n.Ctx}))
		}
	})
	res := &c16HeadResult{nLoads: len(loads)}
	if len(loads) > 8 {
		undecided("more than 8 loads of readers[0] in %s", g.Root.Name())
	}
	isLoad := func(n c16N) int {
		v, ok := n.In.(ssa.Value)
		if !ok {
			return -1
		}
		if g.Res(c16V{v, n.Ctx}) != (c16V{v, n.Ctx}) {
			return -1
		}
		return loadIdx(c16V{v, n.Ctx})
	}
	// which head load does a Close / assertion operand come from
	closeTarget := func(n c16N) int {
		idx := -1
		g.MethodCall(n, "Close", func(v c16V) bool {
			if x, ok := g.CloserAssert(v); ok {
				idx = loadIdx(x)
			}
			return idx >= 0
		})
		return idx
	}
	ff := &c16Flow{G: g, Entry: 0,
		Transfer: func(n c16N, s uint32) uint32 {
			if i := isLoad(n); i >= 0 {
				s |= 1 << (curShift + uint(i))
				s &^= 1 << (depShift + uint(i))
			}
			if use(n) {
				s |= hData
				s &^= hReq
				if cntOf == nil { // copy: the requirement is the use itself
					s = (s | hReq) &^ hData
				}
			}
			if heads[n] {
				if s&hDone == 0 {
					s |= dPending
				}
				cur := (s >> curShift) & 0xff
				s &^= 0xff << curShift
				s &^= 0xff << depShift
				s |= cur << depShift
				s &^= hDone | hClosed | hReq | hData
				return s
			}
			if i := closeTarget(n); i >= 0 {
				switch {
				case s&(1<<(curShift+uint(i))) != 0:
					s |= hDone | hClosed
				case s&(1<<(depShift+uint(i))) != 0:
					s &^= dPending
				}
			}
			return s
		},
		Edge: func(conds []c16C, s uint32) (uint32, bool) {
			for _, c := range conds {
				if x, truth, ok := g.AssertOk(c); ok && !truth {
					if i := loadIdx(x); i >= 0 {
						switch {
						case s&(1<<(curShift+uint(i))) != 0:
							s |= hDone
						case s&(1<<(depShift+uint(i))) != 0:
							s &^= dPending
						}
					}
				}
				{
					if cv, truth := g.BoolCond(c); truth {
						if call, isCall := cv.V.(*ssa.Call); isCall && callIs(call, "errors", "", "Is") && len(call.Call.Args) == 2 &&
							g.IsGlobalLoad(c16V{call.Call.Args[1], cv.Ctx}, "net/http", "ErrBodyReadAfterClose") {
							s |= hDone
							if cntOf != nil {
								s |= hReq
							}
						}
					}
					if cntOf != nil {
						if g.FactsAbout([]c16C{c}, errs).NonNil {
							s |= hReq
						}
						for _, rel := range g.Rels([]c16C{c}, cntOf) {
							if rel.X == "cnt" && rel.Y == "" && rel.impliesLE(0) {
								s &^= hData
							}
						}
					}
				}
			}
			return s, true
		}}
	ff.Run()
	res.ff = ff
	g.All(func(n c16N, b *c16B) {
		if closeTarget(n) >= 0 {
			res.nClose++
		}
		if !ff.Reached(n) {
			return
		}
		if heads[n] {
			if ff.Any(n, func(s uint32) bool { return s&hReq == 0 }) {
				res.reqBad = g.Pos(n)
			}
			if ff.Any(n, func(s uint32) bool { return s&dPending != 0 }) {
				res.dropBad = g.Pos(n)
			}
		}
		if use(n) {
			if ff.Any(n, func(s uint32) bool { return s&hClosed != 0 }) {
				res.onceBad = g.Pos(n)
			}
			if cntOf != nil && ff.Any(n, func(s uint32) bool { return s&hData != 0 }) {
				res.dataBad = g.Pos(n)
			}
			if ff.Any(n, func(s uint32) bool { return s&dPending != 0 }) {
				res.dropBad = g.Pos(n)
			}
		}
	})
	ff.AtExits(func(exit *c16B, ret c16N, st map[uint32]bool) {
		if c16AnyState(st, func(s uint32) bool { return s&dPending != 0 }) {
			res.dropBad = g.Pos(ret)
		}
		if c16AnyState(st, func(s uint32) bool { return s&hClosed != 0 }) {
			res.onceBad = g.Pos(ret)
		}
	})
	return res
}

// c16Loop is a counting loop `for idx over 0..len(readers)-1`.
type c16Loop struct {
	Header  *c16B // start of every iteration (the block of the induction variable)
	Test    *c16B // the block whose test decides between another round and Exit
	If      c16N
	Idx     c16V // the value compared with len and used to index the element
	Slice   c16V // the slice value whose length bounds the loop (a load of the readers field)
	Exit    *c16B
	Blocks  map[*c16B]bool
	Why     string // non-empty: the loop does not cover 0..len-1
	Reverse bool   // runs len-1 .. 0
}

func (m *c16MultiG) readerLoops() []*c16Loop {
	g := m.c16G
	var out []*c16Loop
	lenOf := func(v c16V) (c16V, bool) {
		v = g.Res(v)
		if call, ok := v.V.(*ssa.Call); ok && builtinName(call) == "len" && len(call.Call.Args) == 1 && m.isReadersLoad(c16V{call.Call.Args[0], v.Ctx}) {
			return g.Val(c16V{call.Call.Args[0], v.Ctx}), true
		}
		if k, ok := c16IntConst(v.V); ok && m.listLen > 0 && k == m.listLen {
			return c16V{}, true // the constant length of the literal array the loop runs over
		}
		return c16V{}, false
	}
	seenTest := map[*c16B]bool{}
	// backwards loops are recognised from their test
	for _, hb := range g.Blocks {
		if len(hb.Ns) == 0 || len(hb.Succs) != 2 || !g.OnCycle(hb) {
			continue
		}
		ifn := hb.Ns[len(hb.Ns)-1]
		ifi, ok := ifn.In.(*ssa.If)
		if !ok {
			continue
		}
		cmp, ok := g.Cmp(c16C{V: g.Res(c16V{ifi.Cond, hb.Ctx}), Branch: true})
		if !ok {
			continue
		}
		if _, isL := lenOf(cmp.X); isL {
			continue
		}
		if _, isL := lenOf(cmp.Y); isL {
			continue
		}
		if lp := m.reverseLoop(hb, ifn, cmp); lp != nil {
			out = append(out, lp)
			seenTest[hb] = true
		}
	}
	// forward loops: an induction variable i = phi[c0 from outside, i+1 from inside]
	// and a test of i or i+1 against the length, at the top (while form, also the
	// rangeindex form whose body uses i+1) or at the bottom (rotated / range-over-int)
	for _, hb := range g.Blocks {
		if !g.OnCycle(hb) {
			continue
		}
		for _, pn := range hb.Ns {
			phi, ok := pn.In.(*ssa.Phi)
			if !ok {
				break
			}
			if bt, isB := phi.Type().Underlying().(*types.Basic); !isB || bt.Info()&types.IsInteger == 0 {
				continue
			}
			pv := c16V{phi, hb.Ctx}
			inLoop := func(b *c16B) bool { return b != nil && g.Reach(hb)[b] && g.Reach(b)[hb] }
			isI := func(v c16V) string {
				if v == pv {
					return "i"
				}
				return ""
			}
			start, startOK, stepOK, odd := int64(0), false, false, false
			for i, ed := range phi.Edges {
				pred, ectx := g.phiPred(hb.Ctx, phi, i)
				if pred == nil {
					continue
				}
				ev := c16V{ed, ectx}
				if !inLoop(pred) {
					if k, ok := g.IntConst(ev); ok && (!startOK || k == start) {
						start, startOK = k, true
					} else {
						odd = true
					}
					continue
				}
				if b, off, ok := g.Lin(ev, isI); ok && b == "i" && off == 1 {
					stepOK = true
				} else {
					odd = true
				}
			}
			if !startOK || odd {
				continue
			}
			for _, tb := range g.Blocks {
				if !inLoop(tb) || len(tb.Ns) == 0 || len(tb.Succs) != 2 || seenTest[tb] {
					continue
				}
				ifn := tb.Ns[len(tb.Ns)-1]
				ifi, ok := ifn.In.(*ssa.If)
				if !ok {
					continue
				}
				cmp, ok := g.Cmp(c16C{V: g.Res(c16V{ifi.Cond, tb.Ctx}), Branch: true})
				if !ok {
					continue
				}
				x, op := cmp.X, cmp.Op
				slice, isL := lenOf(cmp.Y)
				if !isL {
					if slice, isL = lenOf(cmp.X); !isL {
						continue
					}
					x, op = cmp.Y, c16Flip(cmp.Op)
				}
				bb, delta, ok := g.Lin(x, isI)
				if !ok || bb != "i" || (delta != 0 && delta != 1) {
					continue
				}
				lp := &c16Loop{Header: hb, Test: tb, If: ifn, Slice: slice, Blocks: map[*c16B]bool{}}
				cont := tb.Succs[0]
				switch op {
				case token.LSS, token.NEQ:
					lp.Exit = tb.Succs[1]
				case token.GEQ, token.EQL:
					lp.Exit, cont = tb.Succs[0], tb.Succs[1]
				default:
					lp.Exit = tb.Succs[1]
					lp.Why = "the loop over readers continues under `index " + op.String() + " len(readers)` instead of index < len: the last reader is skipped or the index overruns"
				}
				if inLoop(lp.Exit) || !inLoop(cont) {
					continue // not the loop-controlling test
				}
				for _, b := range g.Blocks {
					if inLoop(b) {
						lp.Blocks[b] = true
					}
				}
				first := int64(0) // the first index the body sees
				switch {
				case tb == hb: // tested at the top: the body sees the tested value
					lp.Idx = g.Res(x)
					first = start + delta
				case cont == hb && delta == 1: // tested at the bottom for the next round: the body sees i
					lp.Idx = pv
					first = start
				default:
					continue
				}
				if lp.Why == "" && first != 0 {
					lp.Why = "the loop over readers does not start at index 0: leading readers are skipped (never closed / copied)"
				}
				if lp.Why == "" && !stepOK {
					lp.Why = "the index of the loop over readers is not advanced by exactly 1: readers are skipped"
				}
				seenTest[tb] = true
				out = append(out, lp)
			}
		}
	}
	return out
}

// normalExit: the edge from -> to is the loop's regular way out (its test
// failing, or the guard in front of a rotated loop finding the list empty).
func (lp *c16Loop) normalExit(g *c16G, from, to *c16B) bool {
	if to != lp.Exit {
		return false
	}
	return from == lp.Test || (!lp.Blocks[from] && g.Dominates(from, lp.Header))
}

// exitClean: the loop's exit block is entered only through normal exits.
func (lp *c16Loop) exitClean(g *c16G) bool {
	for _, q := range lp.Exit.Preds {
		if !lp.normalExit(g, q, lp.Exit) {
			return false
		}
	}
	return true
}

// reverseLoop recognises `for i := len(readers)-1; i >= 0; i--`.
func (m *c16MultiG) reverseLoop(hb *c16B, ifn c16N, cmp c16Cmp) *c16Loop {
	g := m.c16G
	idx, k, op := g.Res(cmp.X), cmp.Y, cmp.Op
	if _, isPhi := idx.V.(*ssa.Phi); !isPhi {
		idx, k, op = g.Res(cmp.Y), cmp.X, c16Flip(cmp.Op)
	}
	phi, isPhi := idx.V.(*ssa.Phi)
	kv, isK := g.IntConst(k)
	if !isPhi || !isK {
		return nil
	}
	// continue while idx >= 0  (idx > -1)
	var exit *c16B
	switch {
	case (op == token.GEQ && kv == 0) || (op == token.GTR && kv == -1):
		exit = hb.Succs[1]
	case (op == token.LSS && kv == 0) || (op == token.LEQ && kv == -1):
		exit = hb.Succs[0]
	default:
		return nil
	}
	lp := &c16Loop{Header: hb, Test: hb, If: ifn, Idx: idx, Exit: exit, Blocks: map[*c16B]bool{}, Reverse: true}
	fromH := map[*c16B]bool{}
	var walk func(b *c16B)
	walk = func(b *c16B) {
		if fromH[b] || b == lp.Exit {
			return
		}
		fromH[b] = true
		for _, s := range b.Succs {
			walk(s)
		}
	}
	walk(hb)
	for b := range fromH {
		if g.Reach(b)[hb] {
			lp.Blocks[b] = true
		}
	}
	startOK, stepOK := false, false
	for i, ed := range phi.Edges {
		pred, ectx := g.phiPred(idx.Ctx, phi, i)
		if pred == nil {
			continue
		}
		ev := c16V{ed, ectx}
		if !lp.Blocks[pred] {
			b, off, ok := g.Lin(ev, func(v c16V) string {
				if call, isCall := v.V.(*ssa.Call); isCall && builtinName(call) == "len" && len(call.Call.Args) == 1 && m.isReadersLoad(c16V{call.Call.Args[0], v.Ctx}) {
					lp.Slice = g.Val(c16V{call.Call.Args[0], v.Ctx})
					return "len"
				}
				return ""
			})
			if ok && b == "len" && off == -1 {
				startOK = true
				continue
			}
			if ok && b == "len" {
				startOK = true
				lp.Why = "the backwards loop over readers does not start at the last index len(readers)-1: readers are skipped (never closed)"
				continue
			}
			return nil // not a loop over the readers
		}
		if b, off, ok := g.Lin(ev, func(v c16V) string {
			if v == idx {
				return "i"
			}
			return ""
		}); ok && b == "i" && off == -1 {
			stepOK = true
			continue
		}
		lp.Why = "the index of the backwards loop over readers is not decreased by exactly 1: readers are skipped"
	}
	if !startOK {
		return nil
	}
	if lp.Why == "" && !stepOK {
		lp.Why = "the backwards loop over readers does not run len-1, len-2, …, 0"
	}
	return lp
}

// c16MultiLoop: the rules for an entry point that walks the whole list
// (WriteTo: copy each and close it; Close: close each). Two loop forms are
// understood: a counting loop over the indices, and consuming the list from
// its head. Returns true if an obligation was recorded.
func c16MultiLoop(c *Ctx, m *c16MultiG, fname string, needCopy, isClose bool) bool {
	r, p := c.R, c.P
	g := m.c16G
	construct := fname + " loop over readers"
	if isClose {
		construct = fname + " closes remaining readers"
	}
	rem, unk := m.removals()
	for _, u := range unk {
		g.Unk(r, "unrecognised update of the readers list in %s at %s", fname, p.Pos(g.Pos(u)))
	}
	loops := m.readerLoops()
	heads := map[c16N]bool{}
	for _, rm := range rem {
		if rm.Kind == "head" {
			heads[rm.N] = true
		}
	}
	isCopyOf := func(n c16N, want func(c16V) bool) bool {
		if !(g.StaticCall(n, "io", "CopyBuffer") || g.StaticCall(n, "io", "Copy")) {
			return false
		}
		args := n.In.(ssa.CallInstruction).Common().Args
		return len(args) >= 2 && want(c16V{args[1], n.Ctx})
	}
	lenBase := func(v c16V) string {
		if call, ok := v.V.(*ssa.Call); ok && builtinName(call) == "len" && len(call.Call.Args) == 1 && m.isReadersLoad(c16V{call.Call.Args[0], v.Ctx}) {
			return "lenR"
		}
		return ""
	}
	anyCycle := false
	for _, b := range g.Blocks {
		if g.OnCycle(b) {
			anyCycle = true
		}
	}

	switch {
	case len(loops) == 0 && len(heads) > 0:
		// head-consuming form
		var useFn func(n c16N) bool
		if needCopy {
			useFn = func(n c16N) bool { return isCopyOf(n, m.isHead) }
		} else {
			useFn = func(n c16N) bool { return false }
		}
		hf := c16HeadFlow(m, heads, useFn, nil, nil)
		why, pos := "", g.Root.Pos()
		switch {
		case hf.dropBad.IsValid():
			why, pos = "a reader is dropped from the head of the list and the function returns / goes on with it not closed although it may be an io.Closer: that source is never closed", hf.dropBad
		case needCopy && hf.reqBad.IsValid():
			why, pos = "a reader is dropped from the head of the list without having been copied to w: its bytes are missing from the concatenation", hf.reqBad
		case hf.onceBad.IsValid():
			why, pos = "a reader is closed and kept at the head of the list: it is used after Close / closed a second time later", hf.onceBad
		}
		// completeness: a successful return needs the list to be empty
		for _, rm := range rem {
			if rm.Kind != "head" {
				empty := false
				for _, set := range g.CondSets(g.where[rm.N], 3) {
					_ = set
				}
				for _, rel := range g.Rels(g.DomConds(g.where[rm.N]), lenBase) {
					if rel.X == "lenR" && rel.Y == "" && rel.impliesLE(0) {
						empty = true
					}
				}
				if !empty && why == "" {
					why, pos = "readers are dropped ("+rm.Kind+") on a path where the list is not known to be empty: the remaining closable sources are never closed", g.Pos(rm.N)
				}
			}
		}
		if isClose && why == "" {
			for _, eb := range g.Exits {
				okExit := false
				for _, set := range g.CondSets(eb, 3) {
					ok := false
					for _, rel := range g.Rels(set, lenBase) {
						if rel.X == "lenR" && rel.Y == "" && rel.impliesLE(0) {
							ok = true
						}
					}
					okExit = ok
					if !ok {
						break
					}
				}
				if !okExit {
					why, pos = "Close can return on a path where len(readers) == 0 is not established: the remaining sources stay open", g.Pos(eb.Ns[len(eb.Ns)-1])
				}
			}
		}
		c16Check(r, g, why == "", "C16.V3-loop", construct, p.Pos(pos), "the list is consumed from its head; every reader dropped was "+map[bool]string{true: "copied and ", false: ""}[needCopy]+"closed-if-Closer", why)
		return true

	case len(loops) == 0:
		if anyCycle {
			g.Unk(r, "%s loops in a form the rule does not recognise (neither index 0..len-1 nor head-consuming)", fname)
			return false
		}
		bad := false
		for _, rm := range rem {
			bad = true
			c16Viol(r, g, "C16.V3-drop", fname+" drops readers after closing them", p.Pos(g.Pos(rm.N)), "readers are dropped ("+rm.Kind+") in a function that does not loop over them closing each io.Closer: closable sources are never closed")
		}
		esc := g.Escapes(m.fReaders, true)
		if esc == "" {
			esc = g.Escapes(m.fReaders, false)
		}
		if isClose {
			c16Absent(r, g, esc, "C16.V3-loop", construct, p.Pos(g.Root.Pos()), "Close no longer loops over the remaining readers closing each io.Closer")
			return true
		}
		if !bad && needCopy {
			c16Absent(r, g, esc, "C16.V3-loop", construct, p.Pos(g.Root.Pos()), "WriteTo no longer loops over the readers copying each one")
			return true
		}
		return bad

	case len(loops) > 1 || len(heads) > 0:
		r.Undecide("%s has %d counting loops over readers and %d head drops; rule written for one form", fname, len(loops), len(heads))
		return false
	}

	lp := loops[0]
	isElem := func(v c16V) bool {
		idx, ok := m.elemIndex(v)
		return ok && idx == lp.Idx
	}
	const (
		sHandled = 1 << iota
		sDropped
		sCopied
		sClosed
	)
	hdr := lp.Header.Ns[0]
	ff := &c16Flow{G: g, Entry: 0,
		Transfer: func(n c16N, s uint32) uint32 {
			if n == hdr {
				s = 0
			}
			if m.closeOf(n, isElem) {
				return s | sHandled | sClosed
			}
			if isCopyOf(n, isElem) {
				return s | sCopied
			}
			if st, ok := n.In.(*ssa.Store); ok {
				if ia, ok := st.Addr.(*ssa.IndexAddr); ok && m.isReadersLoad(c16V{ia.X, n.Ctx}) && g.Res(c16V{ia.Index, n.Ctx}) == lp.Idx && c16IsZeroConst(g.Val(c16V{st.Val, n.Ctx}).V) {
					return s | sDropped
				}
			}
			return s
		},
		Edge: func(conds []c16C, s uint32) (uint32, bool) {
			for _, c := range conds {
				if x, truth, ok := g.AssertOk(c); ok && !truth && isElem(x) {
					s |= sHandled
				}
			}
			return s, true
		}}
	ff.Run()
	why := lp.Why
	pos := g.Pos(lp.If)
	var early []*c16B
	for _, b := range g.Blocks {
		if !lp.Blocks[b] {
			continue
		}
		for _, s := range b.Succs {
			es := ff.OutEdge(b, s)
			last := b.Ns[len(b.Ns)-1]
			switch {
			case s == lp.Header:
				if c16AnyState(es, func(x uint32) bool { return x&sHandled == 0 }) {
					why = "an iteration can move on to the next reader with the current one neither closed (if it is an io.Closer) nor kept for Close(): once the list is dropped / the element nil-ed that source is never closed (e.g. io.Copy(dst, mr) followed by mr.Close() closes nothing)"
					pos = g.Pos(last)
				} else if needCopy && c16AnyState(es, func(x uint32) bool { return x&sCopied == 0 }) {
					why = "an iteration of the WriteTo loop can finish without copying the current reader to w: its bytes are missing from the concatenation"
					pos = g.Pos(last)
				}
			case !lp.Blocks[s] && s != lp.Exit:
				early = append(early, s)
				if c16AnyState(es, func(x uint32) bool { return x&sDropped != 0 && x&sHandled == 0 }) {
					why = "the loop is left early after nil-ing the current reader without closing it"
					pos = g.Pos(last)
				}
			case !lp.Blocks[s] && s == lp.Exit && !lp.normalExit(g, b, s):
				early = append(early, s)
			}
		}
	}
	dominatedByAny := func(b *c16B, ds []*c16B) bool {
		for _, d := range ds {
			if g.Dominates(d, b) {
				return true
			}
		}
		return false
	}
	for _, rm := range rem {
		rb := g.where[rm.N]
		switch rm.Kind {
		case "prefix":
			if lp.Reverse {
				g.Unk(r, "%s re-slices the list inside a backwards loop at %s", fname, p.Pos(g.Pos(rm.N)))
				continue
			}
			b, off, ok := g.Lin(rm.Index, func(v c16V) string {
				if v == lp.Idx {
					return "i"
				}
				return ""
			})
			handled := !ff.Any(rm.N, func(x uint32) bool { return x&sHandled == 0 })
			if !lp.Blocks[rb] && !dominatedByAny(rb, early) {
				why = "readers is re-sliced from a variable index outside the loop over it"
				pos = g.Pos(rm.N)
			} else if ok && b == "i" && off == 0 && ff.Any(rm.N, func(x uint32) bool { return x&sClosed != 0 && x&sDropped == 0 }) {
				why = "the current reader was closed and is then kept at the head of readers (re-slice from its own index): a retry reads a closed source and Close() closes it a second time"
				pos = g.Pos(rm.N)
			} else if !(ok && b == "i" && (off == 0 || (off == 1 && handled))) {
				why = "readers is re-sliced to start after the current reader although that one was not closed (it is dropped unclosed), or from an unrelated index"
				pos = g.Pos(rm.N)
			}
		case "all":
			okDom := lp.exitClean(g) && g.Dominates(lp.Exit, rb)
			for _, eb := range early {
				if g.Reach(eb)[rb] {
					okDom = false
				}
			}
			// "detach, then walk the detached list": the list is emptied before the
			// loop, which runs over a load taken before that store, cannot be left
			// early, and every return comes after its normal exit
			if !okDom && len(early) == 0 && g.Dominates(rb, lp.Header) && lp.Slice.V != nil {
				if ld, isInstr := lp.Slice.V.(ssa.Instruction); isInstr && g.NDominates(c16N{In: ld, Ctx: lp.Slice.Ctx}, rm.N) {
					okDom = true
					for _, eb := range g.Exits {
						if g.Reach(rb)[eb] && !g.Dominates(lp.Exit, eb) {
							okDom = false
						}
					}
				}
			}
			if !okDom {
				why = "all readers are dropped on a path that did not run the closing loop to its end: the remaining closable sources are never closed"
				pos = g.Pos(rm.N)
			}
		}
	}
	if isClose {
		if len(early) > 0 && why == "" {
			why = "Close can leave its loop before the last reader: the remaining sources stay open"
		}
		c16Check(r, g, why == "", "C16.V3-loop", construct, p.Pos(pos), "Close visits readers 0..len-1 and closes every io.Closer", why)
	} else {
		c16Check(r, g, why == "", "C16.V3-loop", construct, p.Pos(pos), "each iteration copies the reader and leaves it closed-if-Closer or still listed", why)
	}
	return true
}

// ---------------------------------------------------------------- tee

func c16Tee(c *Ctx) {
	r, p := c.R, c.P
	named := p.Named("streams", "TeeReadCloser")
	fr := c16FieldByType(named, "source reader", "r", func(t types.Type) bool {
		return c16IsIface(t) && c16HasMethod(t, "Read") && !c16HasMethod(t, "Write")
	})
	fw := c16FieldByType(named, "tee writer", "w", func(t types.Type) bool {
		return c16IsIface(t) && c16HasMethod(t, "Write") && !c16HasMethod(t, "Read")
	})
	read := c16Method(p, named, "Read")
	closeFn := c16Method(p, named, "Close")
	if read == nil || closeFn == nil {
		undecided("TeeReadCloser has no Read/Close method body")
	}
	const rname = "streams.TeeReadCloser.Read"
	g := c16Build(p, read)
	g.Esc = g.Escapes(fr, false)
	if g.Esc == "" {
		g.Esc = g.Escapes(fw, false)
	}

	var srcs, writes []c16N
	g.All(func(n c16N, b *c16B) {
		if _, isCall := n.In.(*ssa.Call); !isCall {
			return
		}
		if g.MethodCall(n, "Read", func(v c16V) bool { return g.IsFieldLoad(v, fr) }) {
			srcs = append(srcs, n)
		}
		if g.MethodCall(n, "Write", func(v c16V) bool { return g.IsFieldLoad(v, fw) }) {
			writes = append(writes, n)
		}
	})
	if len(srcs) != 1 {
		if len(srcs) == 0 {
			c16Absent(r, g, g.Escapes(fr, false), "C16.V5-tee", rname+" Write(p[:n])", p.Pos(read.Pos()), "Read no longer reads from the source reader")
		} else {
			r.Undecide("TeeReadCloser.Read reads the source at %d sites", len(srcs))
		}
		return
	}
	src := srcs[0]
	srcB := g.where[src]
	cnt := g.Res(g.Result(src, 0))
	if cnt.V == nil || len(read.Params) < 2 {
		c16Viol(r, g, "C16.V5-tee", rname+" Write(p[:n])", p.Pos(g.Pos(src)), "the byte count of the source's Read is discarded")
		return
	}
	buf := c16V{read.Params[1], nil}
	isCnt := func(v c16V) bool {
		ls := g.Leaves(v)
		if len(ls) == 0 {
			return false
		}
		for _, l := range ls {
			if l.Val != cnt {
				return false
			}
		}
		return true
	}
	cntBase := func(v c16V) string {
		if isCnt(v) {
			return "cnt"
		}
		return ""
	}
	isBuf := func(v c16V) bool {
		ls := g.Leaves(v)
		if len(ls) == 0 {
			return false
		}
		for _, l := range ls {
			if l.Val != buf {
				return false
			}
		}
		return true
	}
	goodWrite := map[c16N]bool{}
	argWhy, argUnknown := "", ""
	if a := g.CallArgs(src); len(a) != 1 || !isBuf(a[0]) {
		argUnknown = "the source does not read into the caller's buffer p itself"
	}
	// rangeOf: v denotes p[0:hi]; hi is "cnt", "len" (whole buffer) or "?" (unknown); ok=false if v is not a prefix of p
	var rangeOf func(v c16V, depth int) (string, bool)
	rangeOf = func(v c16V, depth int) (string, bool) {
		v = g.Val(v)
		if v == buf {
			return "len", true
		}
		sl, isSl := v.V.(*ssa.Slice)
		if !isSl || depth > 4 {
			return "", false
		}
		if sl.Low != nil {
			if k, isK := g.IntConst(c16V{sl.Low, v.Ctx}); !isK || k != 0 {
				return "", false
			}
		}
		inner, ok := rangeOf(c16V{sl.X, v.Ctx}, depth+1)
		if !ok {
			return "", false
		}
		if sl.High == nil {
			return inner, true
		}
		hv := g.Val(c16V{sl.High, v.Ctx})
		if isCnt(hv) {
			return "cnt", true
		}
		if call, isCall := hv.V.(*ssa.Call); isCall && builtinName(call) == "len" && len(call.Call.Args) == 1 {
			if h2, ok2 := rangeOf(c16V{call.Call.Args[0], hv.Ctx}, depth+1); ok2 {
				return h2, true
			}
		}
		if _, isK := hv.V.(*ssa.Const); isK {
			return "const", true
		}
		return "?", true
	}
	for _, w := range writes {
		a := g.CallArgs(w)
		hi, ok := "", false
		if len(a) == 1 {
			hi, ok = rangeOf(a[0], 0)
		}
		switch {
		case ok && hi == "cnt" && g.NDominates(src, w):
			goodWrite[w] = true
		case ok && (hi == "len" || hi == "const"):
			argWhy = "the writer's Write is called with something other than p[:n] of this read (the whole buffer / a fixed length): the writer does not receive exactly the bytes the consumer gets"
		default:
			argUnknown = "the writer's Write is called with a buffer the rule cannot relate to p[:n] at " + p.Pos(g.Pos(w))
		}
	}
	if len(writes) == 0 {
		if esc := g.Escapes(fw, false); esc != "" {
			argUnknown = "the tee writer is handed to " + esc + " instead of being written to directly"
		} else {
			argWhy = "Read no longer writes to the tee writer"
		}
	}
	if argWhy == "" && argUnknown != "" {
		g.Unk(r, "C16.V5-tee: %s", argUnknown)
	}
	c16Check(r, g, argWhy == "", "C16.V5-tee", rname+" Write(p[:n])", p.Pos(g.Pos(src)), "every Write to the tee writer in Read receives p[:n] with n the count of this read", argWhy)

	// every path from the read to a return writes, or has n <= 0
	ff := &c16Flow{G: g, Entry: 1,
		Transfer: func(n c16N, s uint32) uint32 {
			if n == src {
				return 0
			}
			if goodWrite[n] {
				return 1
			}
			return s
		},
		Edge: func(conds []c16C, s uint32) (uint32, bool) {
			for _, rel := range g.Rels(conds, cntBase) {
				if rel.X == "cnt" && rel.Y == "" && rel.impliesLE(0) {
					return 1, true
				}
			}
			return s, true
		}}
	ff.Run()
	bad := token.NoPos
	ff.AtExits(func(exit *c16B, ret c16N, st map[uint32]bool) {
		if c16AnyState(st, func(s uint32) bool { return s&1 == 0 }) {
			bad = g.Pos(ret)
		}
	})
	c16Check(r, g, !bad.IsValid(), "C16.V5-tee", rname+" writes before returning", p.Pos(c16PosOr(bad, read.Pos())),
		"every return after the source read is preceded by Write(p[:n]) or by the fact n <= 0", "Read can return bytes to the consumer (n > 0, e.g. data delivered together with an error/EOF) without having written them to the tee writer: the writer misses bytes the consumer received")

	// returned count
	why, wpos := "", token.NoPos
	post := g.Reach(srcB)
	for _, rl := range g.ExitLeaves(0) {
		if !post[rl.Exit] || !g.Dominates(srcB, rl.Exit) {
			continue
		}
		for _, lf := range rl.Leaves {
			if g.IsCount(lf, cnt) {
				continue
			}
			okW := false
			for _, w := range writes {
				if wn := g.Result(w, 0); wn.V != nil && g.Res(wn) == lf.Val {
					if we := g.Result(w, 1); we.V != nil && g.FactsAbout(lf.Conds, []c16V{we}).NonNil {
						okW = true
					}
				}
			}
			// a zero count reported where the source's count is known <= 0 ... is still the source's count only if == 0
			if !okW {
				why = "Read reports a count that is neither the source's count nor the writer's count on a write error: the consumer gets fewer/more bytes than were read and teed"
				wpos = rl.Ret.Pos()
			}
		}
	}
	c16Check(r, g, why == "", "C16.V5-tee", rname+" returned count", p.Pos(c16PosOr(wpos, read.Pos())), "after the read, Read returns the source's count (or the writer's on a write error)", why)

	// Close closes r if Closer
	{
		const cname = "streams.TeeReadCloser.Close"
		gc := c16Build(p, closeFn)
		gc.Esc = gc.Escapes(fr, false)
		isR := func(v c16V) bool { return gc.IsFieldLoad(v, fr) }
		afterLiteralLoop := c16LiteralLoopsClosing(gc, isR)
		if len(afterLiteralLoop) > 0 {
			gc.Esc = "" // the local aggregate the source was put into is understood
		}
		fc := &c16Flow{G: gc, Entry: 0,
			Transfer: func(n c16N, s uint32) uint32 {
				if afterLiteralLoop[n] {
					s |= 1
				}
				if gc.MethodCall(n, "Close", func(v c16V) bool {
					if isR(v) {
						return true
					}
					x, ok := gc.CloserAssert(v)
					return ok && isR(x)
				}) {
					return s | 1
				}
				return s
			},
			Edge: func(conds []c16C, s uint32) (uint32, bool) {
				for _, c := range conds {
					if x, truth, ok := gc.AssertOk(c); ok && !truth && isR(x) {
						return s | 1, true
					}
					if cmp, ok := gc.Cmp(c); ok && cmp.Op == token.EQL {
						if (isR(cmp.X) && gc.IsNil(cmp.Y)) || (isR(cmp.Y) && gc.IsNil(cmp.X)) {
							return s | 1, true
						}
					}
				}
				return s, true
			}}
		fc.Run()
		bad := token.NoPos
		n := 0
		fc.AtExits(func(exit *c16B, ret c16N, st map[uint32]bool) {
			n++
			if c16AnyState(st, func(s uint32) bool { return s&1 == 0 }) {
				bad = gc.Pos(ret)
			}
		})
		// an exit guarded by a fact about another field of the wrapper (a closed /
		// stopped flag in value+flag form) may be the "already closed" case
		if bad.IsValid() {
			for _, eb := range gc.Exits {
				for _, set := range gc.CondSets(eb, 3) {
					for _, c := range set {
						vals := []c16V{}
						if cmp, ok := gc.Cmp(c); ok {
							vals = append(vals, cmp.X, cmp.Y)
						} else if cv, _ := gc.BoolCond(c); cv.V != nil {
							vals = append(vals, cv)
						}
						for _, v := range vals {
							v = gc.Val(v)
							if u, ok := v.V.(*ssa.UnOp); ok && u.Op == token.MUL {
								if fa, ok := u.X.(*ssa.FieldAddr); ok && fieldIDOfAddr(fa) != fr {
									if _, isB := u.Type().Underlying().(*types.Basic); isB {
										gc.Unk(r, "%s has a return guarded by the flag field %s; whether it means 'already closed' is not decided", cname, fieldIDOfAddr(fa).Field)
									}
								}
							}
						}
					}
				}
			}
		}
		c16Check(r, gc, !bad.IsValid() && n > 0, "C16.V4-tee-close", cname+" closes the source", p.Pos(c16PosOr(bad, closeFn.Pos())),
			"every return of Close has closed the source reader if it is an io.Closer", "TeeReadCloser.Close can return without closing the source reader although it is an io.Closer")
		cleared := false
		gc.All(func(n c16N, b *c16B) {
			if st := c16FieldStore(n.In, fr); st != nil && gc.IsNil(c16V{st.Val, n.Ctx}) {
				cleared = true
			}
		})
		if !cleared {
			r.Note("TeeReadCloser.Close no longer sets the source reader field to nil after closing it: a second Close() would close the source again (good practice; C16 only quantifies over one Close)")
		}
	}
}
