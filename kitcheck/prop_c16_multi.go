package main

import (
	"go/token"
	"go/types"
	"strings"

	"golang.org/x/tools/go/ssa"
)

// ---------------------------------------------------------------- multi

// c16Removal is one update of MultiReaderCloser.readers.
type c16Removal struct {
	Store *ssa.Store
	Kind  string    // "head" (readers[1:]), "all" (nil / [:0]), "prefix" (readers[v:]), "elem" (readers[v] = nil)
	Index ssa.Value // for prefix / elem
}

func c16Multi(c *Ctx) {
	r, p := c.R, c.P
	named := p.Named("streams", "MultiReaderCloser")
	fReaders := c16Field(named, "readers")
	read := p.Func("streams", "MultiReaderCloser.Read")
	closeFn := p.Func("streams", "MultiReaderCloser.Close")
	writeTo := p.FuncOpt("streams", "MultiReaderCloser.WriteTo")

	// methods (and their closures) of the type
	var methods []*ssa.Function
	for _, fn := range p.FuncsOfPkg("streams") {
		top := fn
		for top.Parent() != nil {
			top = top.Parent()
		}
		if recv := top.Signature.Recv(); recv != nil && typeBaseName(recv.Type()) == "MultiReaderCloser" {
			methods = append(methods, fn)
		}
	}
	// functions on the WriteTo path (static calls inside the method set)
	onWritePath := map[*ssa.Function]bool{}
	if writeTo != nil {
		var mark func(fn *ssa.Function)
		mark = func(fn *ssa.Function) {
			if onWritePath[fn] {
				return
			}
			onWritePath[fn] = true
			allInstrs(fn, func(in ssa.Instruction) {
				if ci, ok := in.(ssa.CallInstruction); ok {
					if cal := staticCallee(ci); cal != nil {
						for _, m := range methods {
							if m == cal {
								mark(cal)
							}
						}
					}
				}
			})
		}
		mark(writeTo)
	}

	isReadersLoad := func(v ssa.Value) bool { return c16IsFieldLoad(v, fReaders) }
	// element i of the readers slice: *(&S[i]) with S a load of readers
	elemIndex := func(v ssa.Value) (ssa.Value, bool) {
		v = c16Unconv(v)
		if u, ok := v.(*ssa.UnOp); ok && u.Op == token.MUL {
			if ia, ok := u.X.(*ssa.IndexAddr); ok && isReadersLoad(ia.X) {
				return ia.Index, true
			}
		}
		return nil, false
	}
	isHead := func(v ssa.Value) bool {
		idx, ok := elemIndex(v)
		if !ok {
			return false
		}
		k, ok := c16IntConst(idx)
		return ok && k == 0
	}

	removals := func(fn *ssa.Function) (out []c16Removal, unknown []ssa.Instruction) {
		allInstrs(fn, func(in ssa.Instruction) {
			if st := c16FieldStore(in, fReaders); st != nil {
				v := c16Unconv(st.Val)
				if isNilConst(v) {
					out = append(out, c16Removal{st, "all", nil})
					return
				}
				if sl, ok := v.(*ssa.Slice); ok && isReadersLoad(sl.X) && sl.Max == nil {
					lowK, lowConst := int64(0), sl.Low == nil
					if sl.Low != nil {
						lowK, lowConst = c16IntConst(sl.Low)
					}
					if sl.High != nil {
						if hk, ok := c16IntConst(sl.High); ok && hk == 0 {
							out = append(out, c16Removal{st, "all", nil})
							return
						}
						unknown = append(unknown, in)
						return
					}
					switch {
					case lowConst && lowK == 0:
						return // readers[0:] keeps everything
					case lowConst && lowK == 1:
						out = append(out, c16Removal{st, "head", nil})
					case lowConst:
						unknown = append(unknown, in)
					default:
						out = append(out, c16Removal{st, "prefix", sl.Low})
					}
					return
				}
				unknown = append(unknown, in)
				return
			}
			if st, ok := in.(*ssa.Store); ok {
				if ia, ok := st.Addr.(*ssa.IndexAddr); ok && isReadersLoad(ia.X) {
					if isNilConst(st.Val) {
						out = append(out, c16Removal{st, "elem", ia.Index})
					} else {
						unknown = append(unknown, in)
					}
				}
			}
		})
		return
	}

	// --- Read: head drops
	rname := FuncName(p, read)
	var headReads []*ssa.Call
	allInstrs(read, func(in ssa.Instruction) {
		if ci, ok := c16InvokeOn(in, "Read", isHead); ok {
			if call, ok := ci.(*ssa.Call); ok {
				headReads = append(headReads, call)
			}
		}
	})
	if len(headReads) == 0 {
		r.Violation("C16.V1-multi", rname+" returned count", p.Pos(read.Pos()), "MultiReaderCloser.Read no longer reads from readers[0]")
		return
	}
	var cnts, errs []ssa.Value
	for _, hr := range headReads {
		if v := callResult(hr, 0); v != nil {
			cnts = append(cnts, v)
		}
		if v := callResult(hr, 1); v != nil {
			errs = append(errs, v)
		}
	}
	isCloseOfHead := func(in ssa.Instruction, want func(ssa.Value) bool) bool {
		call, ok := in.(*ssa.Call)
		if !ok {
			return false
		}
		_, ok = c16InvokeOn(call, "Close", func(v ssa.Value) bool {
			ta := c16CloserAssert(v)
			return ta != nil && want(ta.X)
		})
		return ok
	}
	var headVals []ssa.Value
	for _, hr := range headReads {
		headVals = append(headVals, c16Unconv(hr.Call.Value))
	}
	isHeadVal := func(v ssa.Value) bool {
		v = c16Unconv(v)
		for _, h := range headVals {
			if h == v {
				return true
			}
		}
		return false
	}
	// Per read of the head (reset at every readers[0].Read): which of
	// {closed-if-Closer or exception, Close really invoked, dropped from the
	// list, read returned non-nil error} hold. Checked at the commit points:
	// every return and every next head read.
	const (
		fDone = 1 << iota
		fClosed
		fDropped
		fNonNil
		fData // the head's Read may have delivered bytes (count not yet known <= 0)
	)
	cntOf := func(v ssa.Value) string {
		v = c16Unconv(v)
		for _, cv := range cnts {
			if cv == v {
				return "cnt"
			}
		}
		return ""
	}
	anySt := func(st uint64, pred func(x int) bool) bool {
		for i := 0; i < 64; i++ {
			if st&(1<<uint(i)) != 0 && pred(i) {
				return true
			}
		}
		return false
	}
	nCloseInRead := 0
	const fDataState = fData // state index holding only fData
	for _, fn := range methods {
		rem, unk := removals(fn)
		fname := FuncName(p, fn)
		for _, u := range unk {
			r.Undecide("unrecognised update of MultiReaderCloser.readers in %s at %s", fname, p.Pos(instrPos(u)))
		}
		heads := map[ssa.Instruction]bool{}
		for _, rm := range rem {
			if rm.Kind == "head" {
				heads[rm.Store] = true
			} else if fn == read {
				r.Undecide("MultiReaderCloser.Read updates readers in an unrecognised way (%s) at %s", rm.Kind, p.Pos(instrPos(rm.Store)))
			}
		}
		if len(heads) == 0 && fn != read {
			continue
		}
		if fn != read {
			r.Undecide("%s drops readers[0]; the head-drop rule is written for Read", fname)
			continue
		}
		isHeadRead := func(in ssa.Instruction) bool {
			for _, hr := range headReads {
				if ssa.Instruction(hr) == in {
					return true
				}
			}
			return false
		}
		ff := &FlagFlow{Fn: fn, Must: false, Entry: 1 << 0,
			Transfer: func(in ssa.Instruction, st uint64) uint64 {
				if isHeadRead(in) {
					return 1 << fDataState
				}
				if heads[in] {
					return mapStates(st, func(x int) int { return x | fDropped })
				}
				if isCloseOfHead(in, isHeadVal) {
					return mapStates(st, func(x int) int { return x | fDone | fClosed })
				}
				return st
			},
			EdgeTransfer: func(from, to *ssa.BasicBlock, st uint64) uint64 {
				add := 0
				if ta, truth, ok := c16AssertOkEdge(from, to); ok && !truth && isHeadVal(ta.X) && c16HasClose(ta.AssertedType) {
					add |= fDone
				}
				if dc, ok := c16EdgeCond(from, to); ok {
					if call, truth, ok := boolCallCond(dc.If.Cond, dc.Branch); ok && truth && callIs(call, "errors", "", "Is") && len(call.Call.Args) == 2 &&
						c16IsGlobalLoad(call.Call.Args[1], "net/http", "ErrBodyReadAfterClose") {
						add |= fDone | fNonNil
					}
					if c16FactsAbout([]DomCond{dc}, errs).NonNil {
						add |= fNonNil
					}
				}
				clr := 0
				if dc, ok := c16EdgeCond(from, to); ok {
					for _, rel := range c16Rels([]DomCond{dc}, cntOf) {
						if rel.X == "cnt" && rel.Y == "" && rel.impliesLE(0) {
							clr = fData
						}
					}
				}
				if add == 0 && clr == 0 {
					return st
				}
				return mapStates(st, func(x int) int { return (x | add) &^ clr })
			}}
		ff.Run()
		allInstrs(fn, func(in ssa.Instruction) {
			if isCloseOfHead(in, isHeadVal) {
				nCloseInRead++
			}
		})
		dropBad, nonNilBad, onceBad, dataBad := token.NoPos, token.NoPos, token.NoPos, token.NoPos
		commit := func(st uint64, pos token.Pos) {
			if anySt(st, func(x int) bool { return x&fDropped != 0 && x&fDone == 0 }) {
				dropBad = pos
			}
			if anySt(st, func(x int) bool { return x&fClosed != 0 && x&fDropped == 0 }) {
				onceBad = pos
			}
		}
		ff.AtReturns(func(ret *ssa.Return, st uint64) { commit(st, ret.Pos()) })
		for _, hr := range headReads {
			if st, ok := ff.Before(hr); ok {
				commit(st, hr.Pos())
				if anySt(st, func(x int) bool { return x&fData != 0 }) {
					dataBad = hr.Pos()
				}
			}
		}
		r.Check(!dataBad.IsValid(), "C16.V1-multi", fname+" reads on only after a zero-length read", p.Pos(c16PosOr(dataBad, fn.Pos())),
			"Read calls the next readers[0].Read only on paths where the previous count is known <= 0", "Read can loop to the next readers[0].Read although the previous one delivered bytes into p (e.g. data together with io.EOF): those bytes are overwritten and lost from the concatenation")
		for s := range heads {
			if st, ok := ff.Before(s); ok && anySt(st, func(x int) bool { return x&fNonNil == 0 }) {
				nonNilBad = instrPos(s)
			}
		}
		if len(heads) == 0 {
			r.Violation("C16.V3-drop", fname+" drops readers[0] only after its Read failed/EOF", p.Pos(fn.Pos()), "Read never advances to the next reader (no readers = readers[1:]): only the first source is ever yielded")
			continue
		}
		r.Check(!dropBad.IsValid(), "C16.V3-drop", fname+" drops readers[0] only after Close-if-Closer", p.Pos(c16PosOr(dropBad, fn.Pos())),
			"whenever the head was dropped, before Read returns or reads again it was closed if it is an io.Closer (or the read failed with http.ErrBodyReadAfterClose)",
			"readers[0] is dropped from the list and Read returns / reads on with that reader not closed (and not the ErrBodyReadAfterClose exception): a closable source is never closed — neither here nor by Close(), which only sees the remaining readers")
		r.Check(!nonNilBad.IsValid(), "C16.V3-drop", fname+" drops readers[0] only after its Read failed/EOF", p.Pos(c16PosOr(nonNilBad, fn.Pos())),
			"the head is dropped only where its Read returned a non-nil error",
			"readers[0] is dropped on a path where its Read may have returned err == nil: the rest of that source's bytes are lost from the concatenation")
		if nCloseInRead == 0 {
			r.Violation("C16.V3-once", fname+" closed head is removed", p.Pos(fn.Pos()), "Read never closes a reader that reached EOF: finished closable sources are dropped open")
		} else {
			r.Check(!onceBad.IsValid(), "C16.V3-once", fname+" closed head is removed", p.Pos(c16PosOr(onceBad, fn.Pos())),
				"whenever Read closed the head it also removed it from readers before returning or reading again", "Read closes readers[0] and can return / read again with it still at the head: it is read after Close and closed again later")
		}
	}

	// V1-multi + V6-eof-last
	{
		isOneOf := func(v ssa.Value, set []ssa.Value) bool {
			v = c16Unconv(v)
			for _, s := range set {
				if s == v {
					return true
				}
			}
			return false
		}
		why, wpos := "", token.NoPos
		for _, rl := range c16ReturnLeaves(read, 0) {
			for _, lf := range rl.Leaves {
				if isOneOf(lf.Val, cnts) {
					continue
				}
				if k, ok := c16IntConst(lf.Val); ok && k == 0 {
					dom := false
					for _, hr := range headReads {
						if hr.Block().Dominates(rl.Ret.Block()) {
							dom = true
						}
					}
					if !dom {
						continue
					}
					// zero is fine if the count is known <= 0
					z := false
					for _, rel := range c16Rels(lf.Conds, func(v ssa.Value) string {
						if isOneOf(v, cnts) {
							return "cnt"
						}
						return ""
					}) {
						if rel.X == "cnt" && rel.Y == "" && rel.impliesLE(0) {
							z = true
						}
					}
					if z {
						continue
					}
				}
				why = "Read can return a byte count that is not the count of the head's Read (bytes already placed in p — e.g. data delivered together with an error/EOF — are lost)"
				wpos = rl.Ret.Pos()
			}
		}
		r.Check(why == "", "C16.V1-multi", rname+" returned count", p.Pos(c16PosOr(wpos, read.Pos())), "every return after a head read reports that read's count", why)

		lenBase := func(v ssa.Value) string {
			if call, ok := v.(*ssa.Call); ok && builtinName(call) == "len" && len(call.Call.Args) == 1 && isReadersLoad(call.Call.Args[0]) {
				return "lenR"
			}
			return ""
		}
		why, wpos = "", token.NoPos
		nEOF := 0
		for _, rl := range c16ReturnLeaves(read, 1) {
			for _, lf := range rl.Leaves {
				mayEOF := false
				switch {
				case c16IsGlobalLoad(lf.Val, "io", "EOF"):
					mayEOF = true
					if f := c16FactsAbout(lf.Conds, lf.Via); f.NotEOF || f.Nil {
						mayEOF = false
					}
				case isOneOf(lf.Val, errs):
					f := c16FactsAbout(lf.Conds, append(append([]ssa.Value(nil), lf.Via...), lf.Val))
					mayEOF = !f.NotEOF && !f.Nil
				}
				if !mayEOF {
					continue
				}
				nEOF++
				empty := false
				for _, rel := range c16Rels(lf.Conds, lenBase) {
					if rel.X == "lenR" && rel.Y == "" && rel.impliesLE(0) {
						empty = true
					}
				}
				if !empty {
					why = "Read can return io.EOF on a path where len(readers) == 0 is not established: a consumer stops at the end of one source and the remaining sources are cut off the concatenation"
					wpos = rl.Ret.Pos()
				}
			}
		}
		if nEOF == 0 {
			r.Violation("C16.V6-eof-last", rname+" io.EOF only when no reader remains", p.Pos(read.Pos()), "Read never returns io.EOF: the stream never ends")
		} else {
			r.Check(why == "", "C16.V6-eof-last", rname+" io.EOF only when no reader remains", p.Pos(c16PosOr(wpos, read.Pos())), "every return that may carry io.EOF is under len(readers) == 0", why)
		}
	}

	// --- loops over readers (WriteTo path, Close)
	closeHasLoop := false
	for _, fn := range methods {
		if fn == read {
			continue
		}
		rem, _ := removals(fn)
		loops := c16ReaderLoops(fn, isReadersLoad)
		fname := FuncName(p, fn)
		if len(loops) == 0 {
			for _, rm := range rem {
				if rm.Kind != "head" {
					r.Violation("C16.V3-drop", fname+" drops readers after closing them", p.Pos(instrPos(rm.Store)), "readers are dropped ("+rm.Kind+") in a function that does not loop over them closing each io.Closer: closable sources are never closed")
				}
			}
			continue
		}
		if len(loops) > 1 {
			r.Undecide("%s has %d loops over readers; rule written for one", fname, len(loops))
			continue
		}
		lp := loops[0]
		isElem := func(v ssa.Value) bool {
			idx, ok := elemIndex(v)
			return ok && idx == lp.Idx
		}
		needCopy := onWritePath[fn]
		const (
			sHandled = 1 << iota
			sDropped
			sCopied
			sClosed
		)
		ff := &FlagFlow{Fn: fn, Must: false, Entry: 1 << 0,
			Transfer: func(in ssa.Instruction, st uint64) uint64 {
				if in == lp.Header.Instrs[0] {
					st = 1 << 0
				}
				if isCloseOfHead(in, isElem) {
					return mapStates(st, func(x int) int { return x | sHandled | sClosed })
				}
				if call, ok := in.(*ssa.Call); ok && (callIs(call, "io", "", "CopyBuffer") || callIs(call, "io", "", "Copy") || callIs(call, "io", "", "CopyN")) && !callIs(call, "io", "", "CopyN") {
					if len(call.Call.Args) >= 2 && isElem(call.Call.Args[1]) {
						return mapStates(st, func(x int) int { return x | sCopied })
					}
				}
				if s, ok := in.(*ssa.Store); ok {
					if ia, ok := s.Addr.(*ssa.IndexAddr); ok && isReadersLoad(ia.X) && ia.Index == lp.Idx && isNilConst(s.Val) {
						return mapStates(st, func(x int) int { return x | sDropped })
					}
				}
				return st
			},
			EdgeTransfer: func(from, to *ssa.BasicBlock, st uint64) uint64 {
				if ta, truth, ok := c16AssertOkEdge(from, to); ok && !truth && isElem(ta.X) && c16HasClose(ta.AssertedType) {
					return mapStates(st, func(x int) int { return x | sHandled })
				}
				return st
			}}
		ff.Run()
		anyState := func(st uint64, pred func(x int) bool) bool {
			for i := 0; i < 64; i++ {
				if st&(1<<uint(i)) != 0 && pred(i) {
					return true
				}
			}
			return false
		}
		why := lp.Why
		pos := instrPos(lp.If)
		var early []*ssa.BasicBlock
		for b := range lp.Blocks {
			st, ok := ff.Out(b)
			if !ok {
				continue
			}
			for _, s := range b.Succs {
				es := ff.EdgeTransfer(b, s, st)
				switch {
				case s == lp.Header:
					if anyState(es, func(x int) bool { return x&sHandled == 0 }) {
						why = "an iteration can move on to the next reader with the current one neither closed (if it is an io.Closer) nor kept for Close(): once the list is dropped / the element nil-ed that source is never closed (e.g. io.Copy(dst, mr) followed by mr.Close() closes nothing)"
						pos = instrPos(b.Instrs[len(b.Instrs)-1])
					} else if needCopy && anyState(es, func(x int) bool { return x&sCopied == 0 }) {
						why = "an iteration of the WriteTo loop can finish without copying the current reader to w: its bytes are missing from the concatenation"
						pos = instrPos(b.Instrs[len(b.Instrs)-1])
					}
				case !lp.Blocks[s] && b != lp.Header:
					early = append(early, s)
					if anyState(es, func(x int) bool { return x&sDropped != 0 && x&sHandled == 0 }) {
						why = "the loop is left early after nil-ing the current reader without closing it"
						pos = instrPos(b.Instrs[len(b.Instrs)-1])
					}
				}
			}
		}
		// stores
		for _, rm := range rem {
			switch rm.Kind {
			case "prefix":
				st, _ := ff.Before(rm.Store)
				b, off, ok := c16Lin(rm.Index, func(v ssa.Value) string {
					if v == lp.Idx {
						return "i"
					}
					return ""
				})
				handled := !anyState(st, func(x int) bool { return x&sHandled == 0 })
				if !lp.Blocks[rm.Store.Block()] && !c16DominatedByAny(rm.Store.Block(), early) {
					why = "readers is re-sliced from a variable index outside the loop over it"
					pos = instrPos(rm.Store)
				} else if ok && b == "i" && off == 0 && anyState(st, func(x int) bool { return x&sClosed != 0 && x&sDropped == 0 }) {
					why = "the current reader was closed and is then kept at the head of readers (re-slice from its own index): a retry reads a closed source and Close() closes it a second time"
					pos = instrPos(rm.Store)
				} else if !(ok && b == "i" && (off == 0 || (off == 1 && handled))) {
					why = "readers is re-sliced to start after the current reader although that one was not closed (it is dropped unclosed), or from an unrelated index"
					pos = instrPos(rm.Store)
				}
			case "all":
				okDom := edgeDominates(lp.Header, lp.Exit, rm.Store.Block())
				for _, eb := range early {
					if reachableFrom(eb, nil)[rm.Store.Block()] {
						okDom = false
					}
				}
				if !okDom {
					why = "all readers are dropped on a path that did not run the closing loop to its end: the remaining closable sources are never closed"
					pos = instrPos(rm.Store)
				}
			}
		}
		if fn == closeFn {
			closeHasLoop = true
			if len(early) > 0 && why == "" {
				why = "Close can leave its loop before the last reader: the remaining sources stay open"
			}
			r.Check(why == "", "C16.V3-loop", fname+" closes remaining readers", p.Pos(pos), "Close visits readers 0..len-1 and closes every io.Closer", why)
		} else {
			r.Check(why == "", "C16.V3-loop", fname+" loop over readers", p.Pos(pos), "each iteration copies the reader and leaves it closed-if-Closer or still listed", why)
		}
	}
	if !closeHasLoop {
		r.Violation("C16.V3-loop", FuncName(p, closeFn)+" closes remaining readers", p.Pos(closeFn.Pos()), "MultiReaderCloser.Close no longer loops over the remaining readers closing each io.Closer")
	}
}

func c16DominatedByAny(b *ssa.BasicBlock, ds []*ssa.BasicBlock) bool {
	for _, d := range ds {
		if d.Dominates(b) {
			return true
		}
	}
	return false
}

// c16HasClose: t is an interface type with a Close() error method.
func c16HasClose(t types.Type) bool {
	it, ok := t.Underlying().(*types.Interface)
	if !ok {
		return false
	}
	for i := 0; i < it.NumMethods(); i++ {
		if it.Method(i).Name() == "Close" {
			return true
		}
	}
	return false
}

// c16Loop is a counting loop `for idx over 0..len(readers)-1`.
type c16Loop struct {
	Header *ssa.BasicBlock
	If     *ssa.If
	Idx    ssa.Value // the value compared with len and used to index the element
	Exit   *ssa.BasicBlock
	Blocks map[*ssa.BasicBlock]bool
	Why    string // non-empty: the loop does not cover 0..len-1
}

func c16ReaderLoops(fn *ssa.Function, isReadersLoad func(ssa.Value) bool) []*c16Loop {
	var out []*c16Loop
	allInstrs(fn, func(in ssa.Instruction) {
		ifi, ok := in.(*ssa.If)
		if !ok || !c16OnCycle(ifi.Block()) {
			return
		}
		cmp, ok := decodeCond(ifi.Cond, true)
		if !ok {
			return
		}
		isLen := func(v ssa.Value) bool {
			call, ok := c16Unconv(v).(*ssa.Call)
			return ok && builtinName(call) == "len" && len(call.Call.Args) == 1 && isReadersLoad(call.Call.Args[0])
		}
		idx, op := cmp.X, cmp.Op
		if !isLen(cmp.Y) {
			if !isLen(cmp.X) {
				return
			}
			idx, op = cmp.Y, c16Flip(cmp.Op)
		}
		// idx must be loop-carried
		var phi *ssa.Phi
		first := int64(0)
		switch x := idx.(type) {
		case *ssa.Phi:
			phi = x
		case *ssa.BinOp:
			if ph, ok := x.X.(*ssa.Phi); ok && x.Op == token.ADD {
				if k, ok := c16IntConst(x.Y); ok && k == 1 {
					phi, first = ph, 1
				}
			}
		}
		if phi == nil {
			return // e.g. `for len(readers) > 0` compares a constant: not a counting loop
		}
		lp := &c16Loop{Header: ifi.Block(), If: ifi, Idx: idx, Blocks: map[*ssa.BasicBlock]bool{}}
		switch op {
		case token.LSS:
			lp.Exit = ifi.Block().Succs[1]
		case token.GEQ:
			lp.Exit = ifi.Block().Succs[0]
		case token.NEQ:
			lp.Exit = ifi.Block().Succs[1]
		case token.EQL:
			lp.Exit = ifi.Block().Succs[0]
		default:
			lp.Exit = ifi.Block().Succs[1]
			lp.Why = "the loop over readers continues under `index " + op.String() + " len(readers)` instead of index < len: the last reader is skipped or the index overruns"
		}
		for _, b := range fn.Blocks {
			if reachableFrom(lp.Header, map[*ssa.BasicBlock]bool{lp.Exit: true})[b] && reachableFrom(b, nil)[lp.Header] {
				lp.Blocks[b] = true
			}
		}
		startOK, stepOK := false, false
		for i, ed := range phi.Edges {
			pred := phi.Block().Preds[i]
			if k, ok := c16IntConst(ed); ok && !lp.Blocks[pred] {
				if k+first == 0 {
					startOK = true
				} else {
					lp.Why = "the loop over readers does not start at index 0: leading readers are skipped (never closed / copied)"
				}
				continue
			}
			if bo, ok := ed.(*ssa.BinOp); ok && bo.Op == token.ADD {
				if k, ok := c16IntConst(bo.Y); ok && k == 1 && (bo.X == phi) {
					stepOK = true
					continue
				}
			}
			if ed == idx && first == 1 {
				stepOK = true
				continue
			}
			lp.Why = "the index of the loop over readers is not advanced by exactly 1: readers are skipped"
		}
		if lp.Why == "" && (!startOK || !stepOK) {
			lp.Why = "the loop over readers does not run index 0,1,2,…"
		}
		out = append(out, lp)
	})
	return out
}

// ---------------------------------------------------------------- tee

func c16Tee(c *Ctx) {
	r, p := c.R, c.P
	named := p.Named("streams", "TeeReadCloser")
	fr, fw := c16Field(named, "r"), c16Field(named, "w")
	read := p.Func("streams", "TeeReadCloser.Read")
	closeFn := p.Func("streams", "TeeReadCloser.Close")
	rname := FuncName(p, read)

	srcs := c16CallsOnField(read, "Read", fr)
	if len(srcs) != 1 {
		if len(srcs) == 0 {
			r.Violation("C16.V5-tee", rname+" Write(p[:n])", p.Pos(read.Pos()), "TeeReadCloser.Read no longer reads from t.r")
		} else {
			r.Undecide("TeeReadCloser.Read reads the source at %d sites", len(srcs))
		}
		return
	}
	src := srcs[0]
	cnt, _ := callResult(src, 0), callResult(src, 1)
	if cnt == nil || len(read.Params) < 2 {
		r.Violation("C16.V5-tee", rname+" Write(p[:n])", p.Pos(src.Pos()), "the byte count of t.r.Read is discarded")
		return
	}
	buf := read.Params[1]
	isCnt := func(v ssa.Value) bool {
		ls := c16Leaves(v)
		if len(ls) == 0 {
			return false
		}
		for _, l := range ls {
			if c16Unconv(l.Val) != cnt {
				return false
			}
		}
		return true
	}
	cntBase := func(v ssa.Value) string {
		if isCnt(v) {
			return "cnt"
		}
		return ""
	}
	writes := c16CallsOnField(read, "Write", fw)
	goodWrite := map[ssa.Instruction]bool{}
	argWhy := ""
	if a := c16CallArgs(src); len(a) != 1 || a[0] != buf {
		argWhy = "the source does not read into the caller's buffer p"
	}
	for _, w := range writes {
		a := c16CallArgs(w)
		ok := false
		if len(a) == 1 {
			if sl, isSl := a[0].(*ssa.Slice); isSl && sl.X == buf && sl.Max == nil && sl.High != nil && isCnt(sl.High) {
				lowOK := sl.Low == nil
				if sl.Low != nil {
					if k, isK := c16IntConst(sl.Low); isK && k == 0 {
						lowOK = true
					}
				}
				ok = lowOK
			}
		}
		if ok && instrDominates(src, w) {
			goodWrite[w] = true
		} else {
			argWhy = "t.w.Write is called with something other than p[:n] of this read: the writer does not receive exactly the bytes the consumer gets"
		}
	}
	if len(writes) == 0 {
		argWhy = "TeeReadCloser.Read no longer writes to t.w"
	}
	r.Check(argWhy == "", "C16.V5-tee", rname+" Write(p[:n])", p.Pos(src.Pos()), "every t.w.Write in Read receives p[:n] with n the count of this read", argWhy)

	// every path from the read to a return writes, or has n <= 0
	ff := &FlagFlow{Fn: read, Must: true, Entry: 1,
		Transfer: func(in ssa.Instruction, st uint64) uint64 {
			if in == ssa.Instruction(src) {
				return 0
			}
			if goodWrite[in] {
				return 1
			}
			return st
		},
		EdgeTransfer: func(from, to *ssa.BasicBlock, st uint64) uint64 {
			if dc, ok := c16EdgeCond(from, to); ok {
				for _, rel := range c16Rels([]DomCond{dc}, cntBase) {
					if rel.X == "cnt" && rel.Y == "" && rel.impliesLE(0) {
						return 1
					}
				}
			}
			return st
		}}
	ff.Run()
	bad := token.NoPos
	ff.AtReturns(func(ret *ssa.Return, st uint64) {
		if st&1 == 0 {
			bad = ret.Pos()
		}
	})
	r.Check(!bad.IsValid(), "C16.V5-tee", rname+" writes before returning", p.Pos(c16PosOr(bad, read.Pos())),
		"every return after the source read is preceded by Write(p[:n]) or by the fact n <= 0", "Read can return bytes to the consumer (n > 0, e.g. data delivered together with an error/EOF) without having written them to t.w: the writer misses bytes the consumer received")

	// returned count
	why, wpos := "", token.NoPos
	post := reachableFrom(src.Block(), nil)
	for _, rl := range c16ReturnLeaves(read, 0) {
		if !post[rl.Ret.Block()] || !src.Block().Dominates(rl.Ret.Block()) {
			continue
		}
		for _, lf := range rl.Leaves {
			v := c16Unconv(lf.Val)
			if v == cnt {
				continue
			}
			okW := false
			for _, w := range writes {
				if wn := callResult(w, 0); wn != nil && v == wn {
					if we := callResult(w, 1); we != nil && c16FactsAbout(lf.Conds, []ssa.Value{we}).NonNil {
						okW = true
					}
				}
			}
			if !okW {
				why = "Read reports a count that is neither the source's count nor the writer's count on a write error: the consumer gets fewer/more bytes than were read and teed"
				wpos = rl.Ret.Pos()
			}
		}
	}
	r.Check(why == "", "C16.V5-tee", rname+" returned count", p.Pos(c16PosOr(wpos, read.Pos())), "after the read, Read returns the source's count (or the writer's on a write error)", why)

	// Close closes r if Closer
	{
		cname := FuncName(p, closeFn)
		isR := func(v ssa.Value) bool { return c16IsFieldLoad(v, fr) }
		ff := &FlagFlow{Fn: closeFn, Must: true,
			Transfer: func(in ssa.Instruction, st uint64) uint64 {
				if call, ok := in.(ssa.CallInstruction); ok {
					if _, ok := c16InvokeOn(call, "Close", func(v ssa.Value) bool {
						if isR(v) {
							return true
						}
						ta := c16CloserAssert(v)
						return ta != nil && isR(ta.X)
					}); ok {
						if _, isDefer := in.(*ssa.Defer); !isDefer || true {
							return st | 1
						}
					}
				}
				return st
			},
			EdgeTransfer: func(from, to *ssa.BasicBlock, st uint64) uint64 {
				if ta, truth, ok := c16AssertOkEdge(from, to); ok && !truth && isR(ta.X) && c16HasClose(ta.AssertedType) {
					return st | 1
				}
				if dc, ok := c16EdgeCond(from, to); ok {
					if cmp, ok := decodeCond(dc.If.Cond, dc.Branch); ok && cmp.Op == token.EQL {
						if (isR(cmp.X) && isNilConst(cmp.Y)) || (isR(cmp.Y) && isNilConst(cmp.X)) {
							return st | 1
						}
					}
				}
				return st
			}}
		ff.Run()
		bad := token.NoPos
		n := 0
		ff.AtReturns(func(ret *ssa.Return, st uint64) {
			n++
			if st&1 == 0 {
				bad = ret.Pos()
			}
		})
		r.Check(!bad.IsValid() && n > 0, "C16.V4-tee-close", cname+" closes the source", p.Pos(c16PosOr(bad, closeFn.Pos())),
			"every return of Close has closed t.r if it is an io.Closer", "TeeReadCloser.Close can return without closing t.r although it is an io.Closer")
		// NOTE only: nil what was closed
		cleared := false
		allInstrs(closeFn, func(in ssa.Instruction) {
			if st := c16FieldStore(in, fr); st != nil && isNilConst(st.Val) {
				cleared = true
			}
		})
		if !cleared {
			r.Note("TeeReadCloser.Close no longer sets t.r = nil after closing it: a second Close() would close the source again (good practice; C16 only quantifies over one Close)")
		}
	}
	_ = strings.TrimSpace
}
