package main

// C14.buffered-vacate — ring.Buffered returns the slot at the head as "the
// front" without looking at the count: Front and RemoveFront on an empty
// queue return the zero value only because of the invariant the code relies
// on: EVERY SLOT OUTSIDE THE LIVE WINDOW HOLDS THE ZERO VALUE. New() rings
// are zero, AppendBack writes only the slot it adds to the window, and
// RemoveFront must clear the slot it vacates: on every path it stores the
// zero value into the Value of the node that is the head WHEN THE CALL
// STARTS (the head field read before the head is advanced), exactly where
// the element leaves the window. Not clearing (on some path), or clearing
// the node read from the head field after the advance (the new front — a
// live element or a slot outside the window), breaks the invariant: once the
// window has wrapped round the ring, the emptied queue hands out a stale,
// already removed element.
//
// Helpers, closures, func-typed fields and method values are followed as in
// the other Buffered rules (a small automaton over the paths, callees by
// summary). Which head a cleared node was read from is decided per load of
// the head field: "before the advance" on all paths reaching it, "after" on
// all, or mixed (=> not established).

import (
	"go/token"
	"go/types"

	"golang.org/x/tools/go/ssa"
)

// autoFlow runs a small automaton (states 0..7, set as bits) over the paths
// of fn from the entry set; calls to helpers apply the callee's own
// transformer. visit (optional) sees every instruction with the state set
// before it.
func (b *c14Buf) autoFlow(fn *ssa.Function, entry uint64, step func(in ssa.Instruction, s int) int, visit func(in ssa.Instruction, st uint64), active map[*ssa.Function]int) uint64 {
	if len(fn.Blocks) == 0 || active[fn] > 2 {
		return 1 << 7
	}
	active[fn]++
	defer func() { active[fn]-- }()
	var ff *FlagFlow
	ff = &FlagFlow{Fn: fn, Must: false, Entry: entry, Transfer: func(in ssa.Instruction, st uint64) uint64 {
		if _, isDefer := in.(*ssa.Defer); isDefer && !ff.Replaying {
			return st
		}
		if _, isGo := in.(*ssa.Go); isGo {
			return st
		}
		if visit != nil {
			visit(in, st)
		}
		if ci, ok := in.(ssa.CallInstruction); ok {
			cals, _ := b.callees(ci)
			var out uint64
			any := false
			for _, cal := range cals {
				if !b.helper[cal] {
					continue
				}
				any = true
				out |= b.autoFlow(cal, st, step, visit, active)
			}
			if any {
				return out
			}
		}
		return mapStates(st, func(s int) int { return step(in, s) })
	}}
	ff.Run()
	var set uint64
	n := 0
	ff.AtReturns(func(ret *ssa.Return, st uint64) {
		n++
		set |= st
	})
	if n == 0 {
		return 1 << 7
	}
	return set
}

// isZeroValue: v is the zero value of its type on every origin (nil / zero
// constant, `var zero T`, `*new(T)`).
func (b *c14Buf) isZeroValue(v ssa.Value) bool {
	os := b.origins(v, 0)
	if len(os) == 0 {
		return false
	}
	for _, o := range os {
		switch x := o.(type) {
		case *ssa.Const:
			if !(x.Value == nil || x.IsNil()) {
				if !(x.Value != nil && x.Value.String() == "0") {
					return false
				}
			}
		case *ssa.UnOp:
			al, ok := x.X.(*ssa.Alloc)
			if !ok || x.Op != token.MUL {
				return false
			}
			for _, ref := range refs(al) {
				if ref == ssa.Instruction(x) {
					continue
				}
				if _, isLoad := ref.(*ssa.UnOp); isLoad {
					continue
				}
				if _, isDbg := ref.(*ssa.DebugRef); isDbg {
					continue
				}
				return false // stored to, or its address escapes
			}
		default:
			return false
		}
	}
	return true
}

func (b *c14Buf) checkVacate(rem, front *ssa.Function) {
	r, p := b.r, b.p
	const rule = "C14.buffered-vacate"
	construct := "ring.Buffered.RemoveFront vacated slot"
	valueF := FieldID{b.rt, "Value"}
	if st := structOf(p.Named("ring", "Ring")); st != nil {
		found := false
		for i := 0; i < st.NumFields(); i++ {
			if st.Field(i).Name() == "Value" {
				found = true
			}
		}
		if !found {
			undecided("ring.Ring has no field Value")
		}
	}
	fns, dyn := b.closure(rem)
	// zero-stores into the Value of a node read from the head field, and the loads they go through
	type clr struct {
		st    *ssa.Store
		loads []ssa.Instruction
	}
	var clears []clr
	isClearLoad := map[ssa.Instruction]bool{}
	otherValueStores := 0
	for _, f := range fns {
		allInstrs(f, func(in ssa.Instruction) {
			st, ok := in.(*ssa.Store)
			if !ok {
				return
			}
			fa, ok := st.Addr.(*ssa.FieldAddr)
			if !ok || fieldIDOfAddr(fa) != valueF {
				return
			}
			var loads []ssa.Instruction
			okBase := true
			os := b.origins(fa.X, 0)
			for _, o := range os {
				u, isLoad := o.(*ssa.UnOp)
				id, _, isField := fieldOfValue(o)
				if !isLoad || !isField || id != b.ringF {
					okBase = false
					break
				}
				loads = append(loads, u)
			}
			if !okBase || len(os) == 0 || !b.isZeroValue(st.Val) {
				otherValueStores++
				return
			}
			clears = append(clears, clr{st, loads})
			for _, l := range loads {
				isClearLoad[l] = true
			}
		})
	}
	isHeadStore := func(in ssa.Instruction) bool {
		st, ok := in.(*ssa.Store)
		if !ok {
			return false
		}
		fa, ok := st.Addr.(*ssa.FieldAddr)
		return ok && fieldIDOfAddr(fa) == b.ringF && !isFreshBase(fa.X)
	}
	// pass 1: is the head already advanced when a load feeding a clear executes? (0 = no, 1 = yes)
	phase := map[ssa.Instruction]uint64{}
	b.autoFlow(rem, 1<<0, func(in ssa.Instruction, s int) int {
		if isHeadStore(in) {
			return 1
		}
		return s
	}, func(in ssa.Instruction, st uint64) {
		if isClearLoad[in] {
			phase[in] |= st
		}
	}, map[*ssa.Function]int{})
	clearKind := map[ssa.Instruction]int{} // 1 = the entry head, 2 = the advanced head, 3 = mixed/unknown
	for _, c := range clears {
		k := 0
		for _, l := range c.loads {
			switch phase[l] {
			case 1 << 0:
				k |= 1
			case 1 << 1:
				k |= 2
			default:
				k |= 3
			}
		}
		clearKind[c.st] = k
	}
	// pass 2: 0 = nothing yet, 1 = entry head cleared, 2 = advanced without clearing,
	// 3 = cleared and advanced, 4 = the advanced head was cleared, 5 = not established
	set := b.autoFlow(rem, 1<<0, func(in ssa.Instruction, s int) int {
		if s >= 4 {
			return s
		}
		if isHeadStore(in) {
			return s | 2
		}
		if k, ok := clearKind[in]; ok {
			switch k {
			case 1:
				return s | 1
			case 2:
				return 4
			default:
				return 5
			}
		}
		return s
	}, nil, map[*ssa.Function]int{})
	// a count guard in front of what Front/RemoveFront return would be a different design, which this rule does not decide
	guarded := func(fn *ssa.Function) bool {
		g := false
		allInstrs(fn, func(in ssa.Instruction) {
			ret, ok := in.(*ssa.Return)
			if !ok {
				return
			}
			for _, dc := range domConds(ret.Block()) {
				if cmp, ok := decodeCond(dc.If.Cond, dc.Branch); ok {
					if b.isLoadOf(cmp.X, b.endF) || b.isLoadOf(cmp.Y, b.endF) {
						g = true
					}
				}
			}
		})
		return g
	}
	pos := p.Pos(rem.Pos())
	switch {
	case set == 1<<3:
		r.OK(rule, construct, pos, "on every path the slot of the entry head is set to the zero value and the head advances (helpers followed): slots outside the live window stay zero")
	case guarded(rem) && guarded(front):
		r.Undecide("%s %s: the vacated slot is not cleared on every path, but Front and RemoveFront test the count before returning a slot: that design is not decided by this rule", rule, construct)
	case set&(1<<5) != 0 || set&(1<<7) != 0 || dyn > 0 && set&(1<<3) == 0:
		r.Undecide("%s %s: which node is cleared could not be established (a clear reads the head field both before and after the advance, recursion, or %d calls with unknown targets)", rule, construct, dyn)
	case set&(1<<4) != 0:
		r.Violation(rule, construct, pos, "the slot that is set to the zero value is read from the head field AFTER the head advanced: the new front (a live element, or a slot outside the window) is cleared and the vacated slot keeps the removed element; an emptied queue whose window has wrapped hands it out again")
	default:
		why := "on some path RemoveFront does not set the vacated slot (the entry head's Value) to the zero value"
		if len(clears) == 0 {
			why = "RemoveFront never sets the vacated slot (the entry head's Value) to the zero value"
		}
		r.Violation(rule, construct, pos, why+": Front and RemoveFront return the head slot without testing the count, so once the live window has wrapped round the ring an emptied queue returns a stale, already removed element instead of the zero value")
	}
	_ = types.Typ
	_ = otherValueStores
}
