package main

// c07funcs: where do function values go, and which functions may a dynamic
// call invoke?  A flow-insensitive, field-/cell-based analysis of func-typed
// values over the whole module:
//
//   - cells: a func-typed struct field (T,f), a func-typed package-level
//     variable, a func-typed local cell, and the *elements* of a collection
//     (map / slice / array of funcs) held in a field, a package-level variable
//     or a local; collections that are copied around are unified;
//   - targets(v): the module functions a func-typed value may denote: function
//     literals, named functions, method values (bound-method wrappers), values
//     loaded from cells, parameters (arguments at the known call sites),
//     results of module functions that return function values;
//   - dynamic calls (call through a func value) and invokes on interfaces
//     DECLARED IN THE MODULE (a single- or few-implementation seam) are resolved
//     to their targets; they become ordinary call sites of the targets;
//   - status(fn): "input" when fn can be called from outside the module with
//     caller-chosen arguments (exported, or its value escapes to code the
//     analysis does not see), "closed" when every place its value reaches is a
//     tracked cell whose every read is only called — then ALL its call sites
//     (static, dynamic, invoke) are known.
//
// This is what makes a switch over per-algorithm helpers and a literal dispatch
// table of the same helpers look the same to the rules.

import (
	"go/token"
	"go/types"
	"strings"

	"golang.org/x/tools/go/ssa"
)

type c07Cell struct {
	kind byte   // 'F' field, 'G' global, 'L' local cell, 'E' elements of a collection
	id   string // FieldID for F / E-of-field
	v    ssa.Value
}

type c07FnStatus int

const (
	c07StUnknown c07FnStatus = iota
	c07StInput
	c07StClosed
)

// c07CallSite is one (possible) call of a module function.
type c07CallSite struct {
	Caller *ssa.Function
	Instr  ssa.CallInstruction
	Shift  int       // parameter i of the callee receives Instr.Args[i-Shift]
	Multi  bool      // the call has several possible targets (dynamic dispatch)
	Key    ssa.Value // for table dispatch: the lookup key that selected the target (nil if none)
	Dyn    bool
}

// Arg returns the value bound to parameter i of the callee, or nil.
func (cs c07CallSite) Arg(i int) ssa.Value {
	args := cs.Instr.Common().Args
	j := i - cs.Shift
	if j < 0 || j >= len(args) {
		return nil
	}
	return args[j]
}

// c07Use: a place where a function's value is taken: a MakeClosure (In == nil,
// follow the referrers of V) or an instruction using the *ssa.Function V.
type c07Use struct {
	In ssa.Instruction
	V  ssa.Value
}

type c07Target struct {
	Fn    *ssa.Function
	Shift int
}

type c07FV struct {
	p          *Prog
	uf         map[c07Cell]c07Cell
	stores     map[c07Cell][]ssa.Value
	reads      map[c07Cell][]ssa.Value
	collVals   map[c07Cell][]ssa.Value // collection values that alias an E cell
	addrUses   map[c07Cell][]ssa.Value // address values (FieldAddr/Global/Alloc) of a cell
	Static     map[*ssa.Function][]c07CallSite
	Dyn        map[*ssa.Function][]c07CallSite
	DynTargets map[ssa.CallInstruction][]c07Target
	Unresolved []ssa.CallInstruction      // dynamic calls in the module with no visible target
	created    map[*ssa.Function][]c07Use // places where the function's value is taken
	tmemo      map[ssa.Value][]c07Target
	tbusy      map[ssa.Value]bool
	stMemo     map[*ssa.Function]c07FnStatus
	trBusy     map[ssa.Value]bool
	cellMemo   map[c07Cell]int // 0 unknown, 1 tracked, 2 escapes, 3 busy
	modIfaces  map[*types.Func][]c07Target
	entries    map[*ssa.Function]bool
}

func c07isFuncType(t types.Type) bool {
	_, ok := t.Underlying().(*types.Signature)
	return ok
}

func c07isFuncColl(t types.Type) bool {
	switch u := t.Underlying().(type) {
	case *types.Slice:
		return c07isFuncType(u.Elem())
	case *types.Array:
		return c07isFuncType(u.Elem())
	case *types.Map:
		return c07isFuncType(u.Elem())
	case *types.Pointer:
		if a, ok := u.Elem().Underlying().(*types.Array); ok {
			return c07isFuncType(a.Elem())
		}
	}
	return false
}

func (fv *c07FV) find(c c07Cell) c07Cell {
	for {
		p, ok := fv.uf[c]
		if !ok || p == c {
			return c
		}
		c = p
	}
}

func (fv *c07FV) union(a, b c07Cell) {
	ra, rb := fv.find(a), fv.find(b)
	if ra != rb {
		fv.uf[ra] = rb
	}
}

func fieldKey(id FieldID) string { return id.Type + "." + id.Field }

// addrCell: the cell an address denotes.
func (fv *c07FV) addrCell(addr ssa.Value) (c07Cell, bool) {
	switch a := addr.(type) {
	case *ssa.Global:
		return c07Cell{kind: 'G', v: a}, true
	case *ssa.FieldAddr:
		return c07Cell{kind: 'F', id: fieldKey(fieldIDOfAddr(a))}, true
	case *ssa.Alloc:
		return c07Cell{kind: 'L', v: a}, true
	case *ssa.IndexAddr:
		return fv.elemCell(a.X)
	case *ssa.FreeVar:
		if b := resolveFreeVar(a); b != nil {
			return fv.addrCell(b)
		}
	}
	return c07Cell{}, false
}

// elemCell: the cell holding the elements of collection value v.
func (fv *c07FV) elemCell(v ssa.Value) (c07Cell, bool) {
	switch x := v.(type) {
	case *ssa.Slice:
		return fv.elemCell(x.X)
	case *ssa.ChangeType:
		return fv.elemCell(x.X)
	case *ssa.UnOp:
		if x.Op == token.MUL {
			if c, ok := fv.addrCell(x.X); ok {
				return c07Cell{kind: 'E', id: c.id, v: c.v}, true
			}
		}
		return c07Cell{}, false
	case *ssa.Field:
		return c07Cell{kind: 'E', id: fieldKey(fieldIDOfField(x))}, true
	case *ssa.Alloc, *ssa.MakeMap, *ssa.MakeSlice, *ssa.Phi, *ssa.Call, *ssa.Parameter, *ssa.Const:
		return c07Cell{kind: 'E', v: v}, true
	case *ssa.FreeVar:
		if b := resolveFreeVar(x); b != nil {
			return fv.elemCell(b)
		}
	}
	return c07Cell{}, false
}

func newC07FV(p *Prog, entries []*ssa.Function) *c07FV {
	fv := &c07FV{p: p, uf: map[c07Cell]c07Cell{}, stores: map[c07Cell][]ssa.Value{}, reads: map[c07Cell][]ssa.Value{},
		collVals: map[c07Cell][]ssa.Value{}, addrUses: map[c07Cell][]ssa.Value{},
		Static: map[*ssa.Function][]c07CallSite{}, Dyn: map[*ssa.Function][]c07CallSite{}, DynTargets: map[ssa.CallInstruction][]c07Target{},
		created: map[*ssa.Function][]c07Use{}, tmemo: map[ssa.Value][]c07Target{}, tbusy: map[ssa.Value]bool{},
		stMemo: map[*ssa.Function]c07FnStatus{}, trBusy: map[ssa.Value]bool{}, cellMemo: map[c07Cell]int{},
		modIfaces: map[*types.Func][]c07Target{}, entries: map[*ssa.Function]bool{}}
	for _, e := range entries {
		fv.entries[origin(e)] = true
	}
	type pend struct {
		cell c07Cell
		val  ssa.Value
		read bool
	}
	var pends []pend
	var aliases [][2]c07Cell
	var collPend []pend
	for _, fn := range p.Funcs {
		allInstrs(fn, func(in ssa.Instruction) {
			// function values taken
			var calleeVal ssa.Value
			if ci, ok := in.(ssa.CallInstruction); ok {
				calleeVal = ci.Common().Value
				if g := staticCallee(ci); g != nil {
					for _, t := range fv.through(g, 0) {
						fv.Static[t.Fn] = append(fv.Static[t.Fn], c07CallSite{Caller: fn, Instr: ci, Shift: t.Shift})
					}
				}
			}
			if mc, ok := in.(*ssa.MakeClosure); ok {
				if f, ok := mc.Fn.(*ssa.Function); ok {
					for _, t := range fv.through(f, 0) {
						fv.created[t.Fn] = append(fv.created[t.Fn], c07Use{nil, mc})
					}
				}
			} else {
				for _, op := range in.Operands(nil) {
					if op == nil || *op == nil {
						continue
					}
					if f, ok := (*op).(*ssa.Function); ok && (*op != calleeVal || fv.isArg(in, *op)) {
						for _, t := range fv.through(f, 0) {
							fv.created[t.Fn] = append(fv.created[t.Fn], c07Use{in, f})
						}
					}
				}
			}
			switch x := in.(type) {
			case *ssa.Store:
				if c07isFuncType(x.Val.Type()) {
					if c, ok := fv.addrCell(x.Addr); ok {
						pends = append(pends, pend{c, x.Val, false})
					}
				}
				if c07isFuncColl(x.Val.Type()) {
					if ca, ok := fv.addrCell(x.Addr); ok {
						if cv, ok := fv.elemCell(x.Val); ok {
							aliases = append(aliases, [2]c07Cell{{kind: 'E', id: ca.id, v: ca.v}, cv})
						}
					}
				}
			case *ssa.MapUpdate:
				if c07isFuncType(x.Value.Type()) {
					if c, ok := fv.elemCell(x.Map); ok {
						pends = append(pends, pend{c, x.Value, false})
					}
				}
			case *ssa.UnOp:
				if x.Op == token.MUL && c07isFuncType(x.Type()) {
					if c, ok := fv.addrCell(x.X); ok {
						pends = append(pends, pend{c, x, true})
					}
				}
			case *ssa.Field:
				if c07isFuncType(x.Type()) {
					pends = append(pends, pend{c07Cell{kind: 'F', id: fieldKey(fieldIDOfField(x))}, x, true})
				}
			case *ssa.Lookup:
				if c, ok := fv.elemCell(x.X); ok {
					if !x.CommaOk && c07isFuncType(x.Type()) {
						pends = append(pends, pend{c, x, true})
					} else if x.CommaOk {
						if tup, ok := x.Type().(*types.Tuple); ok && c07isFuncType(tup.At(0).Type()) {
							for _, r := range refs(x) {
								if ex, ok := r.(*ssa.Extract); ok && ex.Index == 0 {
									pends = append(pends, pend{c, ex, true})
								}
							}
						}
					}
				}
			case *ssa.Index:
				if c07isFuncType(x.Type()) {
					if c, ok := fv.elemCell(x.X); ok {
						pends = append(pends, pend{c, x, true})
					}
				}
			case *ssa.Next:
				if rg, ok := x.Iter.(*ssa.Range); ok && c07isFuncColl(rg.X.Type()) {
					if c, ok := fv.elemCell(rg.X); ok {
						for _, r := range refs(x) {
							if ex, ok := r.(*ssa.Extract); ok && ex.Index == 2 {
								pends = append(pends, pend{c, ex, true})
							}
						}
					}
				}
			case *ssa.Phi:
				if c07isFuncColl(x.Type()) {
					if cp, ok := fv.elemCell(x); ok {
						for _, e := range x.Edges {
							if ce, ok := fv.elemCell(e); ok {
								aliases = append(aliases, [2]c07Cell{cp, ce})
							}
						}
					}
				}
			case *ssa.Call:
				if builtinName(x) == "append" && c07isFuncColl(x.Type()) {
					if cr, ok := fv.elemCell(x); ok {
						for _, a := range x.Call.Args {
							if ca, ok := fv.elemCell(a); ok {
								aliases = append(aliases, [2]c07Cell{cr, ca})
							}
						}
					}
				}
			}
			// collection values and addresses, for the escape analysis of cells
			if v, ok := in.(ssa.Value); ok {
				if c07isFuncColl(v.Type()) {
					if c, ok := fv.elemCell(v); ok {
						collPend = append(collPend, pend{c, v, false})
					}
				}
			}
		})
	}
	for _, al := range aliases {
		fv.union(al[0], al[1])
	}
	for _, pd := range pends {
		r := fv.find(pd.cell)
		if pd.read {
			fv.reads[r] = append(fv.reads[r], pd.val)
		} else {
			fv.stores[r] = append(fv.stores[r], pd.val)
		}
	}
	for _, pd := range collPend {
		r := fv.find(pd.cell)
		fv.collVals[r] = append(fv.collVals[r], pd.val)
	}
	fv.resolveAll()
	return fv
}

func (fv *c07FV) isArg(in ssa.Instruction, v ssa.Value) bool {
	ci, ok := in.(ssa.CallInstruction)
	if !ok {
		return false
	}
	for _, a := range ci.Common().Args {
		if a == v {
			return true
		}
	}
	return false
}

// through maps a function value to the module functions it stands for:
// itself, or — for synthetic wrappers (bound method values, method
// expressions, promoted-method wrappers) — the wrapped module method.
func (fv *c07FV) through(f *ssa.Function, depth int) []c07Target {
	f = origin(f)
	if f == nil {
		return nil
	}
	if fv.p.InModule(f) {
		return []c07Target{{f, 0}}
	}
	if f.Synthetic == "" || depth > 3 || f.Blocks == nil {
		return nil
	}
	shift := 0
	switch {
	case strings.Contains(f.Synthetic, "bound"):
		shift = 1
	case strings.Contains(f.Synthetic, "thunk"), strings.Contains(f.Synthetic, "wrapper"):
	default:
		return nil
	}
	var out []c07Target
	allInstrs(f, func(in ssa.Instruction) {
		if ci, ok := in.(ssa.CallInstruction); ok {
			if g := staticCallee(ci); g != nil {
				for _, t := range fv.through(g, depth+1) {
					out = append(out, c07Target{t.Fn, t.Shift + shift})
				}
			}
		}
	})
	return out
}

// targets: module functions the func-typed value v may denote.
func (fv *c07FV) targets(v ssa.Value) []c07Target {
	if v == nil {
		return nil
	}
	if t, ok := fv.tmemo[v]; ok {
		return t
	}
	if fv.tbusy[v] {
		return nil
	}
	fv.tbusy[v] = true
	defer delete(fv.tbusy, v)
	var out []c07Target
	add := func(ts []c07Target) {
		for _, t := range ts {
			dup := false
			for _, o := range out {
				if o == t {
					dup = true
				}
			}
			if !dup {
				out = append(out, t)
			}
		}
	}
	fromCell := func(c c07Cell) {
		for _, sv := range fv.stores[fv.find(c)] {
			add(fv.targets(sv))
		}
	}
	switch x := v.(type) {
	case *ssa.Function:
		add(fv.through(x, 0))
	case *ssa.MakeClosure:
		if f, ok := x.Fn.(*ssa.Function); ok {
			add(fv.through(f, 0))
		}
	case *ssa.Phi:
		for _, e := range x.Edges {
			add(fv.targets(e))
		}
	case *ssa.ChangeType:
		add(fv.targets(x.X))
	case *ssa.UnOp:
		if x.Op == token.MUL {
			if c, ok := fv.addrCell(x.X); ok {
				fromCell(c)
			}
		}
	case *ssa.Field:
		fromCell(c07Cell{kind: 'F', id: fieldKey(fieldIDOfField(x))})
	case *ssa.Lookup:
		if c, ok := fv.elemCell(x.X); ok {
			fromCell(c)
		}
	case *ssa.Index:
		if c, ok := fv.elemCell(x.X); ok {
			fromCell(c)
		}
	case *ssa.Extract:
		switch t := x.Tuple.(type) {
		case *ssa.Lookup:
			if x.Index == 0 {
				if c, ok := fv.elemCell(t.X); ok {
					fromCell(c)
				}
			}
		case *ssa.Next:
			if rg, ok := t.Iter.(*ssa.Range); ok && x.Index == 2 {
				if c, ok := fv.elemCell(rg.X); ok {
					fromCell(c)
				}
			}
		case *ssa.Call:
			for _, tg := range fv.callTargets(t) {
				for _, b := range tg.Fn.Blocks {
					if ret, ok := b.Instrs[len(b.Instrs)-1].(*ssa.Return); ok && x.Index < len(ret.Results) {
						add(fv.targets(ret.Results[x.Index]))
					}
				}
			}
		}
	case *ssa.Call:
		for _, tg := range fv.callTargets(x) {
			for _, b := range tg.Fn.Blocks {
				if ret, ok := b.Instrs[len(b.Instrs)-1].(*ssa.Return); ok && len(ret.Results) == 1 {
					add(fv.targets(ret.Results[0]))
				}
			}
		}
	case *ssa.Parameter:
		fn := origin(x.Parent())
		idx := -1
		for i, q := range x.Parent().Params {
			if q == x {
				idx = i
			}
		}
		for _, cs := range append(append([]c07CallSite{}, fv.Static[fn]...), fv.Dyn[fn]...) {
			if a := cs.Arg(idx); a != nil {
				add(fv.targets(a))
			}
		}
	case *ssa.FreeVar:
		if b := resolveFreeVar(x); b != nil {
			add(fv.targets(b))
		}
	}
	if _, isPar := v.(*ssa.Parameter); !isPar {
		fv.tmemo[v] = out
	}
	return out
}

// callTargets: module functions a call may enter (static, or resolved).
func (fv *c07FV) callTargets(ci ssa.CallInstruction) []c07Target {
	if g := staticCallee(ci); g != nil {
		return fv.through(g, 0)
	}
	return fv.DynTargets[ci]
}

// ifaceTargets: module methods that implement method m of an interface
// declared in the module.
func (fv *c07FV) ifaceTargets(recvT types.Type, m *types.Func) []c07Target {
	if ts, ok := fv.modIfaces[m]; ok {
		return ts
	}
	var out []c07Target
	named, _ := types.Unalias(recvT).(*types.Named)
	iface, _ := recvT.Underlying().(*types.Interface)
	inModule := named != nil && named.Obj().Pkg() != nil && strings.HasPrefix(named.Obj().Pkg().Path(), fv.p.ModPath)
	if iface != nil && inModule {
		for _, pkg := range fv.p.Pkgs {
			if !strings.HasPrefix(pkg.PkgPath, fv.p.ModPath) {
				continue
			}
			sc := pkg.Types.Scope()
			for _, nm := range sc.Names() {
				tn, ok := sc.Lookup(nm).(*types.TypeName)
				if !ok || tn.IsAlias() {
					continue
				}
				nt, ok := tn.Type().(*types.Named)
				if !ok || nt.TypeParams().Len() > 0 {
					continue
				}
				if _, isI := nt.Underlying().(*types.Interface); isI {
					continue
				}
				for _, t := range []types.Type{nt, types.NewPointer(nt)} {
					if !types.Implements(t, iface) {
						continue
					}
					sel := fv.p.SSA.MethodSets.MethodSet(t).Lookup(m.Pkg(), m.Name())
					if sel == nil {
						continue
					}
					if f := fv.p.SSA.MethodValue(sel); f != nil {
						for _, tg := range fv.through(f, 0) {
							dup := false
							for _, o := range out {
								if o.Fn == tg.Fn {
									dup = true
								}
							}
							if !dup {
								out = append(out, c07Target{tg.Fn, 1})
							}
						}
					}
					break
				}
			}
		}
	}
	fv.modIfaces[m] = out
	return out
}

// c07LookupKey: when the callee value comes out of a table lookup
// (m[key].f, m[key]), the key.
func c07LookupKey(v ssa.Value, depth int) ssa.Value {
	if depth > 6 {
		return nil
	}
	switch x := v.(type) {
	case *ssa.Lookup:
		return x.Index
	case *ssa.Extract:
		return c07LookupKey(x.Tuple, depth+1)
	case *ssa.Field:
		return c07LookupKey(x.X, depth+1)
	case *ssa.UnOp:
		if x.Op == token.MUL {
			switch a := x.X.(type) {
			case *ssa.FieldAddr:
				return c07LookupKey(a.X, depth+1)
			case *ssa.IndexAddr:
				return a.Index
			}
		}
	case *ssa.ChangeType:
		return c07LookupKey(x.X, depth+1)
	case *ssa.Alloc:
		// a local struct copy of the table entry: the value stored into it
		var val ssa.Value
		n := 0
		for _, r := range refs(x) {
			if st, ok := r.(*ssa.Store); ok && st.Addr == ssa.Value(x) {
				val = st.Val
				n++
			}
		}
		if n == 1 {
			return c07LookupKey(val, depth+1)
		}
	}
	return nil
}

// resolveAll resolves every dynamic call / module-interface invoke of the
// module, iterating because parameters get their targets from call sites.
func (fv *c07FV) resolveAll() {
	type dc struct {
		fn *ssa.Function
		ci ssa.CallInstruction
	}
	var dyn []dc
	for _, fn := range fv.p.Funcs {
		allInstrs(fn, func(in ssa.Instruction) {
			ci, ok := in.(ssa.CallInstruction)
			if !ok || staticCallee(ci) != nil {
				return
			}
			if _, isB := ci.Common().Value.(*ssa.Builtin); isB {
				return
			}
			dyn = append(dyn, dc{fn, ci})
		})
	}
	for round := 0; round < 6; round++ {
		changed := false
		fv.tmemo = map[ssa.Value][]c07Target{}
		for _, d := range dyn {
			cc := d.ci.Common()
			var ts []c07Target
			if cc.IsInvoke() {
				ts = fv.ifaceTargets(cc.Value.Type(), cc.Method)
			} else {
				ts = fv.targets(cc.Value)
			}
			if len(ts) <= len(fv.DynTargets[d.ci]) {
				continue
			}
			old := fv.DynTargets[d.ci]
			fv.DynTargets[d.ci] = ts
			changed = true
			var key ssa.Value
			if !cc.IsInvoke() {
				key = c07LookupKey(cc.Value, 0)
			}
			for _, t := range ts {
				seen := false
				for _, o := range old {
					if o == t {
						seen = true
					}
				}
				if !seen {
					fv.Dyn[t.Fn] = append(fv.Dyn[t.Fn], c07CallSite{Caller: d.fn, Instr: d.ci, Shift: t.Shift, Key: key, Dyn: true})
				}
			}
		}
		if !changed {
			break
		}
	}
	for fn, sites := range fv.Dyn {
		for i := range sites {
			sites[i].Multi = len(fv.DynTargets[sites[i].Instr]) > 1
		}
		fv.Dyn[fn] = sites
	}
	for _, d := range dyn {
		if !d.ci.Common().IsInvoke() && len(fv.DynTargets[d.ci]) == 0 {
			fv.Unresolved = append(fv.Unresolved, d.ci)
		}
	}
}

// Sites: all known call sites of fn.
func (fv *c07FV) Sites(fn *ssa.Function) []c07CallSite {
	fn = origin(fn)
	return append(append([]c07CallSite{}, fv.Static[fn]...), fv.Dyn[fn]...)
}

// ---------------------------------------------------------------------------
// Who may call fn?

func (fv *c07FV) Status(fn *ssa.Function) c07FnStatus {
	fn = origin(fn)
	if st, ok := fv.stMemo[fn]; ok {
		return st
	}
	fv.stMemo[fn] = c07StClosed // coinductive assumption for recursion
	st := fv.status0(fn)
	fv.stMemo[fn] = st
	return st
}

func (fv *c07FV) status0(fn *ssa.Function) c07FnStatus {
	if fv.entries[fn] {
		return c07StInput
	}
	if fn.Parent() == nil {
		if obj := fn.Object(); obj != nil && obj.Exported() {
			// exported function, or method with an exported name (reachable
			// through interfaces even when the receiver type is unexported)
			return c07StInput
		}
		if fn.Name() == "init" || fn.Name() == "main" {
			return c07StClosed
		}
	}
	for _, u := range fv.created[fn] {
		if u.In != nil {
			if !fv.useOK(u.In, u.V, 0) {
				return c07StInput
			}
		} else if !fv.onlyCalled(u.V, 0) {
			return c07StInput
		}
	}
	return c07StClosed
}

// onlyCalled: every place the func value v flows to either calls it or is a
// tracked cell all of whose reads are only called.
func (fv *c07FV) onlyCalled(v ssa.Value, depth int) bool {
	if depth > 6 {
		return false
	}
	if fv.trBusy[v] {
		return true
	}
	fv.trBusy[v] = true
	defer delete(fv.trBusy, v)
	if _, ok := v.(*ssa.Function); ok {
		return false // (uses of named functions are checked from their use sites)
	}
	for _, ref := range refs(v) {
		if !fv.useOK(ref, v, depth) {
			return false
		}
	}
	return true
}

func (fv *c07FV) useOK(ref ssa.Instruction, v ssa.Value, depth int) bool {
	switch x := ref.(type) {
	case ssa.CallInstruction:
		cc := x.Common()
		okAll := true
		for i, a := range cc.Args {
			if a != v {
				continue
			}
			// passed as an argument: every possible callee must only call it
			ts := fv.callTargets(x)
			if len(ts) == 0 {
				return false // external or unresolved callee
			}
			for _, t := range ts {
				pi := i + t.Shift
				if pi >= len(t.Fn.Params) {
					return false
				}
				if !fv.onlyCalled(t.Fn.Params[pi], depth+1) {
					okAll = false
				}
			}
		}
		return okAll
	case *ssa.Store:
		if x.Val != v {
			return true
		}
		c, ok := fv.addrCell(x.Addr)
		return ok && fv.cellTracked(c, depth)
	case *ssa.MapUpdate:
		if x.Value != v {
			return true
		}
		c, ok := fv.elemCell(x.Map)
		return ok && fv.cellTracked(c, depth)
	case *ssa.Phi:
		return fv.onlyCalled(x, depth+1)
	case *ssa.ChangeType:
		return fv.onlyCalled(x, depth+1)
	case *ssa.MakeClosure:
		fn, _ := x.Fn.(*ssa.Function)
		if fn == nil {
			return false
		}
		for i, b := range x.Bindings {
			if b == v && i < len(fn.FreeVars) {
				if !fv.onlyCalled(fn.FreeVars[i], depth+1) {
					return false
				}
			}
		}
		return true
	case *ssa.BinOp, *ssa.DebugRef, *ssa.If:
		return true // comparison with nil
	case *ssa.Return:
		g := origin(x.Parent())
		if fv.Status(g) != c07StClosed {
			return false
		}
		idx := -1
		for i, r := range x.Results {
			if r == v {
				idx = i
			}
		}
		for _, cs := range fv.Sites(g) {
			call, ok := cs.Instr.(*ssa.Call)
			if !ok {
				continue
			}
			res := callResult(call, idx)
			if res != nil && !fv.onlyCalled(res, depth+1) {
				return false
			}
		}
		return true
	}
	return false
}

// cellTracked: the cell cannot be read from outside the module, its address
// does not leak, and every read of it is only called.
func (fv *c07FV) cellTracked(c c07Cell, depth int) bool {
	r := fv.find(c)
	switch fv.cellMemo[r] {
	case 1, 3:
		return true
	case 2:
		return false
	}
	fv.cellMemo[r] = 3
	ok := fv.cellTracked0(c, r, depth)
	if ok {
		fv.cellMemo[r] = 1
	} else {
		fv.cellMemo[r] = 2
	}
	return ok
}

func (fv *c07FV) cellTracked0(c, r c07Cell, depth int) bool {
	// visibility of the holder
	holders := []c07Cell{c, r}
	for _, h := range holders {
		switch {
		case h.id != "":
			// field: must be unexported (its name follows the last '.')
			nm := h.id[strings.LastIndex(h.id, ".")+1:]
			if nm == "" || token.IsExported(nm) {
				return false
			}
		case h.v != nil:
			if g, ok := h.v.(*ssa.Global); ok {
				if token.IsExported(g.Name()) {
					return false
				}
				if !fv.globalAddrPrivate(g) {
					return false
				}
			}
			if a, ok := h.v.(*ssa.Alloc); ok && h.kind == 'L' {
				if !c07AllocPrivate(a) {
					return false
				}
			}
			if _, ok := h.v.(*ssa.Parameter); ok {
				return false // collection handed in from elsewhere
			}
		}
	}
	for _, rv := range fv.reads[r] {
		if !fv.onlyCalled(rv, depth+1) {
			return false
		}
	}
	// collection values that alias the cell must stay inside known operations
	for _, cv := range fv.collVals[r] {
		for _, ref := range refs(cv) {
			switch x := ref.(type) {
			case *ssa.Lookup, *ssa.Index, *ssa.IndexAddr, *ssa.Range, *ssa.Slice, *ssa.Phi, *ssa.MapUpdate, *ssa.DebugRef, *ssa.ChangeType, *ssa.BinOp:
			case *ssa.Store:
				if x.Val == cv {
					if _, ok := fv.addrCell(x.Addr); !ok {
						return false
					}
				}
			case *ssa.Call:
				switch builtinName(x) {
				case "len", "cap", "append", "copy", "clear", "delete":
				default:
					return false
				}
			default:
				return false
			}
		}
	}
	return true
}

// globalAddrPrivate: the global is only loaded, stored, or field-/element-
// addressed; its address is never handed to a call or stored.
func (fv *c07FV) globalAddrPrivate(g *ssa.Global) bool {
	ok := true
	for _, fn := range fv.p.Funcs {
		allInstrs(fn, func(in ssa.Instruction) {
			for _, op := range in.Operands(nil) {
				if op == nil || *op != ssa.Value(g) {
					continue
				}
				switch x := in.(type) {
				case *ssa.UnOp, *ssa.FieldAddr, *ssa.IndexAddr:
				case *ssa.Store:
					if x.Addr != ssa.Value(g) {
						ok = false
					}
				default:
					ok = false
				}
			}
		})
	}
	return ok
}

// c07AllocPrivate: a local cell that is only loaded/stored (possibly from
// closures that capture it).
func c07AllocPrivate(a *ssa.Alloc) bool {
	for _, ref := range refs(a) {
		switch x := ref.(type) {
		case *ssa.UnOp, *ssa.DebugRef, *ssa.FieldAddr, *ssa.IndexAddr:
		case *ssa.Store:
			if x.Addr != ssa.Value(a) {
				return false
			}
		case *ssa.MakeClosure:
			fn, _ := x.Fn.(*ssa.Function)
			for i, b := range x.Bindings {
				if b == ssa.Value(a) && fn != nil && i < len(fn.FreeVars) {
					for _, r2 := range refs(fn.FreeVars[i]) {
						switch y := r2.(type) {
						case *ssa.UnOp, *ssa.DebugRef, *ssa.FieldAddr, *ssa.IndexAddr:
						case *ssa.Store:
							if y.Addr != ssa.Value(fn.FreeVars[i]) {
								return false
							}
						default:
							return false
						}
					}
				}
			}
		default:
			return false
		}
	}
	return true
}
