package main

// C12: RunnerManager.Run (K1, K2).

import (
	"go/token"
	"strings"

	"golang.org/x/tools/go/ssa"
)

// c12Recvs lists the plain receives of fn on channels for which isCh holds;
// selects receiving on such a channel make the count undecidable.
func c12Recvs(x *c12, fn *ssa.Function, isCh func(ssa.Value) bool) (out []*ssa.UnOp, ok bool) {
	ok = true
	allInstrs(fn, func(in ssa.Instruction) {
		switch v := in.(type) {
		case *ssa.UnOp:
			if v.Op == token.ARROW && isCh(v.X) {
				if v.CommaOk {
					ok = false
				}
				out = append(out, v)
			}
		case *ssa.Select:
			for _, st := range v.States {
				if isCh(st.Chan) {
					ok = false
				}
			}
		}
	})
	return
}

func (x *c12) checkRunnerRun() {
	r, p := x.r, x.p
	fn := x.rmRun
	fname := FuncName(p, fn)
	ws, ok := x.workers(fn)
	if !ok || len(ws) == 0 {
		return // K0 reported the absence
	}
	// the cancellable context
	var wc *ssa.Call
	nWC := 0
	allInstrs(fn, func(in ssa.Instruction) {
		if call, ok := in.(*ssa.Call); ok && callIs(call, "context", "", "WithCancel") {
			wc = call
			nWC++
		}
	})
	if nWC > 1 {
		r.Undecide("%s derives more than one cancellable context", fname)
		return
	}
	var ctxRes, cancelRes ssa.Value
	if wc != nil {
		ctxRes, cancelRes = callResult(wc, 0), callResult(wc, 1)
	}

	// result channel: the single MakeChan of Run the workers send on
	var ch *ssa.MakeChan
	chOK := true
	for _, w := range ws {
		allInstrs(w.Fn, func(in ssa.Instruction) {
			if s, ok := in.(*ssa.Send); ok {
				mk, _ := c12ChanRoot(s.Chan, w.Bind)
				if mk == nil || mk.Parent() != fn || (ch != nil && mk != ch) {
					chOK = false
					return
				}
				ch = mk
			}
		})
	}
	if !chOK {
		r.Undecide("%s: the runner goroutines send on something other than one channel made in Run", fname)
		return
	}
	if ch == nil {
		r.Violation("C12.K1-worker", fname+" result channel", p.Pos(fn.Pos()), "no runner goroutine sends a result: Run cannot know when the runners have returned")
		return
	}
	isChW := func(w *c12Worker) func(ssa.Value) bool {
		return func(v ssa.Value) bool { mk, _ := c12ChanRoot(v, w.Bind); return mk == ch }
	}
	isChRun := func(v ssa.Value) bool { mk, _ := c12ChanRoot(v, nil); return mk == ch }

	s1Excludes := true
	var spawns []*ssa.Go
	for _, w := range ws {
		isTask := func(call *ssa.Call) bool {
			if call.Call.IsInvoke() {
				return false
			}
			_, ok := c12ElemOfField(call.Call.Value, w.Bind, x.rmRunners)
			return ok
		}
		res := c12WorkerFlow(x, w, isTask, isChW(w), cancelRes)
		if len(res.Tasks) == 0 {
			r.Undecide("%s: goroutine %s does not call an element of RunnerManager.runners directly", fname, w.Name)
			continue
		}
		spawns = append(spawns, w.Go)
		var probs []string
		probs = append(probs, res.Problems...)
		if cancelRes == nil {
			probs = append(probs, "Run no longer derives the runners' context with context.WithCancel: a returning runner cannot stop the others")
		}
		r.Check(len(probs) == 0, "C12.K1-worker", w.Name+" once/send/cancel", x.pos(w.Go),
			"runner called once, one result sent after it, cancel called after it on every path", strings.Join(probs, "; "))

		// ctx argument and element identity
		why := ""
		for _, t := range res.Tasks {
			if len(t.Call.Args) < 1 || ctxRes == nil || !c12HasRoot(t.Call.Args[0], w.Bind, ctxRes) {
				why = "the runner is invoked at " + x.pos(t) + " with a context that is not the one derived by context.WithCancel in Run: cancelling on the first return does not reach this runner"
			}
		}
		r.Check(why == "", "C12.K1-worker", w.Name+" derived ctx", x.pos(w.Go), "runner receives the context whose cancel the goroutines call", why)

		// each iteration runs its own element
		why = ""
		loops := c12Loops(fn)
		l := c12LoopOf(loops, w.Go.Block())
		for _, t := range res.Tasks {
			ias, _ := c12ElemOfField(t.Call.Value, w.Bind, x.rmRunners)
			for _, ia := range ias {
				if l == nil || ia.Index != l.Idx {
					why = "the runner invoked at " + x.pos(t) + " is not runners[i] for the spawn loop's own index: some runner is started twice and another never"
				}
			}
		}
		r.Check(why == "", "C12.K1-worker", w.Name+" own element", x.pos(w.Go), "goroutine i runs runners[i]", why)

		// K2 stage 1
		if len(res.Tasks) == 1 {
			probs, ex, und := c12SenderFilter(x, w, res.Tasks[0], res.Sends)
			if und != "" {
				r.Undecide("%s: %s", w.Name, und)
			} else {
				if !ex {
					s1Excludes = false
				}
				r.Check(len(probs) == 0, "C12.K2-filter", w.Name+" sends", x.pos(w.Go), "nil is sent only for nil or Canceled results", strings.Join(probs, "; "))
			}
		} else {
			s1Excludes = false
		}
	}
	if len(spawns) == 0 {
		return
	}

	recvs, rok := c12Recvs(x, fn, isChRun)
	if !rok {
		r.Undecide("%s collects results through a select or comma-ok receive", fname)
		return
	}
	if len(recvs) == 0 {
		r.Violation("C12.K1-count", fname+" started==collected", p.Pos(fn.Pos()), "Run never receives the runners' results: it returns without waiting and every runner goroutine blocks on its send")
		return
	}
	c12CheckCounts(x, fn, "C12.K1-count", fname+" started==collected", spawns, recvs)

	// K2 stage 2
	var allProbs []string
	var joins []*ssa.Call
	for _, rv := range recvs {
		probs, js := c12Collector(x, fn, rv, true, !s1Excludes)
		allProbs = append(allProbs, probs...)
		joins = append(joins, js...)
	}
	r.Check(len(allProbs) == 0, "C12.K2-filter", fname+" collector", x.pos(recvs[0]),
		"every non-nil collected result is appended to the slice given to errors.Join; Canceled is excluded", strings.Join(allProbs, "; "))
	why := c12JoinReturned(x, fn, spawns, joins, FieldID{})
	r.Check(why == "", "C12.K2-filter", fname+" returns Join", p.Pos(fn.Pos()), "Run returns errors.Join of the collected results", why)
}
