package main

// C12: RunnerManager.Run / RunnerManager.Add (K0, K1, K2).

import (
	"fmt"
	"go/token"
	"go/types"
	"strings"

	"golang.org/x/tools/go/ssa"
)

// spawnInfo caches the worker summary per go-site callee.
// The summary is per go statement, not per callee: a generic "call fn and
// report its result" helper started from several go statements plays a
// different role (inner manager / closer / runner) at each of them.
// Nor per go statement alone: the go statement may sit in a launcher helper
// called from several places, so the call path (frame) and the resolved body
// are part of the key.
type c12SpawnCache map[c12SpawnKey]*c12WorkerSum

type c12SpawnKey struct {
	g     *ssa.Go
	fn    *ssa.Function
	frame int
}

// workerOf resolves and explores the body of the go statement g in state st.
func (x *c12) workerOf(st *xState, g *ssa.Go, cache c12SpawnCache, classify func(fn *ssa.Function) (c12WorkerKind, FieldID, bool)) *c12WorkerSum {
	fn, _ := x.calleeFn(st, g)
	if fn == nil || len(fn.Blocks) == 0 {
		x.undecide("%s starts a goroutine whose body is not statically known (%s)", FuncName(x.p, st.x.frames0().fn), x.pos(g))
		return nil
	}
	key := c12SpawnKey{g, fn, st.fr.id}
	if s, ok := cache[key]; ok {
		return s
	}
	kind, field, ok := classify(fn)
	if !ok {
		cache[key] = nil
		return nil
	}
	bind := c12BindOf(g, fn)
	snap := st.clone()
	oracle := func(v ssa.Value) xVal { return evalSpawnerSide(snap, v, g) }
	s := x.exploreWorker(fn, bind, kind, field, oracle)
	cache[key] = s
	return s
}

// frames0 returns the root frame of the exploration.
func (e *xplorer) frames0() *xFrame {
	for _, f := range e.frames {
		if f.parent == nil {
			return f
		}
	}
	return nil
}

// joinStore: the store `*addr = val` puts val into memory (a varargs array or
// a slice) that flows — also through helpers' results and parameters — into
// errors.Join.
func (x *c12) joinStore(s *ssa.Store) bool {
	base := c12StoreBase(s)
	return base != nil && x.reachesJoin(base)
}

// reachesJoin: v flows (slice, append, phi, local cell, result of a
// same-package function to its callers, argument to a same-package callee)
// into the variadic argument of errors.Join.
func (x *c12) reachesJoin(v ssa.Value) bool {
	seen := map[ssa.Value]bool{}
	found := false
	var walk func(v ssa.Value)
	callersOf := func(fn *ssa.Function) []*ssa.Call {
		var out []*ssa.Call
		for _, f := range x.p.Funcs {
			if f.Pkg != fn.Pkg && !(f.Parent() != nil) {
				continue
			}
			allInstrs(f, func(in ssa.Instruction) {
				if c, ok := in.(*ssa.Call); ok && staticCallee(c) == fn {
					out = append(out, c)
				}
			})
		}
		return out
	}
	walk = func(v ssa.Value) {
		if v == nil || seen[v] || found {
			return
		}
		seen[v] = true
		for _, r := range refs(v) {
			switch t := r.(type) {
			case *ssa.Slice:
				if t.X == v {
					walk(t)
				}
			case *ssa.Phi:
				walk(t)
			case *ssa.ChangeType:
				walk(t)
			case *ssa.Call:
				if builtinName(t) == "append" {
					walk(t)
				} else if callIs(t, "errors", "", "Join") {
					found = true
				} else if obj := calleeObj(t); obj != nil && obj.Pkg() != nil && obj.Pkg().Path() == "slices" && (obj.Name() == "Concat" || obj.Name() == "Clone" || obj.Name() == "Insert" || obj.Name() == "Grow" || obj.Name() == "Clip") {
					walk(t) // the elements of the argument are elements of the result
				} else if callee := staticCallee(t); callee != nil && x.inPkg(callee) && len(callee.Blocks) > 0 {
					for i, a := range t.Call.Args {
						if a == v && i < len(callee.Params) {
							walk(callee.Params[i])
						}
					}
				}
			case *ssa.Store:
				if t.Val == v {
					if cell := c12CellOf(t.Addr); cell != nil {
						c12CellLoads(cell, walk)
					}
					if ia, ok := t.Addr.(*ssa.IndexAddr); ok {
						walk(ia.X) // a slice put into a (variadic) array of slices
					}
				}
			case *ssa.Return:
				fn := t.Parent()
				for i, res := range t.Results {
					if res != v {
						continue
					}
					for _, c := range callersOf(fn) {
						if len(t.Results) == 1 {
							walk(c)
						} else {
							for _, rr := range refs(c) {
								if ex, ok := rr.(*ssa.Extract); ok && ex.Index == i {
									walk(ex)
								}
							}
						}
					}
				}
			}
		}
	}
	walk(v)
	return found
}

// joinNilFact: the branch establishes that the errors.Join result is nil
// (1), non-nil (2), or says nothing about it (0).
func joinNilFact(cond xVal, truth bool) int {
	if cond.K != xCmp || (cond.Op != token.EQL && cond.Op != token.NEQ) {
		return 0
	}
	a, b := *cond.X, *cond.Y
	if !isJoinCall(a) {
		a, b = b, a
	}
	if !isJoinCall(a) || b.K != xNil {
		return 0
	}
	if (cond.Op == token.EQL) == truth {
		return 1
	}
	return 2
}

func isJoinCall(v xVal) bool {
	if v.K != xAtom {
		return false
	}
	c, ok := v.V.(*ssa.Call)
	return ok && callIs(c, "errors", "", "Join")
}

func (x *c12) checkOnceAdd() {
	// RunnerManager.Add — and RunnerCloserManager.Add when the inner Add is
	// inlined into it: appends only when running was read unset; the running
	// branch returns non-nil
	x.checkAdd(x.rmAdd, true)
	writes := false
	for f := range x.tree(x.cmAdd) {
		for _, a := range FieldAccesses(f, func(id FieldID) bool { return id == x.rmRunners }) {
			if a.Kind == AccWrite {
				writes = true
			}
		}
	}
	if writes {
		x.checkAdd(x.cmAdd, false)
	}
}

func (x *c12) checkAdd(fn *ssa.Function, must bool) {
	p := x.p
	construct := FuncName(p, fn) + " rejects after start"
	x.seen("C12.K0-once", construct, p.Pos(fn.Pos()))
	const (
		bUnset = 1 << 0
		bSet   = 1 << 1
	)
	nW := 0
	cl := &xClient{NoInline: func(f *ssa.Function) bool { return x.anchors[f] && f != fn }}
	cl.OnBranch = func(st *xState, ifi *ssa.If, cond xVal, truth bool) bool {
		if x.flagSet(cond, truth, x.rmRunning) {
			st.Client |= bSet
		}
		if x.flagUnset(cond, truth, x.rmRunning) {
			st.Client |= bUnset
		}
		return true
	}
	cl.OnInstr = func(st *xState, in ssa.Instruction, replay bool) bool {
		if s, ok := in.(*ssa.Store); ok {
			if fa, ok := s.Addr.(*ssa.FieldAddr); ok && fieldIDOfAddr(fa) == x.rmRunners {
				nW++
				if st.Client&bUnset == 0 {
					x.bad("C12.K0-once", construct, x.pos(in), "the append to the runners at "+x.pos(in)+" can be reached without having read the running flag unset: a runner added after Run started is never started, and Run — whose collection re-reads the number of runners — waits for a result that never comes")
				}
			}
		}
		return true
	}
	cl.OnReturn = func(st *xState, ret *ssa.Return, res []xVal) {
		if st.Client&bSet != 0 && len(res) == 1 && res[0].K == xNil {
			x.bad("C12.K0-once", construct, x.pos(ret), "Add returns nil at "+x.pos(ret)+" although it found the manager running (the addition is silently dropped instead of rejected)")
		}
	}
	ex := newXplorer(p, x.ssaPkg, cl)
	ex.Explore(fn, nil, 0)
	if nW == 0 && must {
		x.undecide("%s no longer stores to the runners (Add restructured)", FuncName(p, fn))
	}
}

func (x *c12) checkRunnerRun() {
	p := x.p
	fn := x.rmRun
	fname := FuncName(p, fn)
	cOnce := fname + " once-guard"
	cCount := fname + " started==collected"
	cColl := fname + " collector"
	cJoin := fname + " returns Join"
	x.seen("C12.K0-once", cOnce, p.Pos(fn.Pos()))
	x.seen("C12.K1-count", cCount, p.Pos(fn.Pos()))
	x.seen("C12.K2-filter", cColl, p.Pos(fn.Pos()))
	x.seen("C12.K2-filter", cJoin, p.Pos(fn.Pos()))

	cache := c12SpawnCache{}
	classify := func(f *ssa.Function) (c12WorkerKind, FieldID, bool) { return wkRunner, x.rmRunners, true }

	const (
		bOwn     = 1 << 0
		bLoaded  = 1 << 1 // running.Load()==false seen (Load+Store idiom)
		bStored  = 1 << 2 // running.Store(true) executed
		shMask   = 4      // 4 bits: elements started
		shRecv   = 8      // 3 bits
		shSpawn  = 11     // 3 bits
		bEAct    = 1 << 14
		shENil   = 15
		shECan   = 17
		bEApp    = 1 << 19
		bAnyApp  = 1 << 20
		bJoinNil = 1 << 21
	)
	allExcl := true
	sawGo, sawTAS, loadStore := false, false, false
	sawUnkTAS := false
	var resultChan ssa.Value // the MakeChan all workers send on
	anyRecv := false

	for n := 0; n <= 4; n++ {
		n := n
		isE := func(v xVal) bool {
			if v.K != xAtom {
				return false
			}
			if u, ok := v.V.(*ssa.UnOp); ok && u.Op == token.ARROW {
				return true
			}
			ex, ok := v.V.(*ssa.Extract)
			if !ok || ex.Index < 2 {
				return false
			}
			_, isSel := ex.Tuple.(*ssa.Select)
			return isSel
		}
		verifyE := func(st *xState, where string) {
			if st.Client&bEAct == 0 {
				return
			}
			nn, cc := int(st.Client>>shENil)&3, int(st.Client>>shECan)&3
			if st.Client&bEApp != 0 {
				if !allExcl && !(cc == c12No || nn == c12Yes) {
					x.bad("C12.K2-filter", cColl, "", "a result that may be context.Canceled is joined into the returned error ("+where+"): neither the goroutine nor the collector excludes it")
				}
				return
			}
			if nn == c12Yes || cc == c12Yes {
				return
			}
			x.bad("C12.K2-filter", cColl, "", "a collected result that is not known to be nil or context.Canceled does not reach errors.Join ("+where+"): that error is missing from the returned error")
		}
		cl := &xClient{Lens: map[FieldID]int{x.rmRunners: n}, NoInline: func(f *ssa.Function) bool { return x.anchors[f] && f != fn }}
		cl.OnBranch = func(st *xState, ifi *ssa.If, cond xVal, truth bool) bool {
			if x.tasTried(cond, x.rmRunning) {
				sawTAS = true
			}
			if x.unresolvedTAS(cond) {
				sawUnkTAS = true
			}
			if x.tasWon(cond, truth, x.rmRunning) {
				st.Client |= bOwn
			}
			if x.flagUnset(cond, truth, x.rmRunning) {
				st.Client |= bLoaded
			}
			if joinNilFact(cond, truth) == 1 {
				st.Client |= bJoinNil
			}
			if st.Client&bEAct != 0 {
				fnn, fc := x.errFacts(st, cond, truth, isE)
				if fnn != c12Unk || fc != c12Unk {
					nn, cc := int(st.Client>>shENil)&3, int(st.Client>>shECan)&3
					n2, c2, ok := c12Refine(nn, cc, fnn, fc)
					if !ok {
						return false
					}
					st.Client &^= 3<<shENil | 3<<shECan
					st.Client |= uint64(n2)<<shENil | uint64(c2)<<shECan
				}
			}
			return true
		}
		onRecv := func(st *xState, in ssa.Instruction, chv ssa.Value, commaOk bool) bool {
			ch := st.Eval(chv)
			if ch.K != xAtom || resultChan == nil || ch.V != resultChan {
				if _, isMk := ch.V.(*ssa.MakeChan); ch.K == xAtom && isMk && resultChan == nil {
					// receive before any spawn (n == 0 never gets here legitimately)
				} else {
					return true
				}
			}
			if commaOk {
				x.undecide("%s collects results through a comma-ok receive", fname)
			}
			anyRecv = true
			verifyE(st, "before the next receive at "+x.pos(in))
			rc := (st.Client >> shRecv) & 7
			sp := (st.Client >> shSpawn) & 7
			if rc >= sp {
				x.bad("C12.K1-count", cCount, x.pos(in), fmt.Sprintf("with %d runners Run receives a result at %s although only %d goroutines were started and %d results already received: it waits forever for a result nobody sends", n, x.pos(in), sp, rc))
				return false
			}
			rc++
			st.Client = st.Client&^(7<<shRecv) | rc<<shRecv
			st.Client &^= bEApp | 3<<shENil | 3<<shECan
			st.Client |= bEAct
			return true
		}
		cl.OnSelect = func(st *xState, sel *ssa.Select, k int) bool {
			if k >= 0 && k < len(sel.States) && sel.States[k].Dir == types.RecvOnly {
				return onRecv(st, sel, sel.States[k].Chan, false)
			}
			return true
		}
		cl.OnInstr = func(st *xState, in ssa.Instruction, replay bool) bool {
			switch v := in.(type) {
			case *ssa.Call:
				if x.flagSetCall(st, v, x.rmRunning) && st.Client&bLoaded != 0 {
					st.Client |= bStored
				}
			case *ssa.Go:
				sawGo = true
				owned := st.Client&bOwn != 0
				if !owned && st.Client&bLoaded != 0 && st.Client&bStored != 0 {
					owned, loadStore = true, true
				}
				if !owned && sawUnkTAS {
					x.undecide("%s: a goroutine is started at %s after a test-and-set of a flag the check cannot identify", fname, x.pos(in))
				} else if !owned {
					x.bad("C12.K0-once", cOnce, x.pos(in), "the goroutine started at "+x.pos(in)+" can be reached without this call's own test-and-set of the running flag having succeeded: a second Run would start every runner again")
				}
				w := x.workerOf(st, v, cache, classify)
				if w == nil {
					return true
				}
				if w.Tasks == 0 || w.Unknown != "" {
					return true
				}
				if !w.Excludes {
					allExcl = false
				}
				// which element does this goroutine run?
				for _, tv := range w.TaskVals {
					ev := evalSpawnerSide(st, tv, v)
					if ev.K == xElem && ev.Base != nil && ev.Base.K == xField && ev.Base.Fld == x.rmRunners && ev.Idx != nil && ev.Idx.K == xInt && ev.Idx.I >= 0 && ev.Idx.I < 4 {
						bit := uint64(1) << (shMask + uint(ev.Idx.I))
						if st.Client&bit != 0 {
							x.bad("C12.K1-count", cCount, x.pos(in), fmt.Sprintf("with %d runners, runner %d is started twice (go statement at %s)", n, ev.Idx.I, x.pos(in)))
						}
						st.Client |= bit
					} else {
						x.undecide("%s: cannot tell which runner the goroutine started at %s runs (%s)", fname, x.pos(in), ev.String())
					}
				}
				// channel
				for _, c := range w.Chans {
					ev := evalSpawnerSide(st, c, v)
					if ev.K != xAtom {
						x.undecide("%s: the runner goroutines do not report on a channel made in Run", fname)
						continue
					}
					if _, isMk := ev.V.(*ssa.MakeChan); !isMk || (resultChan != nil && resultChan != ev.V) {
						x.undecide("%s: the runner goroutines do not report on one channel made in Run", fname)
						continue
					}
					resultChan = ev.V
				}
				sp := (st.Client >> shSpawn) & 7
				if sp < 7 {
					sp++
				}
				st.Client = st.Client&^(7<<shSpawn) | sp<<shSpawn
			case *ssa.UnOp:
				if v.Op == token.ARROW {
					return onRecv(st, in, v.X, v.CommaOk)
				}
			case *ssa.Store:
				if st.Client&bEAct != 0 && isE(st.Eval(v.Val)) && x.joinStore(v) {
					st.Client |= bEApp | bAnyApp
				}
			}
			return true
		}
		cl.OnReturn = func(st *xState, ret *ssa.Return, res []xVal) {
			sp := int(st.Client>>shSpawn) & 7
			if sp == 0 && st.Client&bOwn == 0 && !(st.Client&bLoaded != 0 && st.Client&bStored != 0) {
				// a path on which this call did not take the running flag: it must
				// be a refusal, not a successful run that leaves the manager unmarked
				if len(res) == 1 && res[0].K == xNil && !sawUnkTAS {
					x.bad("C12.K0-once", cOnce, x.pos(ret), fmt.Sprintf("with %d runners Run returns nil at %s on a path on which it did not set the running flag: the manager is not marked as started, so a later Add is accepted and a later Run runs it (again) — a manager must run at most once and reject additions afterwards", n, x.pos(ret)))
				}
				return // refused
			}
			verifyE(st, "return at "+x.pos(ret))
			mask := int(st.Client>>shMask) & 15
			want := (1 << uint(n)) - 1
			if mask != want {
				for i := 0; i < n; i++ {
					if mask&(1<<uint(i)) == 0 {
						x.bad("C12.K1-count", cCount, x.pos(ret), fmt.Sprintf("with %d runners Run can return at %s without having started runner %d", n, x.pos(ret), i))
						break
					}
				}
			}
			rc := int(st.Client>>shRecv) & 7
			if rc != sp {
				x.bad("C12.K1-count", cCount, x.pos(ret), fmt.Sprintf("with %d runners Run can return at %s having started %d goroutines but received %d results: it returns while a runner is still running, and that goroutine blocks forever on its send", n, x.pos(ret), sp, rc))
			}
			if len(res) == 1 {
				switch {
				case isJoinCall(res[0]):
				case res[0].K == xNil && (st.Client&bAnyApp == 0 || st.Client&bJoinNil != 0):
				default:
					x.bad("C12.K2-filter", cJoin, x.pos(ret), "the return at "+x.pos(ret)+" does not return the errors.Join of the collected results")
				}
			}
		}
		ex := newXplorer(p, x.ssaPkg, cl)
		ex.Explore(fn, nil, 0)
		if ex.Overflow {
			x.undecide("%s: path exploration exceeded its budget (n=%d)", fname, n)
		}
	}
	if !sawGo {
		x.bad("C12.K0-once", cOnce, p.Pos(fn.Pos()), "Run no longer starts any goroutine: the runners are not run in parallel")
		return
	}
	if !sawTAS && !loadStore && sawUnkTAS {
		x.undecide("%s test-and-sets a flag the check cannot identify", fname)
	} else if !sawTAS && !loadStore {
		x.bad("C12.K0-once", cOnce, p.Pos(fn.Pos()), "Run no longer takes ownership with an atomic test-and-set of the running flag (CompareAndSwap(false,true) / Swap(true)): a second Run would start every runner again")
	}
	if loadStore {
		x.r.Note("%s guards with Load+Store instead of an atomic test-and-set: two Run calls racing each other can both start the runners (concurrent Run calls are not in the statement's quantifier; not armed)", fname)
	}
	if !anyRecv {
		x.bad("C12.K1-count", cCount, p.Pos(fn.Pos()), "Run never receives the runners' results: it returns without waiting and every runner goroutine blocks on its send")
	}
	// per-worker obligations
	for _, w := range cache {
		if w == nil {
			continue
		}
		x.reportRunnerWorker(w)
	}
}

func (x *c12) reportRunnerWorker(w *c12WorkerSum) {
	pos := x.p.Pos(w.Fn.Pos())
	if w.Unknown != "" {
		x.undecide("%s: %s", w.Name, w.Unknown)
		return
	}
	if w.Tasks == 0 {
		x.undecide("goroutine %s does not call an element of the runners", w.Name)
		return
	}
	base := FuncName(x.p, x.rmRun) + " runner goroutine"
	c1 := base + " once/send/cancel"
	x.seen("C12.K1-worker", c1, pos)
	for m := range w.Problems {
		x.bad("C12.K1-worker", c1, pos, w.Name+": "+m)
	}
	c2 := base + " derived ctx"
	x.seen("C12.K1-worker", c2, pos)
	if len(w.CancelOf) == 0 {
		x.bad("C12.K1-worker", c1, pos, "the goroutine never calls the cancel function of a context derived with context.WithCancel: a returning runner cannot stop the others")
	}
	okCtx := !w.CtxOther
	for wc := range w.CancelOf {
		if !w.CtxOf[wc] {
			okCtx = false
		}
	}
	if !okCtx || len(w.CtxOf) == 0 {
		x.bad("C12.K1-worker", c2, pos, "the runner is invoked with a context that is not the one derived by the context.WithCancel whose cancel the goroutine calls: cancelling on the first return does not reach this runner")
	}
	c3 := base + " sends"
	x.seen("C12.K2-filter", c3, pos)
	for m := range w.Filter {
		x.bad("C12.K2-filter", c3, pos, m)
	}
	_ = strings.Join
}
