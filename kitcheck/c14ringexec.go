package main

// Bounded differential evaluation of go/ssa (C14 ring rule): a tiny evaluator
// for the instruction subset pointer-structure code uses, run on small
// concrete heaps (nil, zero-value nodes, well-formed rings of 1..5 nodes, one
// or two rings) and small integers. It is used only to REFUTE: a concrete
// input on which the port and the reference end in different observable
// states (results, every node's links and Value, callback sequence, panic) is
// a witness that the port does not behave like container/ring.

import (
	"fmt"
	"go/constant"
	"go/token"
	"go/types"
	"sort"
	"strings"

	"golang.org/x/tools/go/ssa"
)

type cvKind uint8

const (
	cvNil cvKind = iota
	cvInt
	cvBool
	cvPtr  // pointer to a struct object
	cvAddr // address of a field / cell
	cvTok  // opaque token (element values)
	cvFunc // ssa function / closure
	cvCB   // recording callback
	cvTuple
	cvUnit
)

type cval struct {
	k     cvKind
	i     int64
	b     bool
	o     *cobj
	s     string
	fn    *ssa.Function
	binds []cval
	tup   []cval
}

type cobj struct {
	label  string
	fields []cval
	fresh  bool
}

type cpanic struct{ msg string }
type cabort struct{ msg string }

type cmachine struct {
	steps    int
	maxSteps int
	trace    []string
	fresh    []*cobj
	// fieldIdx maps (struct type, field index) to the canonical field index
	fieldIdx func(t types.Type, idx int) int
	depth    int
}

func (m *cmachine) operand(env map[ssa.Value]cval, v ssa.Value) cval {
	switch c := v.(type) {
	case *ssa.Const:
		if c.Value == nil {
			if b, ok := c.Type().Underlying().(*types.Basic); ok {
				if b.Info()&types.IsInteger != 0 {
					return cval{k: cvInt}
				}
				if b.Info()&types.IsBoolean != 0 {
					return cval{k: cvBool}
				}
			}
			return cval{k: cvNil}
		}
		switch c.Value.Kind() {
		case constant.Int:
			i, _ := constant.Int64Val(c.Value)
			return cval{k: cvInt, i: i}
		case constant.Bool:
			return cval{k: cvBool, b: constant.BoolVal(c.Value)}
		}
		return cval{k: cvTok, s: "const:" + c.Value.ExactString()}
	case *ssa.Function:
		return cval{k: cvFunc, fn: c}
	}
	if x, ok := env[v]; ok {
		return x
	}
	panic(cabort{"undefined value " + v.Name()})
}

func cvEqual(a, b cval) bool {
	if a.k == cvNil || b.k == cvNil {
		return a.k == b.k
	}
	if a.k != b.k {
		return false
	}
	switch a.k {
	case cvInt:
		return a.i == b.i
	case cvBool:
		return a.b == b.b
	case cvPtr:
		return a.o == b.o
	case cvAddr:
		return a.o == b.o && a.i == b.i
	case cvTok:
		return a.s == b.s
	}
	panic(cabort{"comparison of unsupported values"})
}

func (m *cmachine) call(fn *ssa.Function, args []cval, binds []cval) cval {
	if o := fn.Origin(); o != nil && len(o.Blocks) > 0 {
		fn = o
	}
	if len(fn.Blocks) == 0 {
		panic(cabort{"call of a function without body: " + fn.Name()})
	}
	m.depth++
	defer func() { m.depth-- }()
	if m.depth > 40 {
		panic(cabort{"call depth"})
	}
	env := map[ssa.Value]cval{}
	for i, p := range fn.Params {
		if i < len(args) {
			env[p] = args[i]
		}
	}
	for i, fv := range fn.FreeVars {
		if i < len(binds) {
			env[fv] = binds[i]
		}
	}
	blk := fn.Blocks[0]
	var prev *ssa.BasicBlock
	for {
		var next *ssa.BasicBlock
		// phis read simultaneously
		phiVals := map[ssa.Value]cval{}
		i := 0
		for ; i < len(blk.Instrs); i++ {
			ph, ok := blk.Instrs[i].(*ssa.Phi)
			if !ok {
				break
			}
			for j, pb := range blk.Preds {
				if pb == prev {
					phiVals[ph] = m.operand(env, ph.Edges[j])
				}
			}
		}
		for k, v := range phiVals {
			env[k] = v
		}
		for ; i < len(blk.Instrs); i++ {
			m.steps++
			if m.steps > m.maxSteps {
				panic(cpanic{"does not terminate (step budget)"})
			}
			switch x := blk.Instrs[i].(type) {
			case *ssa.DebugRef:
			case *ssa.Alloc:
				et := x.Type().Underlying().(*types.Pointer).Elem()
				if st, ok := et.Underlying().(*types.Struct); ok {
					o := &cobj{fresh: true, fields: make([]cval, st.NumFields())}
					for fi := 0; fi < st.NumFields(); fi++ {
						o.fields[m.fieldIdx(x.Type(), fi)] = czero(st.Field(fi).Type())
					}
					m.fresh = append(m.fresh, o)
					env[x] = cval{k: cvPtr, o: o}
				} else {
					o := &cobj{fresh: true, fields: []cval{czero(et)}}
					env[x] = cval{k: cvAddr, o: o, i: 0}
				}
			case *ssa.FieldAddr:
				base := m.operand(env, x.X)
				if base.k == cvNil {
					panic(cpanic{"nil pointer dereference"})
				}
				if base.k != cvPtr {
					panic(cabort{"field of a non-struct pointer"})
				}
				env[x] = cval{k: cvAddr, o: base.o, i: int64(m.fieldIdx(x.X.Type(), x.Field))}
			case *ssa.UnOp:
				a := m.operand(env, x.X)
				switch x.Op {
				case token.MUL:
					if a.k == cvNil {
						panic(cpanic{"nil pointer dereference"})
					}
					if a.k != cvAddr {
						panic(cabort{"load of a whole object"})
					}
					env[x] = a.o.fields[a.i]
				case token.NOT:
					env[x] = cval{k: cvBool, b: !a.b}
				case token.SUB:
					env[x] = cval{k: cvInt, i: -a.i}
				default:
					panic(cabort{"unary " + x.Op.String()})
				}
			case *ssa.Store:
				a := m.operand(env, x.Addr)
				if a.k == cvNil {
					panic(cpanic{"nil pointer dereference"})
				}
				if a.k != cvAddr {
					panic(cabort{"store to a whole object"})
				}
				a.o.fields[a.i] = m.operand(env, x.Val)
			case *ssa.BinOp:
				a, b := m.operand(env, x.X), m.operand(env, x.Y)
				env[x] = cbinop(x.Op, a, b)
			case *ssa.ChangeType:
				env[x] = m.operand(env, x.X)
			case *ssa.ChangeInterface:
				env[x] = m.operand(env, x.X)
			case *ssa.MakeInterface:
				env[x] = m.operand(env, x.X)
			case *ssa.Convert:
				env[x] = m.operand(env, x.X)
			case *ssa.Extract:
				t := m.operand(env, x.Tuple)
				if t.k != cvTuple || x.Index >= len(t.tup) {
					panic(cabort{"extract"})
				}
				env[x] = t.tup[x.Index]
			case *ssa.MakeClosure:
				var bs []cval
				for _, b := range x.Bindings {
					bs = append(bs, m.operand(env, b))
				}
				env[x] = cval{k: cvFunc, fn: x.Fn.(*ssa.Function), binds: bs}
			case *ssa.Call:
				cc := x.Common()
				if cc.IsInvoke() {
					panic(cabort{"interface method call"})
				}
				var as []cval
				for _, a := range cc.Args {
					as = append(as, m.operand(env, a))
				}
				if b, ok := cc.Value.(*ssa.Builtin); ok {
					panic(cabort{"builtin " + b.Name()})
				}
				f := m.operand(env, cc.Value)
				switch f.k {
				case cvFunc:
					env[x] = m.call(f.fn, as, f.binds)
				case cvCB:
					var parts []string
					for _, a := range as {
						parts = append(parts, m.show(a))
					}
					m.trace = append(m.trace, f.s+"("+strings.Join(parts, ",")+")")
					env[x] = cval{k: cvUnit}
				case cvNil:
					panic(cpanic{"call of a nil function"})
				default:
					panic(cabort{"call of an unsupported value"})
				}
			case *ssa.Jump:
				next = blk.Succs[0]
			case *ssa.If:
				c := m.operand(env, x.Cond)
				if c.b {
					next = blk.Succs[0]
				} else {
					next = blk.Succs[1]
				}
			case *ssa.Return:
				switch len(x.Results) {
				case 0:
					return cval{k: cvUnit}
				case 1:
					return m.operand(env, x.Results[0])
				}
				var t []cval
				for _, rv := range x.Results {
					t = append(t, m.operand(env, rv))
				}
				return cval{k: cvTuple, tup: t}
			case *ssa.Panic:
				panic(cpanic{"explicit panic"})
			default:
				panic(cabort{fmt.Sprintf("unsupported instruction %T", x)})
			}
		}
		if next == nil {
			panic(cabort{"block without terminator"})
		}
		prev, blk = blk, next
	}
}

func czero(t types.Type) cval {
	if _, tp := t.(*types.TypeParam); tp {
		return cval{k: cvNil}
	}
	if b, ok := t.Underlying().(*types.Basic); ok {
		if b.Info()&types.IsInteger != 0 {
			return cval{k: cvInt}
		}
		if b.Info()&types.IsBoolean != 0 {
			return cval{k: cvBool}
		}
	}
	return cval{k: cvNil}
}

func cbinop(op token.Token, a, b cval) cval {
	switch op {
	case token.EQL:
		return cval{k: cvBool, b: cvEqual(a, b)}
	case token.NEQ:
		return cval{k: cvBool, b: !cvEqual(a, b)}
	}
	if a.k != cvInt || b.k != cvInt {
		panic(cabort{"arithmetic on non-integers"})
	}
	switch op {
	case token.ADD:
		return cval{k: cvInt, i: a.i + b.i}
	case token.SUB:
		return cval{k: cvInt, i: a.i - b.i}
	case token.MUL:
		return cval{k: cvInt, i: a.i * b.i}
	case token.QUO:
		if b.i == 0 {
			panic(cpanic{"division by zero"})
		}
		return cval{k: cvInt, i: a.i / b.i}
	case token.REM:
		if b.i == 0 {
			panic(cpanic{"division by zero"})
		}
		return cval{k: cvInt, i: a.i % b.i}
	case token.LSS:
		return cval{k: cvBool, b: a.i < b.i}
	case token.LEQ:
		return cval{k: cvBool, b: a.i <= b.i}
	case token.GTR:
		return cval{k: cvBool, b: a.i > b.i}
	case token.GEQ:
		return cval{k: cvBool, b: a.i >= b.i}
	}
	panic(cabort{"binary " + op.String()})
}

// show renders a value with canonical names for fresh objects (numbered in
// the order they are first shown).
func (m *cmachine) show(v cval) string {
	switch v.k {
	case cvNil:
		return "nil"
	case cvInt:
		return fmt.Sprint(v.i)
	case cvBool:
		return fmt.Sprint(v.b)
	case cvTok:
		return v.s
	case cvPtr:
		if v.o.label == "" {
			n := 0
			for _, o := range m.fresh {
				if o.label != "" {
					n++
				}
			}
			v.o.label = fmt.Sprintf("new%d", n+1)
		}
		return v.o.label
	case cvUnit:
		return "()"
	case cvTuple:
		var parts []string
		for _, t := range v.tup {
			parts = append(parts, m.show(t))
		}
		return "(" + strings.Join(parts, ",") + ")"
	case cvFunc, cvCB:
		return "func"
	case cvAddr:
		return "&" + m.show(cval{k: cvPtr, o: v.o}) + fmt.Sprintf(".%d", v.i)
	}
	return "?"
}

// c14Scenario: a heap and the arguments of one call.
type c14Scenario struct {
	desc  string
	build func() (objs []*cobj, args []cval)
}

const (
	c14FNext  = 0
	c14FPrev  = 1
	c14FValue = 2
)

func c14MakeRing(name string, n int) []*cobj {
	objs := make([]*cobj, n)
	for i := range objs {
		objs[i] = &cobj{label: fmt.Sprintf("%s%d", name, i), fields: make([]cval, 3)}
	}
	for i, o := range objs {
		o.fields[c14FNext] = cval{k: cvPtr, o: objs[(i+1)%n]}
		o.fields[c14FPrev] = cval{k: cvPtr, o: objs[(i+n-1)%n]}
		o.fields[c14FValue] = cval{k: cvTok, s: fmt.Sprintf("v%s%d", name, i)}
	}
	return objs
}

func c14ZeroNode(name string) *cobj {
	return &cobj{label: name, fields: []cval{{k: cvNil}, {k: cvNil}, {k: cvTok, s: "v" + name}}}
}

// c14Scenarios enumerates inputs for a function with the given parameter
// kinds: 'p' pointer to a ring node, 'i' int, 'f' callback.
func c14Scenarios(kinds string) []c14Scenario {
	type ptrChoice struct {
		desc string
		// returns objects and the chosen node (nil = nil pointer)
		mk func() ([]*cobj, *cobj)
	}
	var first []ptrChoice
	first = append(first, ptrChoice{"nil", func() ([]*cobj, *cobj) { return nil, nil }})
	first = append(first, ptrChoice{"a zero-value node", func() ([]*cobj, *cobj) { z := c14ZeroNode("z"); return []*cobj{z}, z }})
	for n := 1; n <= 5; n++ {
		n := n
		first = append(first, ptrChoice{fmt.Sprintf("node a0 of a ring of %d", n), func() ([]*cobj, *cobj) { r := c14MakeRing("a", n); return r, r[0] }})
	}
	ints := []int64{}
	for i := int64(-7); i <= 7; i++ {
		ints = append(ints, i)
	}
	var out []c14Scenario
	var rec func(pos int, desc []string, builders []func(objs *[]*cobj, args *[]cval, firstNode **cobj, firstRing *[]*cobj))
	rec = func(pos int, desc []string, builders []func(objs *[]*cobj, args *[]cval, firstNode **cobj, firstRing *[]*cobj)) {
		if pos == len(kinds) {
			bs := append([]func(objs *[]*cobj, args *[]cval, firstNode **cobj, firstRing *[]*cobj){}, builders...)
			out = append(out, c14Scenario{desc: strings.Join(desc, ", "), build: func() ([]*cobj, []cval) {
				var objs []*cobj
				var args []cval
				var fn *cobj
				var fr []*cobj
				for _, b := range bs {
					b(&objs, &args, &fn, &fr)
				}
				return objs, args
			}})
			return
		}
		switch kinds[pos] {
		case 'i':
			for _, k := range ints {
				k := k
				rec(pos+1, append(desc, fmt.Sprintf("n=%d", k)), append(builders, func(objs *[]*cobj, args *[]cval, _ **cobj, _ *[]*cobj) {
					*args = append(*args, cval{k: cvInt, i: k})
				}))
			}
		case 'f':
			rec(pos+1, append(desc, "f records its argument"), append(builders, func(objs *[]*cobj, args *[]cval, _ **cobj, _ *[]*cobj) {
				*args = append(*args, cval{k: cvCB, s: "f"})
			}))
		case 'p':
			isFirst := true
			for i := 0; i < pos; i++ {
				if kinds[i] == 'p' {
					isFirst = false
				}
			}
			if isFirst {
				for _, ch := range first {
					ch := ch
					rec(pos+1, append(desc, "r = "+ch.desc), append(builders, func(objs *[]*cobj, args *[]cval, fn **cobj, fr *[]*cobj) {
						os, node := ch.mk()
						*objs = append(*objs, os...)
						*fn, *fr = node, os
						if node == nil {
							*args = append(*args, cval{k: cvNil})
						} else {
							*args = append(*args, cval{k: cvPtr, o: node})
						}
					}))
				}
				return
			}
			// second pointer: nil, zero node, same ring (every position), separate ring
			rec(pos+1, append(desc, "s = nil"), append(builders, func(objs *[]*cobj, args *[]cval, _ **cobj, _ *[]*cobj) {
				*args = append(*args, cval{k: cvNil})
			}))
			rec(pos+1, append(desc, "s = a separate zero-value node"), append(builders, func(objs *[]*cobj, args *[]cval, _ **cobj, _ *[]*cobj) {
				z := c14ZeroNode("y")
				*objs = append(*objs, z)
				*args = append(*args, cval{k: cvPtr, o: z})
			}))
			for j := 0; j < 5; j++ {
				j := j
				rec(pos+1, append(desc, fmt.Sprintf("s = node %d of the same ring", j)), append(builders, func(objs *[]*cobj, args *[]cval, _ **cobj, fr *[]*cobj) {
					if j >= len(*fr) {
						*args = append(*args, cval{k: cvTok, s: "skip"})
						return
					}
					*args = append(*args, cval{k: cvPtr, o: (*fr)[j]})
				}))
			}
			for n := 1; n <= 3; n++ {
				n := n
				rec(pos+1, append(desc, fmt.Sprintf("s = node b0 of a separate ring of %d", n)), append(builders, func(objs *[]*cobj, args *[]cval, _ **cobj, _ *[]*cobj) {
					r := c14MakeRing("b", n)
					*objs = append(*objs, r...)
					*args = append(*args, cval{k: cvPtr, o: r[0]})
				}))
			}
		}
	}
	rec(0, nil, nil)
	return out
}

// c14Observe runs fn on the scenario and renders everything observable.
func c14Observe(fn *ssa.Function, sc c14Scenario, fieldIdx func(t types.Type, idx int) int) (obs string, aborted string) {
	objs, args := sc.build()
	for _, a := range args {
		if a.k == cvTok && a.s == "skip" {
			return "", "skip"
		}
	}
	m := &cmachine{maxSteps: 20000, fieldIdx: fieldIdx}
	var sb strings.Builder
	func() {
		defer func() {
			if x := recover(); x != nil {
				switch e := x.(type) {
				case cpanic:
					sb.WriteString("panics: " + e.msg)
				case cabort:
					aborted = e.msg
				default:
					panic(x)
				}
			}
		}()
		res := m.call(fn, args, nil)
		sb.WriteString("returns " + m.show(res))
	}()
	if aborted != "" {
		return "", aborted
	}
	if len(m.trace) > 0 {
		sb.WriteString("; calls " + strings.Join(m.trace, " "))
	}
	// heap: initial objects, then fresh objects reachable from them or from the result, in discovery order
	sb.WriteString("; heap:")
	seen := map[*cobj]bool{}
	queue := append([]*cobj{}, objs...)
	for _, o := range objs {
		seen[o] = true
	}
	// fresh objects that already have a label were reached through the result
	var labelled []*cobj
	for _, o := range m.fresh {
		if o.label != "" {
			labelled = append(labelled, o)
		}
	}
	sort.Slice(labelled, func(i, j int) bool { return labelled[i].label < labelled[j].label })
	for _, o := range labelled {
		if !seen[o] {
			seen[o] = true
			queue = append(queue, o)
		}
	}
	for len(queue) > 0 {
		o := queue[0]
		queue = queue[1:]
		if len(o.fields) != 3 {
			continue
		}
		var parts []string
		for _, f := range o.fields {
			parts = append(parts, m.show(f))
			if f.k == cvPtr && !seen[f.o] {
				seen[f.o] = true
				queue = append(queue, f.o)
			}
		}
		fmt.Fprintf(&sb, " %s{next:%s prev:%s Value:%s}", m.show(cval{k: cvPtr, o: o}), parts[0], parts[1], parts[2])
	}
	return sb.String(), ""
}
