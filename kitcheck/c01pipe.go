package main

// C01 R1a/R1b/R1c/R5/R6 on the cluster graph of the exported entry points:
// wherever the Read, the fill loop, the look-ahead decision, the carry-over
// and the per-segment call live (one function, helpers, methods of a local
// reader object, closures), the rules see them as one flow.

import (
	"fmt"
	"go/constant"
	"go/token"
	"go/types"
	"os"
	"sort"
	"strings"

	"golang.org/x/tools/go/ssa"
)

type cgRead struct {
	n    *cgNode
	call *ssa.Call
	nn   CV
	err  CV
}

func (g *cGraph) reads() []cgRead {
	var out []cgRead
	g.eachInstr(func(n *cgNode, in ssa.Instruction) {
		c, ok := in.(*ssa.Call)
		if !ok || !c01IsReadCall(c) {
			return
		}
		// only Reads of the input stream: the receiver originates in an io.Reader parameter of the
		// entry point (possibly re-wrapped by io.MultiReader / a field of a helper object)
		if rv, ok := g.readReceiver(CV{n.C, c}); ok {
			fromInput := false
			for _, sv := range g.sources(rv) {
				if pa, ok := sv.V.(*ssa.Parameter); ok && sv.C == g.root {
					_ = pa
					fromInput = true
				}
			}
			if !fromInput {
				return
			}
		}
		r := cgRead{n: n, call: c}
		if v := callResult(c, 0); v != nil {
			r.nn = CV{n.C, v}
		}
		if v := callResult(c, 1); v != nil {
			r.err = CV{n.C, v}
		}
		out = append(out, r)
	})
	return out
}

// aeadOps: invokes of cipher.AEAD Seal/Open in the graph.
func (g *cGraph) aeadOps() (seal, open []CV) {
	g.eachInstr(func(n *cgNode, in ssa.Instruction) {
		c, ok := in.(*ssa.Call)
		if !ok {
			return
		}
		if callIs(c, "crypto/cipher", "AEAD", "Seal") {
			seal = append(seal, CV{n.C, c})
		}
		if callIs(c, "crypto/cipher", "AEAD", "Open") {
			open = append(open, CV{n.C, c})
		}
	})
	return
}

func (x *c01Ctx) graph(root string) *cGraph {
	if x.graphs == nil {
		x.graphs = map[string]*cGraph{}
	}
	if g, ok := x.graphs[root]; ok {
		return g
	}
	g := c01NewGraph(x.p, x.p.Func(c01Rel, root))
	x.graphs[root] = g
	if os.Getenv("C01_GRAPH") == root {
		g.dump()
	}
	return g
}

// fnOf gives the position-free name of the function a graph value lives in.
func (x *c01Ctx) fnOf(cv CV) string {
	if cv.C == nil {
		return "?"
	}
	return FuncName(x.p, cv.C.fn)
}

// readRules: R1a and R1b for every Read of g. Returns the reads.
func (x *c01Ctx) readRules(g *cGraph, ruleA, ruleB string, prefix func(cgRead) string) []cgRead {
	r := x.r
	reads := g.reads()
	loops := g.loops()
	for _, s := range reads {
		fname := prefix(s)
		pos := x.p.Pos(s.call.Pos())
		cons := fname + " Read count"
		if s.nn.V == nil || len(refs(s.nn.V)) == 0 {
			r.Violation(ruleA, cons, pos, "the byte count returned by Read is discarded: data delivered by a short read (or together with an error/EOF) is lost or misplaced")
		} else {
			// the places where the count is consumed: additions fed by (a copy of) nn; else any use
			nnSet := map[CV]bool{g.res(s.nn): true}
			errSet := map[CV]bool{}
			if s.err.V != nil {
				errSet[g.res(s.err)] = true
			}
			var uses []CV
			g.eachInstr(func(n *cgNode, in ssa.Instruction) {
				bo, ok := in.(*ssa.BinOp)
				if !ok || (bo.Op != token.ADD && bo.Op != token.SUB) {
					return
				}
				if g.carries(CV{n.C, bo.X}, nnSet) || g.carries(CV{n.C, bo.Y}, nnSet) {
					uses = append(uses, CV{n.C, bo})
				}
			})
			if len(uses) == 0 {
				for _, u := range refs(s.nn.V) {
					if _, dbg := u.(*ssa.DebugRef); dbg {
						continue
					}
					if v, ok := u.(ssa.Value); ok {
						uses = append(uses, CV{s.n.C, v})
					} else if in, ok := u.(ssa.Instruction); ok && in.Block() != nil {
						// store / return: take the instruction's node through a pseudo value
						uses = append(uses, CV{s.n.C, s.nn.V})
						_ = in
					}
				}
			}
			free, where := false, ""
			for _, u := range uses {
				un := g.nodeOfValue(u)
				if un == nil {
					continue
				}
				bad := false
				for _, dc := range g.domConds(un) {
					if dc.At != s.n && !g.dominates(s.n, dc.At) {
						continue
					}
					if dc.At == s.n && s.n.kid != nil {
						continue
					}
					if g.errTest(dc.Cond, errSet) {
						bad = true
						if in, ok := dc.Cond.V.(ssa.Instruction); ok {
							where = x.p.Pos(instrPos(in))
						}
					}
				}
				if !bad {
					free = true
				}
			}
			r.Check(free, ruleA, cons, pos, "count is consumed independently of the error result",
				"the count returned by Read is only used after the error was tested (at "+where+"): bytes returned together with io.EOF (or any error) are dropped, so a reader that returns data with EOF truncates the message")
		}
		cons = fname + " Read loop"
		l := cgInnermost(loops, s.n)
		if l == nil {
			r.Violation(ruleB, cons, pos, "a single Read outside any loop: io.Reader may return fewer bytes than asked (or zero) without being at the end, so the result depends on how the source chunks its reads")
			continue
		}
		bad, bad2 := "", ""
		if s.nn.V != nil {
			nnSet := map[CV]bool{g.res(s.nn): true}
			for _, ex := range l.exits() {
				c, ok := g.edgeCond(ex.From, ex.To)
				if !ok {
					continue
				}
				if cmp, ok := g.decode(c.Cond, c.Branch); ok && (g.carries(cmp.X, nnSet) || g.carries(cmp.Y, nnSet)) {
					bad = x.p.Pos(instrPos(ex.From.last()))
				}
				// an exit on an error value: the error may only be the Read's own — not one manufactured because a
				// single Read returned a particular count (a "no progress" / "too slow" guard)
				if s.err.V != nil && bad == "" && bad2 == "" {
					errSet := map[CV]bool{g.res(s.err): true}
					if g.errTest(c.Cond, errSet) {
						for _, ev := range g.errOperands(c.Cond) {
							for _, lf := range g.choiceLeaves(ev, 0, map[CV]bool{}) {
								if lf.Zero || g.isNil(lf.Val) || g.carries(lf.Val, errSet) || !g.nonNil(lf.Val, nil) {
									continue
								}
								for _, dc := range lf.Conds {
									if dc.At != s.n && !g.dominates(s.n, dc.At) {
										continue
									}
									if !l.Body[dc.At] {
										continue
									}
									if g.condOnRaw(dc.Cond, nnSet, 0) {
										bad2 = g.pos(lf.Val)
									}
								}
							}
						}
					}
				}
			}
		}
		if bad == "" && bad2 != "" {
			r.Violation(ruleB, cons, pos, "the error that ends the read loop can be one manufactured (at "+bad2+") because a single Read returned a particular count (e.g. a 'no progress' guard counting zero-length reads): io.Reader may return (0, nil) any number of times — consecutively or spread over the stream — so a source that chunks its reads that way aborts a message that must round-trip")
			continue
		}
		r.Check(bad == "", ruleB, cons, pos, "Read is retried in a loop; no exit tests the raw count",
			"the read loop is left (at "+bad+") because a single Read returned a particular count: a short or zero-length read is not the end of the data")
	}
	return reads
}

// pipelines runs the graph rules for both directions.
func (x *c01Ctx) pipelines() {
	type dir struct {
		root string
		seal bool
	}
	seenRead := map[*ssa.Call]bool{}
	for _, d := range []dir{{"Encrypt", true}, {"Decrypt", false}} {
		g := x.graph(d.root)
		loops := g.loops()
		reads := x.readRules(g, "C01.R1a-count-before-err", "C01.R1b-read-in-loop", func(s cgRead) string {
			if l := cgInnermost(loops, s.n); l != nil {
				return FuncName(x.p, l.Head.C.fn)
			}
			return x.fnOf(CV{s.n.C, s.call})
		})
		for _, s := range reads {
			seenRead[s.call] = true
		}
		x.pipeline(g, d.root, d.seal, reads)
	}
	// Reads of the package that neither entry point reaches are still checked, on their own function
	for _, s := range x.collectReads() {
		if seenRead[s.call] {
			continue
		}
		g := c01NewGraph(x.p, s.fn)
		x.readRules(g, "C01.R1a-count-before-err", "C01.R1b-read-in-loop", func(s cgRead) string { return x.fnOf(CV{s.n.C, s.call}) })
	}
}

func (x *c01Ctx) pipeline(g *cGraph, root string, sealSide bool, reads []cgRead) {
	r, p, spec := x.r, x.p, x.spec
	seals, opens := g.aeadOps()
	ops := seals
	opName := "Seal"
	if !sealSide {
		ops, opName = opens, "Open"
	}
	if len(ops) != 1 {
		r.Undecide("C01: %s reaches %d calls of cipher.AEAD.%s (expected exactly one segment operation)", root, len(ops), opName)
		return
	}
	op := ops[0]
	opCall := op.V.(*ssa.Call)
	opNode := g.nodeOf(op.C, opCall)
	dd := &c01Dir{root: root, seal: sealSide, g: g, op: op, opNode: opNode, opName: opName, reads: reads}
	x.dirs[root] = dd
	loops := g.loops()
	// the driver loop: innermost loop containing the AEAD operation and a Read
	var fill *cgRead
	var driver *cgLoop
	for _, l := range loops {
		if !l.Body[opNode] {
			continue
		}
		for i := range reads {
			if l.Body[reads[i].n] && (driver == nil || len(l.Body) < len(driver.Body)) {
				driver = l
				fill = &reads[i]
			}
		}
	}
	dirName := root + " pipeline"
	if driver == nil || fill == nil {
		// accepted alternative: io.ReadFull / ReadAtLeast implement the contract themselves
		alt := false
		g.eachInstr(func(n *cgNode, in ssa.Instruction) {
			if c, ok := in.(*ssa.Call); ok && (callIs(c, "io", "", "ReadFull") || callIs(c, "io", "", "ReadAtLeast")) {
				for _, l := range loops {
					if l.Body[opNode] && l.Body[n] {
						alt = true
					}
				}
			}
		})
		if alt {
			r.Undecide("C01.R1c: %s fills segments through io.ReadFull/ReadAtLeast; the look-ahead rules are written for an explicit fill loop and must be re-derived", root)
		} else {
			r.Undecide("C01.R1c: %s: no loop containing both a Read of the input and the AEAD.%s call found", root, opName)
		}
		return
	}
	x.fillReads[fill.call] = true
	dd.driver, dd.fill = driver, fill
	if fill.nn.V == nil || fill.err.V == nil {
		return // R1a reported it
	}
	fname := x.fnOf(CV{fill.n.C, fill.call})
	if l := cgInnermost(loops, fill.n); l != nil {
		fname = FuncName(p, l.Head.C.fn)
	}
	pos := p.Pos(fill.call.Pos())
	nnSet := map[CV]bool{g.res(fill.nn): true}
	pp := &cgPipe{g: g, read: CV{fill.n.C, fill.call}, nn: fill.nn, err: fill.err, errs: map[CV]bool{g.res(fill.err): true}}
	// running count: additions of nn and copies of them
	var adds []CV
	g.eachInstr(func(n *cgNode, in ssa.Instruction) {
		if bo, ok := in.(*ssa.BinOp); ok && bo.Op == token.ADD {
			if g.carries(CV{n.C, bo.X}, nnSet) || g.carries(CV{n.C, bo.Y}, nnSet) {
				adds = append(adds, CV{n.C, bo})
			}
		}
	})
	pp.core = g.coreFrom(adds)
	delete(pp.core, g.res(fill.nn))

	// --- R1c: exits of the fill loop
	inner := cgInnermost(loops, fill.n)
	var bound *cgLin
	bad := ""
	for _, ex := range inner.exits() {
		at := p.Pos(instrPos(ex.From.last()))
		c, ok := g.edgeCond(ex.From, ex.To)
		if !ok {
			if ex.From.kid != nil || len(ex.From.succs) == 1 {
				// leaving through a call/return boundary or a plain jump: the deciding
				// condition is the one that led here
				cs := g.domConds(ex.From)
				if len(cs) > 0 && (g.errTest(cs[0].Cond, pp.errs) || pp.isCountCmp(cs[0].Cond)) {
					continue
				}
			}
			bad = "unconditionally at " + at
			continue
		}
		if cmp, ok := g.decode(c.Cond, c.Branch); ok {
			lx, ly, opx := g.lin(cmp.X), g.lin(cmp.Y), cmp.Op
			cx, cy := !lx.isConst() && pp.core[lx.Base], !ly.isConst() && pp.core[ly.Base]
			if !cx && cy {
				lx, ly, opx = ly, lx, c01FlipOp(opx)
				cx, cy = cy, cx
			}
			if cx && !cy {
				l := cgLin{ly.Base, ly.K - lx.K}
				switch opx {
				case token.GEQ, token.EQL:
				case token.GTR:
					l.K++
				default:
					bad = "when the accumulated count is BELOW a limit, at " + at
					continue
				}
				if bound != nil && *bound != l {
					bad = "on two different count limits (" + g.linStr(*bound) + " and " + g.linStr(l) + ")"
				}
				bound = &l
				continue
			}
		}
		if g.errTest(c.Cond, pp.errs) {
			continue
		}
		bad = "on a condition that is neither 'count reached the limit' nor 'Read returned an error', at " + at
	}
	bstr := "?"
	if bound != nil {
		bstr = g.linStr(*bound)
	}
	nob := ""
	if bound == nil {
		nob = " (no exit on the accumulated count found)"
	}
	r.Check(bad == "" && bound != nil, "C01.R1c-segment-fill", fname+" fill-loop exits", pos,
		"fill loop is left only when the count reached "+bstr+" or an error was seen",
		"the segment fill loop can be left "+bad+nob+": a source that chunks its reads differently yields different segment boundaries / an early 'last segment'")
	if bound == nil {
		return
	}
	pp.bound = *bound
	dd.bound, dd.hasB = *bound, true

	// --- read window capped at the bound
	win := g.deep(CV{fill.n.C, fill.call.Call.Args[0]})
	// buf[n:] of a buffer that was itself cut to the limit before: use the enclosing window's end
	for i := 0; i < 4; i++ {
		sl, ok := win.V.(*ssa.Slice)
		if !ok || sl.High != nil {
			break
		}
		outer := g.deep(CV{win.C, sl.X})
		if osl, ok := outer.V.(*ssa.Slice); ok && osl.High != nil && (osl.Low == nil || g.lin(CV{outer.C, osl.Low}) == (cgLin{})) {
			win = outer
			continue
		}
		break
	}
	if sl, ok := win.V.(*ssa.Slice); ok {
		if sl.High != nil {
			h := g.lin(CV{win.C, sl.High})
			r.Check(h == *bound, "C01.R1c-segment-fill", fname+" read window", pos,
				"Read is offered a window ending at the loop limit "+g.linStr(h),
				"Read is offered a window ending at "+g.linStr(h)+" while the fill loop stops at "+bstr+": a reader delivering more at once overfills the segment (segments longer than the spec's size) or the limit is never reached")
		} else {
			r.Violation("C01.R1c-segment-fill", fname+" read window", pos, "Read is offered the buffer up to its full length, not capped at the fill limit "+bstr+": a reader delivering more than one segment at once overfills the segment")
		}
	} else {
		r.Undecide("C01.R1c: cannot resolve the window passed to Read in %s", fname)
	}

	// --- the fill limit is the spec's segment size (+ tag on the ciphertext side) + 1 look-ahead byte
	want := spec.SegmentSize + 1
	what := fmt.Sprintf("segment size %d + 1 look-ahead byte", spec.SegmentSize)
	if !sealSide {
		want += spec.TagSize
		what = fmt.Sprintf("segment size %d + tag %d + 1 look-ahead byte", spec.SegmentSize, spec.TagSize)
	}
	if bound.isConst() {
		r.Check(bound.K == want, "C01.R1c-segment-fill", dirName+" fill limit", pos, fmt.Sprintf("%s fills up to %d bytes = %s", root, bound.K, what),
			fmt.Sprintf("%s fills up to %d bytes per segment; the published format needs %d (%s): segments are framed differently from the spec (and from the other direction)", root, bound.K, want, what))
	} else {
		r.Undecide("C01.R1c: the fill limit of %s does not resolve to a constant (%s)", root, bstr)
	}

	// --- the values that reach the segment operation
	dataV := CV{op.C, opCall.Call.Args[2]}
	nonceV := g.res(CV{op.C, opCall.Call.Args[1]})
	var numV, lastV CV
	if kid := g.inlinedCall(nonceV); kid != nil {
		for _, pa := range kid.fn.Params {
			if b, ok := pa.Type().Underlying().(*types.Basic); ok {
				if b.Kind() == types.Uint32 {
					numV = g.res(CV{kid, pa})
				}
				if b.Kind() == types.Bool {
					lastV = g.res(CV{kid, pa})
				}
			}
		}
	} else if ex, ok := nonceV.V.(*ssa.Extract); ok {
		if kid := g.inlinedCall(CV{nonceV.C, ex.Tuple}); kid != nil {
			// nonce is one result of a helper: look for the nonce builder inside
			for _, e := range g.sources(nonceV) {
				if k2 := g.inlinedCall(e); k2 != nil {
					for _, pa := range k2.fn.Params {
						if b, ok := pa.Type().Underlying().(*types.Basic); ok {
							if b.Kind() == types.Uint32 {
								numV = g.res(CV{k2, pa})
							}
							if b.Kind() == types.Bool {
								lastV = g.res(CV{k2, pa})
							}
						}
					}
				}
			}
		}
	}
	if numV.V == nil || lastV.V == nil {
		// the nonce is built by a function taking (uint32 counter, bool last): find its context by role
		for _, c := range g.ctxs {
			var nu, la *ssa.Parameter
			for _, pa := range c.fn.Params {
				if b, ok := pa.Type().Underlying().(*types.Basic); ok {
					if b.Kind() == types.Uint32 {
						nu = pa
					}
					if b.Kind() == types.Bool {
						la = pa
					}
				}
			}
			if nu == nil || la == nil || c.parent == nil {
				continue
			}
			makes := false
			for v := range g.cone(nonceV) {
				if v.C == c {
					makes = true
				}
			}
			if makes {
				numV, lastV = g.res(CV{c, nu}), g.res(CV{c, la})
			}
		}
	}
	if numV.V == nil || lastV.V == nil {
		r.Undecide("C01.R5: cannot trace the (counter, last) values that enter the nonce of AEAD.%s in %s", opName, root)
		return
	}
	segPos := g.pos(op)
	x.segArgs(pp, root, opNode, driver, dataV, numV, lastV, segPos, fill)
}

func (pp *cgPipe) isCountCmp(cond CV) bool {
	k := pp.classifyAny(cond)
	return k
}

// classifyAny: cond compares the running count with something.
func (pp *cgPipe) classifyAny(cond CV) bool {
	g := pp.g
	cmp, ok := g.decode(cond, true)
	if !ok {
		return false
	}
	lx, ly := g.lin(cmp.X), g.lin(cmp.Y)
	return (!lx.isConst() && pp.core[lx.Base]) != (!ly.isConst() && pp.core[ly.Base])
}

const c01ErrDrivenG = "whether this is the last segment (and whether a look-ahead byte is carried over) is decided from the Read error instead of from the filled count: io.Reader may return the byte that fills the look-ahead together with io.EOF, so the error says nothing about whether the look-ahead byte was read — a plaintext of k*65536+1 bytes from such a reader is sealed as one oversized last segment (spec: segments are 65,536 bytes, only the last may be shorter)"

// decidedBy inspects what the value v (a boolean) is decided by: returns
// whether some deciding condition/operand is an error test, and whether some
// is a comparison of the count with a threshold other than the bound.
func (pp *cgPipe) decidedBy(v CV, depth int, seen map[CV]bool) (errDriven, otherThreshold bool) {
	g := pp.g
	v, _ = g.stripNot(v, true)
	if seen[v] || depth > 8 {
		return
	}
	seen[v] = true
	if g.errTest(v, pp.errs) {
		return true, false
	}
	if pp.classify(v) == 2 {
		return false, true
	}
	edges, ok := g.phiEdges(v)
	if !ok {
		if leaves, ok := g.valuesAt(v); ok {
			// a state variable: what its assignments are chosen by
			for _, l := range leaves {
				if !l.Zero {
					e, o := pp.decidedBy(l.Val, depth+1, seen)
					errDriven, otherThreshold = errDriven || e, otherThreshold || o
				}
				for _, dc := range l.Conds {
					if !g.dominates(pp.read.C.entry(), dc.At) && dc.At.C != pp.read.C {
						continue
					}
					e, o := pp.condDecidedBy(dc.Cond, depth+1, seen)
					errDriven, otherThreshold = errDriven || e, otherThreshold || o
				}
			}
		} else if vals, ok := g.loadVals(v); ok {
			for _, s := range vals {
				e, o := pp.decidedBy(s, depth+1, seen)
				errDriven, otherThreshold = errDriven || e, otherThreshold || o
			}
		}
		return
	}
	j := g.joinOf(v)
	var top *cgNode
	if j != nil {
		top = j.idom
	}
	for _, e := range edges {
		if _, isK := g.res(e.Val).V.(*ssa.Const); !isK {
			ed, ot := pp.decidedBy(e.Val, depth+1, seen)
			errDriven, otherThreshold = errDriven || ed, otherThreshold || ot
		}
		var conds []cgCond
		if j != nil {
			conds = g.condsOnEdge(e.Pred, j)
		}
		for _, dc := range conds {
			if top != nil && dc.At != top && !g.dominates(top, dc.At) {
				continue
			}
			ed, ot := pp.condDecidedBy(dc.Cond, depth+1, seen)
			errDriven, otherThreshold = errDriven || ed, otherThreshold || ot
		}
	}
	return
}

// condDecidedBy: what a branch condition tests: the Read error, the count against another threshold — directly,
// or through a flag / small enum (x == K) whose value was chosen under such a test (phase helper).
func (pp *cgPipe) condDecidedBy(cond CV, depth int, seen map[CV]bool) (errDriven, otherThreshold bool) {
	g := pp.g
	cond, _ = g.stripNot(cond, true)
	if depth > 8 {
		return
	}
	if g.errTest(cond, pp.errs) {
		return true, false
	}
	if pp.classify(cond) == 2 {
		return false, true
	}
	bo, ok := cond.V.(*ssa.BinOp)
	if !ok || (bo.Op != token.EQL && bo.Op != token.NEQ) {
		if _, isPhi := g.phiEdges(cond); isPhi {
			return pp.decidedBy(cond, depth+1, seen)
		}
		return
	}
	x, k := g.deep(CV{cond.C, bo.X}), g.deep(CV{cond.C, bo.Y})
	if _, isK := x.V.(*ssa.Const); isK {
		x, k = k, x
	}
	if _, isK := k.V.(*ssa.Const); !isK || seen[x] {
		return
	}
	edges, ok := g.phiEdges(x)
	if !ok {
		return
	}
	seen[x] = true
	j := g.joinOf(x)
	var top *cgNode
	if j != nil {
		top = j.idom
	}
	for _, e := range edges {
		var conds []cgCond
		if j != nil {
			conds = g.condsOnEdge(e.Pred, j)
		}
		for _, dc := range conds {
			if top != nil && dc.At != top && !g.dominates(top, dc.At) {
				continue
			}
			ed, ot := pp.condDecidedBy(dc.Cond, depth+1, seen)
			errDriven, otherThreshold = errDriven || ed, otherThreshold || ot
		}
	}
	return
}

func (x *c01Ctx) segArgs(pp *cgPipe, root string, opNode *cgNode, driver *cgLoop, dataV, numV, lastV CV, pos string, fill *cgRead) {
	r, g := x.r, pp.g
	owner := x.fnOf(lastV)
	if lastV.C == nil || lastV.C.parent == nil {
		owner = x.fnOf(numV)
	}
	bstr := g.linStr(pp.bound)

	// ---- last flag
	cons := owner + " last flag"
	t := pp.evalD(lastV, opNode, 0, false)
	if os.Getenv("C01_LAST") != "" {
		fmt.Printf("LAST %s = %s\n", lastV.V.String(), t)
		if lv, ok := g.valuesAt(g.res(lastV)); ok {
			for _, l := range lv {
				pv, known, contra := pp.pFactX(l.Conds, 0)
				vs := "zero"
				if !l.Zero {
					vs = l.Val.V.String()
				}
				fmt.Printf("  leaf %s conds=%d P=%v known=%v contra=%v\n", vs, len(l.Conds), pv, known, contra)
				for _, dc := range l.Conds {
					fmt.Printf("      cond %s br=%v eval=%s\n", dc.Cond.V.String(), dc.Branch, pp.evalD(dc.Cond, dc.At, 1, false))
				}
			}
		} else {
			fmt.Println("  valuesAt failed")
		}
	}
	lastOK := false
	switch t {
	case triN:
		lastOK = true
		r.OK("C01.R5-segment-args", cons, pos, "last = (count did not reach "+bstr+")")
	case triP:
		r.Violation("C01.R5-segment-args", cons, pos, "'last' is true exactly when a look-ahead byte was read (more data follows), i.e. inverted: the segment is sealed with the last-segment nonce and another segment follows it")
	case triT, triF:
		r.Violation("C01.R5-segment-args", cons, pos, "the 'last' value that enters the nonce is constant "+t.String()+": the nonce's last-segment byte no longer says whether this is the final segment (spec: 0x01 only on the last segment)")
	default:
		ed, ot := pp.decidedBy(lastV, 0, map[CV]bool{})
		switch {
		case ed:
			r.Violation("C01.R5-segment-args", cons, pos, c01ErrDrivenG)
		case ot:
			r.Violation("C01.R5-segment-args", cons, pos, "the look-ahead decision that sets 'last' compares the filled count with a threshold different from the fill limit "+bstr+": a message whose final segment has exactly the other length is split or flagged wrongly")
		default:
			// partial knowledge: a definite wrong value on one side is still a violation
			r.Undecide("C01.R5: cannot relate the 'last' value in %s to a comparison of the filled count with the fill limit", owner)
		}
	}

	// ---- segment length and start
	cons = owner + " segment length"
	if lastOK {
		lp, okP := pp.lenWhen(dataV, opNode, true, 0)
		ln, okN := pp.lenWhen(dataV, opNode, false, 0)
		m := pp.marker()
		goodP := okP && ((lp.Base == m && lp.K == -1) || (pp.bound.isConst() && lp.isConst() && lp.K == pp.bound.K-1) || (!pp.bound.isConst() && lp.Base == pp.bound.Base && lp.K == pp.bound.K-1))
		goodN := okN && ln.Base == m && ln.K == 0
		switch {
		case !okP || !okN:
			r.Undecide("C01.R5: cannot express the length of the data given to the segment operation in %s in terms of the filled count", root)
		case !goodP:
			r.Violation("C01.R5-segment-args", cons, pos, "when a look-ahead byte was read the segment length is "+pp.lenStr(lp)+" instead of count-1: the look-ahead byte is encrypted twice (or data is dropped)")
		case !goodN:
			r.Violation("C01.R5-segment-args", cons, pos, "when no look-ahead byte was read the segment length is "+pp.lenStr(ln)+" instead of the filled count")
		case !g.sliceLowZero(dataV, 0):
			r.Violation("C01.R5-segment-args", cons, pos, "the segment handed over does not start at the beginning of the buffer (the carried-over byte at index 0 is skipped)")
		case g.objKey(dataV) != g.objKey(CV{fill.n.C, fill.call.Call.Args[0]}):
			r.Undecide("C01.R5: the data given to the segment operation in %s is not visibly a window of the buffer the Read fills", root)
		default:
			r.OK("C01.R5-segment-args", cons, pos, "length = count-1 with look-ahead, count without; starts at the beginning of the fill buffer")
		}
		x.carryOverG(pp, owner, fill, pos)
	}

	// ---- counter
	x.counterG(pp, owner, opNode, driver, numV, pos)
	x.counterRangeG(pp, owner, opNode, driver, numV, lastV)

	// ---- nothing after last
	x.afterLastG(pp, owner, opNode, lastV, pos, driver.Head.C)

	// ---- empty message
	x.emptyG(pp, owner, root, opNode, dataV, pos, driver)
}

func (pp *cgPipe) lenStr(l cgLin) string {
	if l.Base == pp.marker() {
		if l.K == 0 {
			return "count"
		}
		return fmt.Sprintf("count%+d", l.K)
	}
	return pp.g.linStr(l)
}

// counterG: the counter entering the nonce is 0 for the first segment and +1 per segment.
func (x *c01Ctx) counterG(pp *cgPipe, owner string, opNode *cgNode, driver *cgLoop, numV CV, pos string) {
	r, g := x.r, pp.g
	cons := owner + " segment counter"
	numV = g.res(numV)
	// the loop that carries it: any loop containing the operation
	if edges, ok := g.phiEdges(numV); ok {
		j := g.joinOf(numV)
		var loop *cgLoop
		for _, l := range g.loops() {
			if l.Head == j && l.Body[opNode] {
				loop = l
			}
		}
		if loop == nil {
			r.Undecide("C01.R5: the counter entering the nonce in %s is not carried by a loop containing the segment operation", owner)
			return
		}
		bad := ""
		for _, e := range edges {
			if !loop.Body[e.Pred] {
				if k, ok := g.constInt(e.Val); !ok || k != 0 {
					bad = "the segment counter does not start at 0 (spec: first segment has sequence number 0)"
				}
				continue
			}
			l := g.lin(e.Val)
			if l.Base != numV || l.K != 1 {
				bad = "the segment counter is not advanced by exactly 1 per processed segment (got " + g.linStr(l) + ")"
			}
		}
		r.Check(bad == "", "C01.R5-segment-args", cons, pos, "counter starts at 0 and is incremented by 1 on the way back to the loop head", bad)
		return
	}
	switch numV.V.(type) {
	case *ssa.Const:
		r.Violation("C01.R5-segment-args", cons, pos, "the segment number that enters the nonce is a constant: every segment is sealed with the same counter (spec: sequence number 0,1,2,… in the nonce)")
		return
	case *ssa.BinOp:
		l := g.lin(numV)
		if _, isPhi := l.Base.V.(*ssa.Phi); isPhi && l.K != 0 {
			r.Violation("C01.R5-segment-args", cons, pos, "the segment number that enters the nonce is the loop counter plus a constant, not the counter itself: the first segment is not number 0 (spec: 'The first segment has sequence number 0')")
			return
		}
	}
	// a counter kept in a cell / field: every assignment is 0 or self+1, and the increment follows the operation
	if vals, ok := g.loadVals(numV); ok && len(vals) > 0 {
		bad, undec := "", false
		for _, v := range vals {
			if k, ok := g.constInt(v); ok {
				if k != 0 {
					bad = "the segment counter is initialised to a value other than 0"
				}
				continue
			}
			l := g.lin(v)
			lv, isLoad := l.Base.V.(*ssa.UnOp)
			sameVar := false
			if isLoad && lv.Op == token.MUL {
				if nu, ok := numV.V.(*ssa.UnOp); ok && nu.Op == token.MUL {
					k1, _, ok1 := g.memKey(CV{l.Base.C, lv.X})
					k2, _, ok2 := g.memKey(CV{numV.C, nu.X})
					sameVar = ok1 && ok2 && k1 == k2
				}
				if !sameVar {
					sameVar = g.objKey(l.Base) == g.objKey(numV)
				}
			}
			if isLoad && lv.Op == token.MUL && sameVar && l.K != 1 {
				if l.K != 0 {
					bad = "the segment counter is not advanced by exactly 1 per processed segment (got " + fmt.Sprintf("counter%+d", l.K) + ")"
				}
				continue
			}
			if !isLoad || lv.Op != token.MUL || !sameVar {
				undec = true
				continue
			}
			vn := g.nodeOfValue(g.res(v))
			if vn != nil && g.dominates(vn, opNode) && g.dominates(driver.Head, vn) {
				bad = "the segment counter is incremented before the segment is processed: the first segment is not number 0"
			}
		}
		if os.Getenv("C01_CTR") != "" {
			for _, v := range vals {
				l := g.lin(v)
				fmt.Printf("CTR val %s lin base=%v K=%d key=%s numKey=%s\n", v.V.String(), l.Base.V, l.K, g.objKey(l.Base), g.objKey(numV))
			}
		}
		switch {
		case bad != "":
			r.Violation("C01.R5-segment-args", cons, pos, bad)
		case undec:
			r.Undecide("C01.R5: the counter entering the nonce in %s is kept in a variable with assignments other than 0 / +1", owner)
		default:
			r.OK("C01.R5-segment-args", cons, pos, "counter variable is only ever 0 or incremented by 1 after the operation")
		}
		return
	}
	r.Undecide("C01.R5: the counter entering the nonce in %s is not a loop-carried counter", owner)
}

// counterRangeG: a branch taken after a segment was processed that leaves the segment loop because the counter
// reached a constant must not do so before the counter's last value in the published format (2^(8*width)-1):
// every shorter limit turns plaintexts the format can hold into an error (or a truncated document).
func (x *c01Ctx) counterRangeG(pp *cgPipe, owner string, opNode *cgNode, driver *cgLoop, numV, lastV CV) {
	r, g := x.r, pp.g
	numV = g.res(numV)
	width := x.spec.CounterLen
	if width <= 0 || width > 7 {
		return
	}
	max := int64(1)<<(8*uint(width)) - 1
	numKey := ""
	if u, ok := numV.V.(*ssa.UnOp); ok && u.Op == token.MUL {
		if k, _, ok := g.memKey(CV{numV.C, u.X}); ok {
			numKey = k
		}
	}
	same := func(b CV) bool {
		b = g.res(b)
		if b == numV {
			return true
		}
		if u, ok := b.V.(*ssa.UnOp); ok && u.Op == token.MUL && numKey != "" {
			if k, _, ok := g.memKey(CV{b.C, u.X}); ok && k == numKey {
				return true
			}
		}
		return false
	}
	// a counter kept in a variable: the comparison must read it before it is advanced
	var advances []*cgNode
	if numKey != "" {
		for n := range driver.Body {
			for _, in := range n.instrs() {
				if st, ok := in.(*ssa.Store); ok {
					if k, _, ok := g.memKey(CV{n.C, st.Addr}); ok && k == numKey {
						advances = append(advances, n)
					}
				}
			}
		}
	}
	var nodes []*cgNode
	for n := range driver.Body {
		nodes = append(nodes, n)
	}
	sort.Slice(nodes, func(i, j int) bool { return nodes[i].idx < nodes[j].idx })
	after := g.reach(opNode, map[*cgNode]bool{driver.Head: true})
	// normalPath: n is not under a branch that is taken because of an error (or under one that cannot be classified)
	normalPath := func(n *cgNode) bool {
		for _, c := range g.domConds(n) {
			if !driver.Body[c.At] || !after[c.At] {
				continue
			}
			cv, br := g.stripNot(c.Cond, c.Branch)
			switch y := cv.V.(type) {
			case *ssa.BinOp:
				if types.Identical(y.X.Type(), types.Universe.Lookup("error").Type()) || types.Identical(y.Y.Type(), types.Universe.Lookup("error").Type()) {
					nilSide := isNilConst(y.X) || isNilConst(y.Y)
					if !nilSide || (y.Op == token.NEQ) == br {
						return false
					}
				}
			case *ssa.Call:
				return false
			}
		}
		return true
	}
	lastR, _ := g.stripNot(lastV, true)
	headStop := map[*cgNode]bool{driver.Head: true}
	for _, n := range nodes {
		if n == opNode || !after[n] || len(n.succs) != 2 || g.reach(n, headStop)[opNode] || !normalPath(n) {
			continue
		}
		for _, to := range n.succs {
			if driver.Body[to] {
				continue
			}
			// the conditions under which this way out of the loop is taken once a segment has been processed: only
			// tests of the counter against a constant and of the 'last' value are understood
			first, found, pos := int64(-1), false, ""
			understood := true
			for _, c := range g.condsOnEdge(n, to) {
				if !driver.Body[c.At] || !after[c.At] {
					continue
				}
				cv, br := g.stripNot(c.Cond, c.Branch)
				if cv == lastR || g.sameValue(cv, lastR) {
					continue
				}
				bo, ok := cv.V.(*ssa.BinOp)
				if !ok {
					understood = false
					break
				}
				if isNilConst(bo.X) || isNilConst(bo.Y) {
					continue // the no-error side of an error test (normalPath)
				}
				lx, ly := g.lin(CV{cv.C, bo.X}), g.lin(CV{cv.C, bo.Y})
				op := bo.Op
				if lx.isConst() && !ly.isConst() {
					lx, ly = ly, lx
					op = c01FlipOp(op)
				}
				if lx.isConst() || !ly.isConst() || !same(lx.Base) {
					understood = false
					break
				}
				for _, a := range advances {
					if a == c.At || g.reach(a, headStop)[c.At] {
						understood = false // the variable may already have been advanced when it is compared
					}
				}
				if !br {
					op = c01NegOp(op)
				}
				// the loop is left when counter+lx.K op ly.K: the smallest counter value for which that happens
				k := ly.K - lx.K
				f := int64(-1)
				switch op {
				case token.EQL:
					f = ((k % (max + 1)) + max + 1) % (max + 1)
				case token.GEQ:
					f = k
				case token.GTR:
					f = k + 1
				default:
					understood = false
				}
				if f < 0 {
					understood = false
				}
				if f > first {
					first = f
				}
				found, pos = true, g.pos(CV{cv.C, bo})
			}
			if !understood || !found {
				continue
			}
			cons := owner + " segment counter range"
			r.Check(first >= max, "C01.R5-segment-args", cons, pos, fmt.Sprintf("the loop is left on the counter only at its last value %d", max),
				fmt.Sprintf("after a segment that is not the last the segment loop is left as soon as the counter reaches %d; the published format numbers segments with a %d-byte counter, so documents of up to %d segments must be produced and read back, and every input longer than %d segments now ends in an error or is cut short", first, width, max+1, first+1))
		}
	}
}

func c01NegOp(op token.Token) token.Token {
	switch op {
	case token.EQL:
		return token.NEQ
	case token.NEQ:
		return token.EQL
	case token.LSS:
		return token.GEQ
	case token.GEQ:
		return token.LSS
	case token.GTR:
		return token.LEQ
	case token.LEQ:
		return token.GTR
	}
	return token.ILLEGAL
}

// afterLastG: once the operation ran with last == true it cannot run again.
func (x *c01Ctx) afterLastG(pp *cgPipe, owner string, opNode *cgNode, lastV CV, pos string, driverCtx *cgCtx) {
	g := pp.g
	lastR, lastBr := g.stripNot(lastV, true) // last == true means lastR == lastBr
	// when last is read from a local variable / state field: later reads of it see the same value until it is assigned
	lastKey := ""
	if u, ok := lastR.V.(*ssa.UnOp); ok && u.Op == token.MUL {
		if k, _, ok := g.memKey(CV{lastR.C, u.X}); ok {
			lastKey = k
		}
	}
	assigned := map[*cgNode]bool{} // nodes that assign the variable
	if lastKey != "" {
		g.eachInstr(func(n *cgNode, in ssa.Instruction) {
			if st, ok := in.(*ssa.Store); ok {
				if k, _, ok := g.memKey(CV{n.C, st.Addr}); ok && (k == lastKey || strings.HasPrefix(lastKey, k+"#")) {
					assigned[n] = true
				}
			}
		})
	}
	type key struct {
		n, pred *cgNode
		unc     bool
		dirty   bool
	}
	seen := map[key]bool{}
	certain, uncertain := false, false
	// value of boolean c on arrival at n from pred, under last == true
	dirtyNow := false
	var resolve func(c CV, n, pred *cgNode, d int) (val, known, related bool)
	resolve = func(c CV, n, pred *cgNode, d int) (bool, bool, bool) {
		c, br := g.stripNot(c, true)
		if c == lastR {
			return br == lastBr, true, true
		}
		if lastKey != "" {
			if u, ok := c.V.(*ssa.UnOp); ok && u.Op == token.MUL {
				if k, _, ok := g.memKey(CV{c.C, u.X}); ok && k == lastKey {
					if !dirtyNow {
						return br == lastBr, true, true
					}
					return false, false, true
				}
			}
		}
		// a re-computation of the same decision: last == true means the count did not reach the limit
		switch pp.evalD(c, n, 0, false) {
		case triN:
			return br, true, true
		case triP:
			return !br, true, true
		}
		if k, ok := c.V.(*ssa.Const); ok {
			if t := pp.evalD(CV{c.C, k}, nil, 0, false); t == triT || t == triF {
				return (t == triT) == br, true, false
			}
		}
		if d > 4 {
			return false, false, g.cone(c)[lastR]
		}
		if edges, ok := g.phiEdges(c); ok && g.joinOf(c) == n && pred != nil {
			for _, e := range edges {
				if e.Pred == pred {
					v, k, rel := resolve(e.Val, pred, nil, d+1)
					if k {
						return v == br, true, rel
					}
					return false, false, rel || g.cone(e.Val)[lastR]
				}
			}
		}
		return false, false, g.cone(c)[lastR]
	}
	var walk func(n, pred *cgNode, unc, dirty bool)
	walk = func(n, pred *cgNode, unc, dirty bool) {
		k := key{n, pred, unc, dirty}
		if seen[k] {
			return
		}
		seen[k] = true
		if n == opNode && pred != nil {
			if unc {
				uncertain = true
			} else {
				certain = true
			}
			return
		}
		// the rule concerns one run of the driver loop: do not follow control out of the function that holds it
		if _, isRet := n.last().(*ssa.Return); isRet && driverCtx != nil && n.C == driverCtx {
			return
		}
		if len(n.succs) != 2 {
			for _, s := range n.succs {
				walk(s, n, unc, dirty || assigned[n])
			}
			return
		}
		if c, ok := g.edgeCond(n, n.succs[0]); ok {
			dirtyNow = dirty || assigned[n]
			val, known, related := resolve(c.Cond, n, pred, 0)
			if known {
				if val {
					walk(n.succs[0], n, unc, dirty || assigned[n])
				} else {
					walk(n.succs[1], n, unc, dirty || assigned[n])
				}
				return
			}
			for _, s := range n.succs {
				walk(s, n, unc || related, dirty || assigned[n])
			}
			return
		}
		for _, s := range n.succs {
			walk(s, n, unc, dirty || assigned[n])
		}
	}
	if len(opNode.succs) > 0 || opNode.kid != nil {
		for _, s := range opNode.succs {
			walk(s, opNode, false, false)
		}
	}
	cons := owner + " nothing after last"
	switch {
	case certain:
		x.r.Violation("C01.R5-segment-args", cons, pos, "after a segment was processed with last=true the loop can come round and process another segment: the ciphertext has data after the segment sealed as last (spec: the flag marks the final segment)")
	case uncertain:
		x.r.Undecide("C01.R5: cannot decide whether %s stops after the segment flagged last (the loop condition depends on it in a way that is not resolved)", owner)
	default:
		x.r.OK("C01.R5-segment-args", cons, pos, "after a segment flagged last the loop is left")
	}
}

// pathReach explores paths from start, deciding `x == nil` / `x != nil` /
// boolean tests on (return-)phis by the edge over which their join was
// entered. visit returns: 0 continue, 1 stop this path, 2 found (stop all).
func (g *cGraph) pathReach(pp *cgPipe, start *cgNode, visit func(n *cgNode) int) bool {
	type key struct{ n, pred *cgNode }
	seen := map[key]bool{}
	found := false
	var walk func(n, pred *cgNode)
	walk = func(n, pred *cgNode) {
		if found || n == nil || seen[key{n, pred}] {
			return
		}
		seen[key{n, pred}] = true
		switch visit(n) {
		case 1:
			return
		case 2:
			found = true
			return
		}
		if len(n.succs) == 2 {
			if c, ok := g.edgeCond(n, n.succs[0]); ok && pred != nil {
				cv, br := g.stripNot(c.Cond, true)
				decided, val := false, false
				if g.joinOf(cv) == n {
					if sib, ok := g.sibling(cv, cgEdge{Pred: pred}); ok {
						t := triU
						if pp != nil {
							t = pp.evalD(sib, pred, 0, true)
						} else if k, isK := g.res(sib).V.(*ssa.Const); isK && k.Value != nil {
							if k.Value.String() == "true" {
								t = triT
							} else if k.Value.String() == "false" {
								t = triF
							}
						}
						if t == triT || t == triF {
							decided, val = true, (t == triT) == br
						}
					}
				} else if cmp, ok := g.decode(cv, br); ok && (cmp.Op == token.EQL || cmp.Op == token.NEQ) {
					xv, yv := g.res(cmp.X), g.res(cmp.Y)
					if isNilConst(xv.V) {
						xv, yv = yv, xv
					}
					if isNilConst(yv.V) && g.joinOf(xv) == n {
						if sib, ok := g.sibling(xv, cgEdge{Pred: pred}); ok {
							if g.nonNil(sib, pred) {
								decided, val = true, cmp.Op == token.NEQ
							} else if g.knownNil(sib, pred) {
								decided, val = true, cmp.Op == token.EQL
							}
						}
					}
				}
				if decided {
					if val {
						walk(n.succs[0], n)
					} else {
						walk(n.succs[1], n)
					}
					return
				}
			}
		}
		for _, s := range n.succs {
			walk(s, n)
		}
	}
	walk(start, nil)
	return found
}

// emptyG: R6 — with no data the segment operation is not reached and the stream is closed cleanly.
func (x *c01Ctx) emptyG(pp *cgPipe, owner, root string, opNode *cgNode, dataV CV, pos string, driver *cgLoop) {
	r, g := x.r, pp.g
	type guard struct {
		c     cgCond
		empty *cgNode
	}
	var guards, extra []guard
	for _, dc := range g.domConds(opNode) {
		cmp, ok := g.decode(dc.Cond, dc.Branch)
		if !ok {
			continue
		}
		e, kv, op := cmp.X, cmp.Y, cmp.Op
		if _, isK := g.constInt(e); isK {
			e, kv, op = kv, e, c01FlipOp(op)
		}
		k, isK := g.constInt(kv)
		if !isK || !((op == token.NEQ && k == 0) || (op == token.GTR && k == 0) || (op == token.GEQ && k == 1)) {
			continue
		}
		// e is the length of the data
		same := true
		for _, pv := range []bool{true, false} {
			a, ok1 := pp.linWhen(e, dc.At, pv, 0)
			b, ok2 := pp.lenWhen(dataV, opNode, pv, 0)
			if !ok1 || !ok2 || a != b {
				same = false
			}
		}
		if !same {
			continue
		}
		empty := dc.At.succs[0]
		if dc.Branch {
			empty = dc.At.succs[1]
		}
		guards = append(guards, guard{dc, empty})
	}
	// further zero-length tests of the data in the driver loop that do not dominate the operation
	// (switch { case n == 0 && first: break; case n == 0: fail }): their empty side may be the clean exit
	if driver != nil {
		have := map[*cgNode]bool{}
		for _, gd := range guards {
			have[gd.c.At] = true
		}
		var cands []*cgNode
		for n := range driver.Body {
			cands = append(cands, n)
		}
		sort.Slice(cands, func(i, j int) bool { return cands[i].idx < cands[j].idx })
		for _, n := range cands {
			if have[n] || len(n.succs) != 2 || !g.dominates(n, opNode) && !g.reach(n, nil)[opNode] {
				continue
			}
			c, ok := g.edgeCond(n, n.succs[0])
			if !ok {
				continue
			}
			cmp, ok := g.decode(c.Cond, true)
			if !ok {
				continue
			}
			e, kv, op := cmp.X, cmp.Y, cmp.Op
			if _, isK := g.constInt(e); isK {
				e, kv, op = kv, e, c01FlipOp(op)
			}
			k, isK := g.constInt(kv)
			if !isK {
				continue
			}
			emptyIdx := -1
			switch {
			case (op == token.EQL && k == 0) || (op == token.LSS && k == 1) || (op == token.LEQ && k == 0):
				emptyIdx = 0
			case (op == token.NEQ && k == 0) || (op == token.GTR && k == 0) || (op == token.GEQ && k == 1):
				emptyIdx = 1
			}
			if emptyIdx < 0 {
				continue
			}
			same := true
			for _, pv := range []bool{true, false} {
				a, ok1 := pp.linWhen(e, n, pv, 0)
				b, ok2 := pp.lenWhen(dataV, opNode, pv, 0)
				if !ok1 || !ok2 || a != b {
					same = false
				}
			}
			if same {
				extra = append(extra, guard{cgCond{Cond: c.Cond, Branch: emptyIdx == 1, At: n, To: n.succs[1-emptyIdx]}, n.succs[emptyIdx]})
			}
		}
	}
	cons := owner + " no segment for empty input"
	if len(guards) == 0 {
		r.Undecide("C01.R6: no test of the data length for zero dominates the segment operation of %s; whether an empty input produces a segment is not decided", root)
		return
	}
	clean := false
	for _, gd := range append(append([]guard{}, guards...), extra...) {
		found := g.pathReach(pp, gd.empty, func(n *cgNode) int {
			for _, in := range n.instrs() {
				c, ok := in.(*ssa.Call)
				if !ok {
					continue
				}
				switch {
				case callIs(c, "io", "PipeWriter", "CloseWithError"), n == opNode:
					return 1
				case callIs(c, "io", "PipeWriter", "Close"):
					return 2
				}
			}
			return 0
		})
		if found {
			clean = true
		}
	}
	if !clean {
		// is every test of the count in front of the operation understood? otherwise the empty case may be handled by one that is not
		var derived map[CV]bool
		recognised := map[*cgNode]bool{}
		for _, gd := range guards {
			recognised[gd.c.At] = true
		}
		for _, dc := range g.domConds(opNode) {
			if recognised[dc.At] || pp.classify(dc.Cond) != 0 {
				continue
			}
			// a comparison of (count +/- k) with something resolvable, or a boolean with a known relation to the
			// look-ahead decision, is understood (it is simply not a zero-length test)
			if t := pp.evalD(dc.Cond, dc.At, 0, false); t != triU {
				continue
			}
			if cmp, ok := g.decode(dc.Cond, dc.Branch); ok {
				understood := true
				for _, pv := range []bool{true, false} {
					if _, ok := pp.linWhen(cmp.X, dc.At, pv, 0); !ok {
						understood = false
					}
					if _, ok := pp.linWhen(cmp.Y, dc.At, pv, 0); !ok {
						understood = false
					}
				}
				lx, _ := pp.linWhen(cmp.X, dc.At, true, 0)
				ly, _ := pp.linWhen(cmp.Y, dc.At, true, 0)
				if understood && (lx.Base == pp.marker() || lx.isConst()) && (ly.Base == pp.marker() || ly.isConst() || ly == (cgLin{pp.bound.Base, ly.K})) {
					continue
				}
			}
			if derived == nil {
				var seeds []CV
				for v := range pp.core {
					seeds = append(seeds, v)
				}
				derived = g.flowFrom(seeds, func(CV) bool { return true })
			}
			c0, _ := g.stripNot(dc.Cond, true)
			related := derived[c0]
			if related {
				r.Undecide("C01.R6: a test of the filled count in front of the segment operation of %s is not classified; whether an empty input reaches a clean Close is not decided", root)
				return
			}
		}
	}
	r.Check(clean, "C01.R6-empty-message", cons, pos, "a zero-length test guards the segment operation and its empty side reaches a clean Close",
		"when no byte was read every zero-length test in front of the segment operation leads to an error on the stream (or to the operation itself) and never to a clean Close: an empty message yields a stream error or an empty 16-byte segment, but the spec says an empty file has no segment at all and must round-trip")
}

// carryOverG: the look-ahead byte buffer[count-1] is what is stored at
// buffer[0] before the next fill, and the running count restarts at 1 there.
func (x *c01Ctx) carryOverG(pp *cgPipe, owner string, fill *cgRead, pos string) {
	r, g := x.r, pp.g
	cons := owner + " carry-over byte"
	bufKey := g.objKey(CV{fill.n.C, fill.call.Call.Args[0]})
	isLookaheadLoad := func(v CV) bool {
		u, ok := v.V.(*ssa.UnOp)
		if !ok || u.Op != token.MUL {
			return false
		}
		ia, ok := g.res(CV{v.C, u.X}).V.(*ssa.IndexAddr)
		if !ok || g.objKey(CV{v.C, ia.X}) != bufKey {
			return false
		}
		n := g.nodeOfValue(v)
		l, ok := pp.linWhen(CV{v.C, ia.Index}, n, true, 0)
		if !ok {
			return false
		}
		return (l.Base == pp.marker() && l.K == -1) || (l == cgLin{pp.bound.Base, pp.bound.K - 1})
	}
	// writes to the start of the fill buffer: buf[0] = v, or copy(buf[0:…], src)
	type st struct {
		n    *cgNode
		val  CV // stored value (store form)
		src  CV // source slice (copy form)
		call CV // the copy call (copy form)
		pos  string
	}
	var stores []st
	g.eachInstr(func(n *cgNode, in ssa.Instruction) {
		switch y := in.(type) {
		case *ssa.Store:
			ia, ok := g.res(CV{n.C, y.Addr}).V.(*ssa.IndexAddr)
			if !ok || g.objKey(CV{n.C, ia.X}) != bufKey {
				return
			}
			if k, ok := g.constInt(CV{n.C, ia.Index}); ok && k == 0 {
				stores = append(stores, st{n: n, val: CV{n.C, y.Val}, pos: x.p.Pos(y.Pos())})
			}
		case *ssa.Call:
			if builtinName(y) != "copy" || len(y.Call.Args) != 2 {
				return
			}
			dst := CV{n.C, y.Call.Args[0]}
			if g.objKey(dst) != bufKey || !g.sliceLowZero(dst, 0) {
				return
			}
			// not the hand-over of the whole segment somewhere else: the source is not the buffer's own start
			stores = append(stores, st{n: n, src: CV{n.C, y.Call.Args[1]}, call: CV{n.C, y}, pos: x.p.Pos(y.Pos())})
		}
	})
	if len(stores) == 0 {
		r.Violation("C01.R5-segment-args", cons, pos, "a look-ahead byte is read to detect the end of the input but nothing ever stores it at the start of the buffer for the next segment: one plaintext byte is lost at every segment boundary")
		return
	}
	// does the total restart from v (a constant 1, or the number of bytes copy() moved)?
	restartsFrom := func(want func(CV) bool, after *cgNode) bool {
		found := false
		var look func(v CV, d int)
		look = func(v CV, d int) {
			edges, ok := g.phiEdges(v)
			if !ok || d > 4 {
				return
			}
			for _, e := range edges {
				ev := g.res(e.Val)
				if want(ev) && (after == nil || e.Pred == after || g.dominates(after, e.Pred)) {
					found = true
					continue
				}
				if !pp.core[ev] && g.constLike(ev, 0) {
					look(ev, d+1)
				}
			}
		}
		for v := range pp.core {
			look(v, 0)
		}
		return found
	}
	for _, s := range stores {
		if s.call.ok() {
			// copy form: the source holds the look-ahead byte, the count restarts from copy's result
			srcRoot := g.sliceRoot(s.src)
			srcKey := g.objKey(s.src)
			carries := false
			if srcKey == bufKey {
				// copy(buf, buf[count-1:count])
				if sl, ok := g.deep(s.src).V.(*ssa.Slice); ok && sl.Low != nil {
					if l, ok := pp.linWhen(CV{g.deep(s.src).C, sl.Low}, s.n, true, 0); ok && ((l.Base == pp.marker() && l.K == -1) || (l == cgLin{pp.bound.Base, pp.bound.K - 1})) {
						carries = true
					}
				}
			} else {
				g.eachInstr(func(n *cgNode, in ssa.Instruction) {
					y, ok := in.(*ssa.Store)
					if !ok {
						return
					}
					ia, ok := g.res(CV{n.C, y.Addr}).V.(*ssa.IndexAddr)
					if !ok || g.objKey(CV{n.C, ia.X}) != srcKey {
						return
					}
					for v := range g.cone(CV{n.C, y.Val}) {
						if isLookaheadLoad(v) {
							carries = true
						}
					}
				})
			}
			_ = srcRoot
			// the number of bytes copied back (the source window's length) must be able to be 1
			if sl, ok := g.deep(s.src).V.(*ssa.Slice); ok && sl.High != nil && srcKey != bufKey {
				one := false
				for _, hv := range g.sources(CV{g.deep(s.src).C, sl.High}) {
					if k, ok := g.constInt(hv); ok && k == 1 {
						one = true
					}
				}
				if !one {
					r.Violation("C01.R5-segment-args", cons, s.pos, "the look-ahead byte is kept aside, but the length copied back to the start of the buffer is never 1: the byte is lost at every segment boundary")
					return
				}
			}
			if !carries {
				r.Undecide("C01.R5: %s refills the start of the buffer with copy() from a source whose content is not visibly the look-ahead byte", owner)
				return
			}
			call := g.res(s.call)
			if !restartsFrom(func(v CV) bool { return v == call }, nil) {
				r.Violation("C01.R5-segment-args", cons, s.pos, "after copying the look-ahead byte back to the start of the buffer the running count does not restart from the number of bytes copied: the restored byte is overwritten by the next Read (or counted twice)")
				return
			}
			continue
		}
		carries := false
		for v := range g.cone(s.val) {
			if isLookaheadLoad(v) {
				carries = true
			}
		}
		if !carries {
			r.Violation("C01.R5-segment-args", cons, s.pos, "the byte stored at the start of the buffer for the next segment is not the look-ahead byte buffer[count-1]: a wrong byte is injected at every segment boundary")
			return
		}
		// the restore is usually guarded by a "have a carried byte" flag: that flag must be able to be true
		for _, dc := range g.domConds(s.n) {
			c, br := g.stripNot(dc.Cond, dc.Branch)
			if b, ok := c.V.Type().Underlying().(*types.Basic); !ok || b.Kind() != types.Bool {
				continue
			}
			if _, isCmp := c.V.(*ssa.BinOp); isCmp || !br {
				continue
			}
			srcs := g.sources(c)
			allFalse := len(srcs) > 0
			for _, sv := range srcs {
				k, isK := sv.V.(*ssa.Const)
				if !isK || k.Value == nil || k.Value.Kind() != constant.Bool || constant.BoolVal(k.Value) {
					allFalse = false
				}
			}
			if _, isLoad := c.V.(*ssa.UnOp); isLoad && allFalse && len(g.unresolved(g.srcSet(srcs))) == 0 {
				r.Violation("C01.R5-segment-args", cons, s.pos, "the look-ahead byte is restored only when a flag is set, and that flag is never assigned true: the byte is lost at every segment boundary")
				return
			}
		}
		sn := s.n
		if !restartsFrom(func(v CV) bool { k, ok := g.constInt(v); return ok && k == 1 }, sn) {
			r.Violation("C01.R5-segment-args", cons, s.pos, "after restoring the look-ahead byte at buffer[0] the running count does not restart at 1: the restored byte is overwritten by the next Read (or counted twice)")
			return
		}
	}
	r.OK("C01.R5-segment-args", cons, pos, "buffer[0] = buffer[count-1] of the previous fill, count restarts at 1")
}

// readReceiver: the stream a Read call reads from — the interface value of an invoke, the receiver of a
// static method call, or the value a method value (read := in.Read) was bound to.
func (g *cGraph) readReceiver(call CV) (CV, bool) {
	c := call.V.(*ssa.Call)
	if c.Call.IsInvoke() {
		return CV{call.C, c.Call.Value}, true
	}
	v := g.deep(CV{call.C, c.Call.Value})
	switch f := v.V.(type) {
	case *ssa.MakeClosure:
		if fn, ok := f.Fn.(*ssa.Function); ok && strings.HasSuffix(fn.Name(), "$bound") && len(f.Bindings) == 1 {
			return CV{v.C, f.Bindings[0]}, true
		}
	case *ssa.Function:
		if f.Signature.Recv() != nil && len(c.Call.Args) > 0 {
			return CV{call.C, c.Call.Args[0]}, true
		}
	}
	return CV{}, false
}
