package main

import (
	"fmt"
	"go/token"
	"go/types"
	"os"
	"path/filepath"
	"time"

	"golang.org/x/tools/go/ssa"
)

// C01 — enc/v1: Decrypt inverts Encrypt; ciphertext follows the published format.

const c01Rel = "schemes/enc/v1"

func init() { register("C01", checkC01) }

type c01Ctx struct {
	c    *Ctx
	r    *Report
	p    *Prog
	spec *c01Spec
	fns  []*ssa.Function
	pkg  string // full package path

	dirs      map[string]*c01Dir
	graphs    map[string]*cGraph
	fillReads map[*ssa.Call]bool // Reads that fill segments (the others read the header)
}

func checkC01(c *Ctx) {
	r, p := c.R, c.P
	r.Explanation = "Decides structural necessary conditions of C01 on schemes/enc/v1, each compared with the in-repo published spec (README.md) where the spec gives a number, a name or a formula. " +
		"The stream rules are evaluated on the INLINED flow of the exported entry points Encrypt and Decrypt: every same-package callee (static call, method, closure, bound method, function value with a known target — parameter, func-typed field, method value, element of a literal table, phi of functions —, interface call on a known concrete type or on an unexported interface with a single implementation, goroutine body) is expanded context-sensitively (depth <= 10, <= 400 contexts, <= 8 alternatives per call site); a call inside a loop over a literal table of structs (<= 8 rows) is expanded once per row with the row's fields as arguments, and stores through a row's pointer field go to that row's target, parameters are followed to arguments, results to the callee's returns (a helper's flag / enum / error result stays correlated with the caller's branch on it), local variables and fields of local objects (nested, by value or behind a pointer, struct copies) to their reaching assignments including the zero value, each with the branch conditions that hold on every path from the assignment to the read. Constructs are found by role (the cipher.AEAD.Seal/Open call, the buffer handed to it as nonce, the Read of the entry point's io.Reader that shares a loop with it, the hkdf.New whose output keys the AEAD, the write that precedes the segments, the io.MultiReader assigned to the stream variable …), never by the name of an unexported function, method, type, field or local. " +
		"(R1a/R1b) io.Reader contract at every Read of the input: the count is consumed independently of the error (also when the error is tested through a helper predicate), the Read sits in a loop that is never left because one Read was short or empty — neither directly nor through an error manufactured under a test of a single Read's count (a 'no progress' / stall guard counting zero-length reads, consecutive or not: the statement quantifies over all read-size sequences including zero-length reads). (R1c) the segment fill loop is left only when the accumulated count reached the fill limit or an error was seen, reads at most up to that limit, and the limit is the README's segment size (+ tag size under Decrypt) + 1 look-ahead byte. (R1d) the header reader returns a nil error, not the last Read's, with a completely parsed header. " +
		"(R5) the values that reach the nonce and the AEAD: last <=> 'count did not reach the limit' (symbolic evaluation over phis, return values and branch facts; decided from the Read error or another threshold = violation), data length = count-1 with look-ahead / count without, starting at the start of the fill buffer, the look-ahead byte buffer[count-1] is what is put back at the start of the buffer (indexed store, or copy() from where it was kept) under a flag / length that can be set, with the count restarting at 1 (or at copy's result), counter 0,+1 (loop-carried or kept in a variable / field, incremented after the operation), nothing is processed after last; (R6) a zero-length test of the data dominates the segment operation and some zero-length test in the driver loop has an empty side that reaches a clean Close.  A way out of the segment loop taken after a processed segment because the counter reached a constant must not come before the counter's last value in the README's width (2^32-1): a smaller limit rejects or truncates plaintexts the format can hold. " +
		"(R2) id/name tables (conditional constant propagation through switch / if / map-table / literal-slice loop / slices.Contains / table-index forms): README ids <-> NewXFromID/ID/Validate, every accepted name survives Validate->ID->FromID->Validate, JSON (un)marshal goes through the tables, the AEAD constructor per accepted cipher, Manifest JSON tags. " +
		"(R3) spec constants; nonce layout (12 bytes = 7-byte prefix || big-endian uint32 || last flag) in whichever function builds the nonce, whether it writes a buffer in place (copy, PutUint32, indexed store), grows a slice (append, AppendUint32) or does both; for each direction the HKDF call whose output is the HMAC key / the AEAD key has the README's info and salt (salt origin = origin of the nonce prefix) and the wrapped / unwrapped file key as input; HMAC-SHA-256; standard base64; fresh key 32 bytes, prefix 7; header = MACed message || base64(MAC) || LF (make+copy+Encode or append/AppendEncode/Join/Concat forms); pooled buffer >= largest fill limit. " +
		"(R4) no AAD; the MACed message is scheme line, LF, manifest, LF (Encrypt: json.Marshal output; Decrypt: the bytes exactly as read, never re-encoded); the size limit the header writer enforces covers the complete header and does not exceed what the header reader scans. (R7) the bytes read past the header are copied out of the pooled buffer and put, in front of the rest, into the stream variable the segment phase reads. Every path from a header Read to the segment phase (helper results correlated with the caller's error tests) performs that push-back or has established count <= end-of-header; an early success return that skips both (e.g. when the last header Read carried io.EOF) is a violation; a guard around the push-back that is an opaque flag gives UNDECIDED. (R8) Manifest fields at the point of marshalling originate in the cipher that selects the AEAD, the prefix copied into the nonces, WrapKeyFn's result and algorithm argument, with the documented key-name precedence; Decrypt feeds UnwrapKeyFn / nonce / AEAD selection from the manifest's fields; the signed header is written before the segment loop. " +
		"(R9) none of the places that overwrite a byte slice (clear, copy into, element store, the destination of io.ReadFull / rand.Read / subtle / binary / base64 / AEAD calls — also in deferred calls) can reach a slice returned by the caller's WrapKeyFn / UnwrapKeyFn: such a function may keep what it returns (a key cache), so wiping it breaks every later use of that key; working on a copy is fine (copies made by bytes.Clone / append / make+copy carry the origin of their content for the key-derivation rules). " +
		"NOT decided: byte-for-byte round-trip equality; correctness of AEAD/HKDF/HMAC/JSON/base64 themselves (trusted libraries); the header line scanner's index arithmetic; consumer-side chunking (delegated to io.Pipe); behaviour on source errors and tampering (C02); that WrapKeyFn/UnwrapKeyFn are inverse. Shapes the engine cannot classify (state kept in a way that is neither SSA-, cell- nor field-resolvable, values stored through a pointer kept in an array element, reads through io.ReadFull or bufio, a nonce assembled by other means than in-place writes and append forms within one function, or whose opening bytes are not identified, a header written in several Write calls, tables computed by generics other than slices.Contains/Index) give UNDECIDED, never VIOLATION."
	r.Assumptions = append(r.Assumptions,
		"io.Reader implementations obey the documented contract (0 <= n <= len(p); n bytes valid even when err != nil; (0,nil) allowed)",
		"crypto/cipher.NewGCM and chacha20poly1305.New give 12-byte-nonce, 16-byte-tag AEADs; hkdf.New(hash, secret, salt, info) and hmac.New(hash,key) have their documented meaning; encoding/json encodes []byte as standard padded base64",
		"schemes/enc/v1/README.md is the published spec",
		"memory model of the inlined flow: local cells and fields of local objects only; a location whose address escapes to code that is not expanded is treated flow-insensitively (all stored values); `go f()` is ordered like a call at the go statement; package-level error variables and errors.New/fmt.Errorf results are non-nil")

	x := &c01Ctx{c: c, r: r, p: p, fns: p.FuncsOfPkg(c01Rel), pkg: p.ModPath + "/" + c01Rel}
	p.Pkg(c01Rel) // anchor package must resolve

	r.Rule("C01.R1a-count-before-err", "every Read: the returned count is used on a path that does not depend on that Read's error", 2)
	r.Rule("C01.R1b-read-in-loop", "every Read sits in a loop whose exits never test the raw count of a single Read (short or empty reads are not 'end of data')", 2)
	r.Rule("C01.R1c-segment-fill", "segment fill loop: exits only on count>=bound or err!=nil; read window capped at bound; bound = spec segment size (+tag when decrypting) + 1 look-ahead byte", 4)
	r.Rule("C01.R1d-success-err-nil", "header reader: a return that delivers the parsed header carries a nil error, never the error of the last Read (data may arrive together with io.EOF)", 1)
	r.Rule("C01.R5-segment-args", "values reaching the nonce and the AEAD: last flag = no look-ahead byte, data length and start, look-ahead byte carried to the next segment, counter (0, +1, not cut short of its published range), nothing after last", 5)
	r.Rule("C01.R6-empty-message", "an empty input produces no segment and ends in a clean Close", 1)
	r.Rule("C01.R2-tables", "id/name tables agree with each other and with the README; JSON goes through them; getCipher covers the accepted ciphers with the AEAD the spec names", 27)
	r.Rule("C01.R3-spec-constants", "constants, nonce layout, HKDF/HMAC/base64 parameters equal the README's", 23)
	r.Rule("C01.R4-siblings", "encrypt/decrypt siblings agree with the spec: nil AAD, MACed message = scheme line LF manifest LF (Decrypt: bytes as read), header size limit writer<=reader", 5)
	r.Rule("C01.R7-header-pushback", "bytes read beyond the third header line are re-prepended to the stream Decrypt continues with", 3)
	r.Rule("C01.R9-callback-memory", "the byte slices returned by the caller's WrapKeyFn / UnwrapKeyFn are never overwritten (clear, copy into, element store, library writers; also in deferred calls)", 2)
	r.Rule("C01.R8-manifest-wiring", "manifest fields and the keys/cipher/nonce prefix used for the payload are the same values on both sides; key-name precedence", 10)

	spec, err := c01ReadSpec(filepath.Join(p.Dir, c01Rel, "README.md"))
	if err != nil {
		r.Undecide("published spec schemes/enc/v1/README.md unreadable: %v", err)
		return
	}
	for _, m := range spec.MissingItems {
		r.Undecide("published spec: cannot find %s in README.md", m)
	}
	if spec.PrefixLen+spec.CounterLen+spec.FlagLen != spec.NonceSize {
		r.Undecide("published spec inconsistent: nonce %d != %d+%d+%d", spec.NonceSize, spec.PrefixLen, spec.CounterLen, spec.FlagLen)
	}
	if len(spec.MissingItems) > 0 {
		return
	}
	x.spec = spec

	x.fillReads = map[*ssa.Call]bool{}
	x.dirs = map[string]*c01Dir{}
	tm := func(what string, f func()) {
		t0 := time.Now()
		f()
		if os.Getenv("C01_TIME") != "" {
			fmt.Printf("TIME %-12s %v\n", what, time.Since(t0))
		}
	}
	tm("pipelines", x.pipelines)
	tm("R1d", x.headerSuccessErr)
	tm("tables", x.tables)
	tm("constants", x.specConstants)
	tm("roles", x.roleRules)

	if os.Getenv("C01_DUMP") != "" {
		for _, o := range r.Obs {
			fmt.Printf("DUMP %s | %s | %s | %s | %s\n", o.Status, o.Rule, o.Construct, o.Pos, o.Message)
		}
	}

	c.Fixture("c01cb", func(fp *Prog, fr *Report) {
		fx := &c01Ctx{c: c, r: fr, p: fp, fns: fp.Funcs}
		for _, fn := range fp.Funcs {
			if fn.Parent() != nil || fn.Name() == "init" || len(fn.Blocks) == 0 || fn.Signature.Recv() != nil {
				continue
			}
			fx.callbackMemory(c01NewGraph(fp, fn), FuncName(fp, fn), "R9", []string{"UnwrapKeyFn"})
		}
		fr.Undecided = nil // helper functions without a callback call are not examples
	})
	c.Fixture("c01read", func(fp *Prog, fr *Report) {
		fx := &c01Ctx{c: c, r: fr, p: fp, fns: fp.Funcs}
		for _, fn := range fp.Funcs {
			if fn.Parent() != nil || fn.Name() == "init" || len(fn.Blocks) == 0 {
				continue
			}
			fg := c01NewGraph(fp, fn)
			name := FuncName(fp, fn)
			fx.readRules(fg, "R1a", "R1b", func(cgRead) string { return name })
		}
	})
}

// ---------------------------------------------------------------- R1a / R1b

type c01ReadSite struct {
	fn      *ssa.Function
	call    *ssa.Call
	nn, err ssa.Value // extracts (nil if discarded)
}

func (x *c01Ctx) collectReads() []c01ReadSite {
	var out []c01ReadSite
	for _, fn := range x.fns {
		allInstrs(fn, func(in ssa.Instruction) {
			call, ok := in.(*ssa.Call)
			if !ok || !c01IsReadCall(call) {
				return
			}
			out = append(out, c01ReadSite{fn: fn, call: call, nn: callResult(call, 0), err: callResult(call, 1)})
		})
	}
	return out
}

// ---------------------------------------------------------------- R1c, R5, R6

// lookahead relates the `last` value to an If comparing the accumulated count
// with the bound. Returns the successor block on which "count >= bound"
// (more data follows) holds, the If, and a violation text (or "").

// c01CarriesErr: v is (a phi / local-cell copy of) one of the given Read errors.
func c01CarriesErr(v ssa.Value, errs map[ssa.Value]bool) bool {
	seen := map[ssa.Value]bool{}
	var walk func(x ssa.Value) bool
	walk = func(x ssa.Value) bool {
		if errs[x] {
			return true
		}
		if seen[x] {
			return false
		}
		seen[x] = true
		switch y := x.(type) {
		case *ssa.Phi:
			for _, e := range y.Edges {
				if walk(e) {
					return true
				}
			}
		case *ssa.UnOp:
			if a, ok := y.X.(*ssa.Alloc); ok && y.Op == token.MUL {
				for _, s := range c01Stores(a) {
					if walk(s) {
						return true
					}
				}
			}
		case *ssa.ChangeInterface:
			return walk(y.X)
		}
		return false
	}
	return walk(v)
}

// headerSuccessErr (R1d): in the function that reads the header, a return
// whose data results are not nil constants must return a nil error: the
// constant, a value known nil on that path, or a cell that cannot hold a
// Read error there.
func (x *c01Ctx) headerSuccessErr() {
	r := x.r
	d := x.dirs["Decrypt"]
	if d == nil || d.fill == nil {
		r.Undecide("C01.R1d: the Decrypt pipeline was not resolved; header reader not located")
		return
	}
	// header Reads: the Reads under Decrypt that are not the segment fill; for each, the functions between
	// Decrypt and the Read that return (data…, error) are header parsers
	n := 0
	done := map[*ssa.Function]bool{}
	for _, s := range d.reads {
		if s.n == d.fill.n || d.driver.Body[s.n] || s.err.V == nil {
			continue
		}
		errs := map[ssa.Value]bool{s.err.V: true}
		for c := s.n.C; c != nil && c.parent != nil; c = c.parent {
			res := c.fn.Signature.Results()
			if res.Len() >= 2 && types.Identical(res.At(res.Len()-1).Type(), types.Universe.Lookup("error").Type()) {
				hasData := false
				for i := 0; i < res.Len()-1; i++ {
					if _, ok := res.At(i).Type().Underlying().(*types.Slice); ok {
						hasData = true
					}
				}
				if hasData && !done[c.fn] {
					done[c.fn] = true
					n++
					x.successErrNil(c.fn, errs)
				}
			}
			// one level up the error of this call plays the role of the Read error
			errs = map[ssa.Value]bool{}
			if call, ok := c.site.(*ssa.Call); ok {
				sig := call.Call.Signature()
				for i := 0; i < sig.Results().Len(); i++ {
					if types.Identical(sig.Results().At(i).Type(), types.Universe.Lookup("error").Type()) {
						if v := callResult(call, i); v != nil {
							errs[v] = true
						}
					}
				}
			}
			if len(errs) == 0 {
				break
			}
		}
	}
	if n == 0 {
		r.Undecide("C01.R1d: no function returning (header bytes…, error) found between Decrypt and its header Read")
	}
}

// successErrNil: in fn, a return whose data results are not nil constants
// carries a nil error, never (a copy of) one of errs.
func (x *c01Ctx) successErrNil(rh *ssa.Function, errs map[ssa.Value]bool) {
	r, p := x.r, x.p
	fname := FuncName(p, rh)
	res := rh.Signature.Results()
	errIdx := res.Len() - 1
	// value of result i at a return: through the named-result cell, the last
	// store in the returning block (nil = content of the cell on entry to the block)
	type resv struct {
		val  ssa.Value  // stored/returned value (nil if only the cell is known)
		cell *ssa.Alloc // named-result cell, if any
	}
	resolve := func(ret *ssa.Return, i int) resv {
		v := ret.Results[i]
		u, ok := v.(*ssa.UnOp)
		if !ok || u.Op != token.MUL {
			return resv{val: v}
		}
		a, ok := u.X.(*ssa.Alloc)
		if !ok {
			return resv{val: v}
		}
		var last ssa.Value
		for _, in := range ret.Block().Instrs {
			if st, ok := in.(*ssa.Store); ok && st.Addr == ssa.Value(a) {
				last = st.Val
			}
		}
		// `*cell = *cell` (return x with x the named result) keeps the content
		if lu, ok := last.(*ssa.UnOp); ok && lu.Op == token.MUL && lu.X == ssa.Value(a) {
			last = nil
		}
		return resv{val: last, cell: a}
	}
	n := 0
	for _, b := range rh.Blocks {
		if len(b.Instrs) == 0 || len(b.Preds) == 0 && b.Index != 0 {
			continue
		}
		ret, ok := b.Instrs[len(b.Instrs)-1].(*ssa.Return)
		if !ok || len(ret.Results) != res.Len() {
			continue
		}
		success := true
		for i := 0; i < errIdx; i++ {
			rv := resolve(ret, i)
			if rv.val != nil && isNilConst(rv.val) {
				success = false
			}
		}
		if !success {
			continue
		}
		n++
		cons := fname + " success return"
		pos := p.Pos(instrPos(ret))
		ev := resolve(ret, errIdx)
		bad := "the error returned together with the parsed header can be the error of the last Read: when the source delivers the end of the header together with io.EOF (header-only / empty-message documents, short documents handed over whole) the header is complete but Decrypt fails with 'invalid header: EOF'; io.Reader allows (n>0, io.EOF), so on the path where the header was found the error must be nil"
		switch {
		case ev.val != nil && isNilConst(ev.val):
			r.OK("C01.R1d-success-err-nil", cons, pos, "explicit nil error")
		case ev.val != nil && errKnownNil(b, ev.val):
			r.OK("C01.R1d-success-err-nil", cons, pos, "error known nil on this path")
		case ev.val != nil:
			if c01CarriesErr(ev.val, errs) {
				r.Violation("C01.R1d-success-err-nil", cons, pos, bad)
			} else {
				r.OK("C01.R1d-success-err-nil", cons, pos, "error result is not a Read error")
			}
		default:
			// content of the named-result cell: known nil by a dominating test on a load of the cell
			// that no later store can change, or no Read error can reach this block
			knownNil := false
			for _, dc := range domConds(b) {
				cmp, ok := decodeCond(dc.If.Cond, dc.Branch)
				if !ok || cmp.Op != token.EQL {
					continue
				}
				lv := cmp.X
				if isNilConst(lv) {
					lv = cmp.Y
				} else if !isNilConst(cmp.Y) {
					continue
				}
				lu, ok := lv.(*ssa.UnOp)
				if !ok || lu.Op != token.MUL || lu.X != ssa.Value(ev.cell) {
					continue
				}
				// no store to the cell after the test on the way here
				ib := dc.If.Block()
				succ := ib.Succs[1]
				if dc.Branch {
					succ = ib.Succs[0]
				}
				clean := true
				for _, u := range refs(ev.cell) {
					if st, ok := u.(*ssa.Store); ok && st.Addr == ssa.Value(ev.cell) && succ.Dominates(st.Block()) && reachableFrom(st.Block(), nil)[b] {
						clean = false
					}
				}
				if clean {
					knownNil = true
				}
			}
			readErrReaches := false
			for _, u := range refs(ev.cell) {
				if st, ok := u.(*ssa.Store); ok && st.Addr == ssa.Value(ev.cell) && c01CarriesErr(st.Val, errs) && reachableFrom(st.Block(), nil)[b] {
					readErrReaches = true
				}
			}
			r.Check(knownNil || !readErrReaches, "C01.R1d-success-err-nil", cons, pos, "error result cannot be a Read error here", bad)
		}
	}
	if n == 0 {
		r.Undecide("C01.R1d: no return of %s delivers non-nil header data", fname)
	}
}
