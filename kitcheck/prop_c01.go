package main

import (
	"fmt"
	"go/token"
	"go/types"
	"os"
	"path/filepath"

	"golang.org/x/tools/go/ssa"
)

// C01 — enc/v1: Decrypt inverts Encrypt; ciphertext follows the published format.

const c01Rel = "schemes/enc/v1"

func init() { register("C01", checkC01) }

type c01Ctx struct {
	c    *Ctx
	r    *Report
	p    *Prog
	spec *c01Spec
	fns  []*ssa.Function
	pkg  string // full package path
}

func checkC01(c *Ctx) {
	r, p := c.R, c.P
	r.Explanation = "Decides structural necessary conditions of C01 on schemes/enc/v1, each compared with the in-repo published spec (README.md) where the spec gives a number, a name or a formula. " +
		"(R1) io.Reader contract at every Read: the byte count is consumed before/independently of the error, the Read sits in a loop that is never left because one Read was short or empty; the segment fill loop is left only when the accumulated count reached segmentSize+1 or an error was seen, reads at most up to that bound, and the look-ahead decision uses the same bound. " +
		"(R5) the arguments handed to the per-segment function: length = filled count minus the look-ahead byte, counter = 0,1,2,…, last = 'no look-ahead byte', and no segment follows one flagged last; (R6) an empty input reaches a clean Close without any segment. " +
		"(R2) id/name tables: README ids <-> NewXFromID/ID/Validate, every accepted name survives Validate->ID->FromID->Validate, JSON (un)marshal goes through the tables, getCipher builds the AEAD the spec names from the payload key, Manifest JSON tags match the README. " +
		"(R3) spec constants: scheme line, 65536-byte segments, 16-byte tag, 12-byte nonce = 7-byte prefix || big-endian uint32 counter || last flag, HKDF-SHA-256 (salt,info) pairs and which key they feed, HMAC-SHA-256, standard base64. " +
		"(R4) sibling agreement: Encrypt/DecryptSegment use the same nonce function with their own (num,last), nil AAD; processSegments is driven with 65536 / 65536+16; SignHeader/VerifyHeaderSignature MAC the same message built from the scheme line and the raw manifest; Decrypt verifies the manifest bytes as read. " +
		"(R7) bytes read past the header are pushed back in front of the stream that Decrypt goes on to read. (R8) the manifest is filled from the same cipher / nonce prefix / wrapped key that encrypt the payload, and Decrypt imports exactly the manifest's values. " +
		"NOT decided: byte-for-byte round-trip equality; correctness of AEAD/HKDF/HMAC/JSON/base64 themselves (trusted libraries); consumer-side chunking (delegated to io.Pipe); behaviour on source errors and tampering (C02); that WrapKeyFn/UnwrapKeyFn are inverse."
	r.Assumptions = append(r.Assumptions,
		"io.Reader implementations obey the documented contract (0 <= n <= len(p); n bytes valid even when err != nil; (0,nil) allowed)",
		"crypto/cipher.NewGCM and chacha20poly1305.New give 12-byte-nonce, 16-byte-tag AEADs; hkdf.New(hash, secret, salt, info) and hmac.New(hash,key) have their documented meaning; encoding/json encodes []byte as standard padded base64",
		"schemes/enc/v1/README.md is the published spec")

	x := &c01Ctx{c: c, r: r, p: p, fns: p.FuncsOfPkg(c01Rel), pkg: p.ModPath + "/" + c01Rel}
	p.Pkg(c01Rel) // anchor package must resolve

	r.Rule("C01.R1a-count-before-err", "every Read: the returned count is used on a path that does not depend on that Read's error", 2)
	r.Rule("C01.R1b-read-in-loop", "every Read sits in a loop whose exits never test the raw count of a single Read (short or empty reads are not 'end of data')", 2)
	r.Rule("C01.R1c-segment-fill", "segment fill loop: exits only on count>=bound or err!=nil; read window capped at bound; look-ahead decision equals count>=bound with bound=segmentSize+1", 3)
	r.Rule("C01.R1d-success-err-nil", "header reader: a return that delivers the parsed header carries a nil error, never the error of the last Read (data may arrive together with io.EOF)", 1)
	r.Rule("C01.R5-segment-args", "per-segment call: length, counter (0, +1), last flag = no look-ahead byte, look-ahead byte carried to the next segment, nothing after last", 5)
	r.Rule("C01.R6-empty-message", "an empty input produces no segment and ends in a clean Close", 2)
	r.Rule("C01.R2-tables", "id/name tables agree with each other and with the README; JSON goes through them; getCipher covers the accepted ciphers with the AEAD the spec names", 27)
	r.Rule("C01.R3-spec-constants", "constants, nonce layout, HKDF/HMAC/base64 parameters equal the README's", 18)
	r.Rule("C01.R4-siblings", "encrypt/decrypt siblings agree (nonce function and arguments, nil AAD, segment sizes, MACed message, header size limit writer<=reader)", 15)
	r.Rule("C01.R7-header-pushback", "bytes read beyond the third header line are re-prepended to the stream Decrypt continues with", 2)
	r.Rule("C01.R8-manifest-wiring", "manifest fields and the keys/cipher/nonce prefix used for the payload are the same values on both sides; key-name precedence", 12)

	spec, err := c01ReadSpec(filepath.Join(p.Dir, c01Rel, "README.md"))
	if err != nil {
		r.Undecide("published spec schemes/enc/v1/README.md unreadable: %v", err)
		return
	}
	for _, m := range spec.MissingItems {
		r.Undecide("published spec: cannot find %s in README.md", m)
	}
	if spec.PrefixLen+spec.CounterLen+spec.FlagLen != spec.NonceSize {
		r.Undecide("published spec inconsistent: nonce %d != %d+%d+%d", spec.NonceSize, spec.PrefixLen, spec.CounterLen, spec.FlagLen)
	}
	if len(spec.MissingItems) > 0 {
		return
	}
	x.spec = spec

	x.readSites()
	x.headerSuccessErr()
	x.segmentLoop()
	x.tables()
	x.specConstants()
	x.siblings()
	x.headerPushback()
	x.wiring()

	if os.Getenv("C01_DUMP") != "" {
		for _, o := range r.Obs {
			fmt.Printf("DUMP %s | %s | %s | %s | %s\n", o.Status, o.Rule, o.Construct, o.Pos, o.Message)
		}
	}

	c.Fixture("c01read", func(fp *Prog, fr *Report) {
		fx := &c01Ctx{c: c, r: fr, p: fp, fns: fp.Funcs}
		fx.readSitesIn("R1a", "R1b")
	})
}

// ---------------------------------------------------------------- R1a / R1b

type c01ReadSite struct {
	fn      *ssa.Function
	call    *ssa.Call
	nn, err ssa.Value // extracts (nil if discarded)
}

func (x *c01Ctx) collectReads() []c01ReadSite {
	var out []c01ReadSite
	for _, fn := range x.fns {
		allInstrs(fn, func(in ssa.Instruction) {
			call, ok := in.(*ssa.Call)
			if !ok || !c01IsReadCall(call) {
				return
			}
			out = append(out, c01ReadSite{fn: fn, call: call, nn: callResult(call, 0), err: callResult(call, 1)})
		})
	}
	return out
}

func (x *c01Ctx) readSites() { x.readSitesIn("C01.R1a-count-before-err", "C01.R1b-read-in-loop") }

// errDependentConds: the dominating conditions of block b that are decided
// after the call (their If lies in a block dominated by the call's block)
// and whose condition depends on errv.
func c01ErrConds(b *ssa.BasicBlock, call *ssa.Call, errv ssa.Value) []DomCond {
	var out []DomCond
	if errv == nil {
		return nil
	}
	for _, dc := range domConds(b) {
		ib := dc.If.Block()
		if ib != call.Block() && !call.Block().Dominates(ib) {
			continue
		}
		if c01DependsOn(dc.If.Cond, errv) {
			out = append(out, dc)
		}
	}
	return out
}

func (x *c01Ctx) readSitesIn(ruleA, ruleB string) {
	r, p := x.r, x.p
	for _, s := range x.collectReads() {
		fname := FuncName(p, s.fn)
		pos := p.Pos(s.call.Pos())
		// R1a
		cons := fname + " Read count"
		if s.nn == nil || len(refs(s.nn)) == 0 {
			r.Violation(ruleA, cons, pos, "the byte count returned by Read is discarded: data delivered by a short read (or together with an error/EOF) is lost or misplaced")
		} else {
			var uses []ssa.Instruction
			for _, u := range refs(s.nn) {
				if bo, ok := u.(*ssa.BinOp); ok && (bo.Op == token.ADD || bo.Op == token.SUB) {
					uses = append(uses, u)
				}
			}
			if len(uses) == 0 {
				for _, u := range refs(s.nn) {
					if _, ok := u.(*ssa.DebugRef); !ok {
						uses = append(uses, u)
					}
				}
			}
			free := false
			where := ""
			for _, u := range uses {
				ec := c01ErrConds(u.Block(), s.call, s.err)
				if len(ec) == 0 {
					free = true
				} else {
					where = p.Pos(instrPos(ec[0].If))
				}
			}
			r.Check(free, ruleA, cons, pos, "count is consumed independently of the error result",
				"the count returned by Read is only used after the error was tested (at "+where+"): bytes returned together with io.EOF (or any error) are dropped, so a reader that returns data with EOF truncates the message")
		}
		// R1b
		cons = fname + " Read loop"
		loops := c01Loops(s.fn)
		l := c01InnermostLoop(loops, s.call.Block())
		if l == nil {
			r.Violation(ruleB, cons, pos, "a single Read outside any loop: io.Reader may return fewer bytes than asked (or zero) without being at the end, so the result depends on how the source chunks its reads")
			continue
		}
		bad := ""
		for _, ex := range l.exits() {
			cond, br, ok := c01EdgeCond(ex.From, ex.To)
			if !ok {
				continue
			}
			if cmp, ok := decodeCond(cond, br); ok && s.nn != nil && (cmp.X == s.nn || cmp.Y == s.nn) {
				bad = p.Pos(instrPos(ex.From.Instrs[len(ex.From.Instrs)-1]))
			}
		}
		r.Check(bad == "", ruleB, cons, pos, "Read is retried in a loop; no exit tests the raw count",
			"the read loop is left (at "+bad+") because a single Read returned a particular count: a short or zero-length read is not the end of the data")
	}
}

// ---------------------------------------------------------------- R1c, R5, R6

// c01SegFnCall finds the call through a func-typed parameter with the
// processSegmentFn shape (…, []byte, uint32, bool) error.
func c01SegFnCall(fn *ssa.Function) *ssa.Call {
	var out *ssa.Call
	allInstrs(fn, func(in ssa.Instruction) {
		call, ok := in.(*ssa.Call)
		if !ok || call.Call.IsInvoke() {
			return
		}
		if _, ok := call.Call.Value.(*ssa.Parameter); !ok {
			return
		}
		if len(call.Call.Args) == 4 {
			out = call
		}
	})
	return out
}

func (x *c01Ctx) segmentLoop() {
	r, p := x.r, x.p
	ps := p.Func(c01Rel, "processSegments")
	fname := FuncName(p, ps)
	seg := c01SegFnCall(ps)
	if seg == nil {
		r.Undecide("C01: %s no longer calls a per-segment function parameter (out, data, num, last)", fname)
		return
	}
	var site *c01ReadSite
	for _, s := range x.collectReads() {
		if s.fn == ps {
			s := s
			site = &s
		}
	}
	if site == nil {
		// accepted alternative: io.ReadFull / io.ReadAtLeast implement the contract themselves
		alt := false
		allInstrs(ps, func(in ssa.Instruction) {
			if c, ok := in.(*ssa.Call); ok && (callIs(c, "io", "", "ReadFull") || callIs(c, "io", "", "ReadAtLeast")) {
				alt = true
			}
		})
		if alt {
			r.Undecide("C01.R1c: %s fills segments through io.ReadFull/ReadAtLeast; the look-ahead rules are written for the explicit fill loop and must be re-derived", fname)
		} else {
			r.Undecide("C01.R1c: no Read of the input found in %s (moved to a helper?)", fname)
		}
		return
	}
	if site.nn == nil || site.err == nil {
		return // already reported by R1a
	}
	pos := p.Pos(site.call.Pos())
	acc := c01Forward(site.nn)
	loops := c01Loops(ps)
	inner := c01InnermostLoop(loops, site.call.Block())
	if inner == nil {
		return // reported by R1b
	}

	// --- exits of the fill loop
	var bound *c01Lin
	bad := ""
	for _, ex := range inner.exits() {
		cond, br, ok := c01EdgeCond(ex.From, ex.To)
		at := p.Pos(instrPos(ex.From.Instrs[len(ex.From.Instrs)-1]))
		if !ok {
			bad = "unconditionally at " + at
			continue
		}
		if cmp, ok := decodeCond(cond, br); ok {
			a, y, op := cmp.X, cmp.Y, cmp.Op
			if !acc[a] && acc[y] {
				a, y = y, a
				switch op {
				case token.LSS:
					op = token.GTR
				case token.GTR:
					op = token.LSS
				case token.LEQ:
					op = token.GEQ
				case token.GEQ:
					op = token.LEQ
				}
			}
			if acc[a] && !acc[y] {
				l := c01Linear(y)
				switch op {
				case token.GEQ, token.EQL:
				case token.GTR:
					l.K++
				default:
					bad = "when the accumulated count is BELOW a limit, at " + at
					continue
				}
				if bound != nil && *bound != l {
					bad = "on two different count limits (" + bound.String() + " and " + l.String() + ")"
				}
				bound = &l
				continue
			}
		}
		if c01ErrTest(cond, site.err) {
			continue // err-driven exit
		}
		bad = "on a condition that is neither 'count reached the limit' nor 'Read returned an error', at " + at
	}
	r.Check(bad == "" && bound != nil, "C01.R1c-segment-fill", fname+" fill-loop exits", pos,
		"fill loop is left only when the count reached "+c01LinStr(bound)+" or an error was seen",
		"the segment fill loop can be left "+bad+c01NoBound(bound)+": a source that chunks its reads differently yields different segment boundaries / an early 'last segment'")
	if bound == nil {
		return
	}
	// --- read window
	if sl, ok := site.call.Call.Args[0].(*ssa.Slice); ok && sl.High != nil {
		h := c01Linear(sl.High)
		r.Check(h == *bound, "C01.R1c-segment-fill", fname+" read window", pos,
			"Read is offered buf[n:"+h.String()+"], the same bound as the loop limit",
			"Read is offered a window ending at "+h.String()+" while the fill loop stops at "+bound.String()+": a reader delivering more at once overfills the segment (segments longer than the spec's size) or the limit is never reached")
	} else if len(site.call.Call.Args) == 1 {
		if _, ok := site.call.Call.Args[0].(*ssa.Slice); ok {
			r.Violation("C01.R1c-segment-fill", fname+" read window", pos, "Read is offered the buffer up to its full length, not capped at the fill limit "+bound.String()+": a reader delivering more than one segment at once overfills the segment")
		} else {
			r.Undecide("C01.R1c: cannot resolve the window passed to Read in %s", fname)
		}
	}

	// --- the per-segment call
	args := seg.Call.Args
	dataArg, numArg, lastArg := args[1], args[2], args[3]
	segPos := p.Pos(seg.Pos())

	// size parameter: bound must be sizeParam+1
	var sizeParam ssa.Value
	for _, pa := range ps.Params {
		if b, ok := pa.Type().Underlying().(*types.Basic); ok && b.Info()&types.IsInteger != 0 {
			sizeParam = pa
		}
	}

	// look-ahead decision: controls `last`
	moreSucc, lookIf, why := x.lookahead(lastArg, acc, *bound, site.err)
	switch {
	case why == "const":
		r.Violation("C01.R5-segment-args", fname+" last flag", segPos, "the 'last' argument of the per-segment call is a constant: the nonce's last-segment byte no longer says whether this is the final segment (spec: 0x01 only on the last segment)")
	case why != "":
		r.Violation("C01.R5-segment-args", fname+" last flag", segPos, why)
	case lookIf == nil:
		r.Undecide("C01.R5: cannot relate the 'last' argument in %s to a comparison of the filled count with the fill limit", fname)
	default:
		r.OK("C01.R5-segment-args", fname+" last flag", segPos, "last = (count did not reach "+bound.String()+")")
		okB := sizeParam != nil && bound.Base == sizeParam && bound.K == 1
		r.Check(okB, "C01.R1c-segment-fill", fname+" look-ahead bound", p.Pos(instrPos(lookIf)),
			"fill limit and look-ahead threshold are segmentSize+1",
			"the fill limit / look-ahead threshold is "+bound.String()+" instead of segmentSize+1: exactly one byte of look-ahead is what distinguishes a full last segment from a non-last one")
	}

	// length of the slice handed over
	if lookIf != nil && why == "" {
		x.segLength(ps, fname, dataArg, lookIf, moreSucc, acc, *bound, segPos)
	}

	// carry-over byte
	if lookIf != nil && why == "" {
		x.carryOver(ps, fname, site, lookIf, acc, *bound, segPos)
	}

	// counter
	x.segCounter(ps, fname, numArg, loops, seg, segPos)

	// nothing after last
	x.nothingAfterLast(ps, fname, seg, lastArg, segPos)

	// empty message
	x.emptyMessage(ps, fname, seg, dataArg, segPos)
}

func c01LinStr(l *c01Lin) string {
	if l == nil {
		return "?"
	}
	return l.String()
}
func c01NoBound(l *c01Lin) string {
	if l == nil {
		return " (no exit on the accumulated count found)"
	}
	return ""
}

// lookahead relates the `last` value to an If comparing the accumulated count
// with the bound. Returns the successor block on which "count >= bound"
// (more data follows) holds, the If, and a violation text (or "").
// errDriven is the violation text for a finality decision taken from the Read error.
const c01ErrDriven = "whether this is the last segment (and whether a look-ahead byte is carried over) is decided from the Read error instead of from the filled count: io.Reader may return the byte that fills the look-ahead together with io.EOF, so the error says nothing about whether the look-ahead byte was read — a plaintext of k*65536+1 bytes from such a reader is sealed as one oversized last segment (spec: segments are 65,536 bytes, only the last may be shorter)"

func (x *c01Ctx) lookahead(last ssa.Value, acc map[ssa.Value]bool, bound c01Lin, errv ssa.Value) (*ssa.BasicBlock, *ssa.If, string) {
	if _, ok := last.(*ssa.Const); ok {
		return nil, nil, "const"
	}
	// geBound: does cmp (true branch) mean count >= bound (1), count < bound (-1), or neither (0)
	classify := func(cond ssa.Value) int {
		cmp, ok := decodeCond(cond, true)
		if !ok {
			return 0
		}
		a, y, op := cmp.X, cmp.Y, cmp.Op
		if !acc[a] && acc[y] {
			a, y = y, a
			switch op {
			case token.LSS:
				op = token.GTR
			case token.GTR:
				op = token.LSS
			case token.LEQ:
				op = token.GEQ
			case token.GEQ:
				op = token.LEQ
			}
		}
		if !acc[a] || acc[y] {
			return 0
		}
		l := c01Linear(y)
		switch op {
		case token.GTR: // a > y  == a >= y+1
			l.K++
			if l == bound {
				return 1
			}
			return 2
		case token.GEQ, token.EQL:
			if l == bound {
				return 1
			}
			return 2
		case token.LSS, token.NEQ:
			if l == bound {
				return -1
			}
			return 2
		case token.LEQ:
			l.K++
			if l == bound {
				return -1
			}
			return 2
		}
		return 0
	}
	if _, isPhi := last.(*ssa.Phi); !isPhi && errv != nil && c01ErrTest(last, errv) {
		return nil, nil, c01ErrDriven
	}
	switch v := last.(type) {
	case *ssa.Phi:
		idom := v.Block().Idom()
		if idom == nil || len(idom.Instrs) == 0 {
			return nil, nil, ""
		}
		ifi, ok := idom.Instrs[len(idom.Instrs)-1].(*ssa.If)
		if !ok {
			return nil, nil, ""
		}
		k := classify(ifi.Cond)
		if k == 0 {
			if errv != nil && c01ErrTest(ifi.Cond, errv) {
				return nil, ifi, c01ErrDriven
			}
			for _, e := range v.Edges {
				if _, isK := e.(*ssa.Const); !isK && errv != nil && c01ErrTest(e, errv) {
					return nil, ifi, c01ErrDriven
				}
			}
			return nil, nil, ""
		}
		if k == 2 {
			return nil, ifi, "the look-ahead decision that sets 'last' compares the filled count with a threshold different from the fill limit " + bound.String() + ": a message whose final segment has exactly the other length is split or flagged wrongly"
		}
		more, noMore := idom.Succs[0], idom.Succs[1]
		if k == -1 {
			more, noMore = noMore, more
		}
		for i, e := range v.Edges {
			pred := v.Block().Preds[i]
			var side *ssa.BasicBlock
			switch {
			case pred == idom && v.Block() == more, edgeDominates(idom, more, pred):
				side = more
			case pred == idom && v.Block() == noMore, edgeDominates(idom, noMore, pred):
				side = noMore
			default:
				return nil, nil, ""
			}
			val, known := c01BoolAt(e, pred)
			if !known {
				return nil, nil, ""
			}
			if side == more && val {
				return nil, ifi, "'last' is true although a look-ahead byte was read (more data follows): the segment is sealed with the last-segment nonce and another segment follows it"
			}
			if side == noMore && !val {
				return nil, ifi, "'last' is false although no look-ahead byte was read: the final segment is sealed with the non-last nonce (spec: last_segment = 0x01 on the last segment)"
			}
		}
		return more, ifi, ""
	case *ssa.BinOp, *ssa.UnOp:
		if errv != nil && c01ErrTest(v, errv) {
			return nil, nil, c01ErrDriven
		}
		k := classify(v)
		if k == -1 {
			// last := count < bound ; find an If on the same comparison for the length rule
			return nil, nil, ""
		}
		if k == 1 {
			return nil, nil, "'last' is computed as 'count reached the fill limit', i.e. inverted"
		}
	}
	return nil, nil, ""
}

func (x *c01Ctx) segLength(ps *ssa.Function, fname string, dataArg ssa.Value, lookIf *ssa.If, more *ssa.BasicBlock, acc map[ssa.Value]bool, bound c01Lin, pos string) {
	r := x.r
	sl, ok := dataArg.(*ssa.Slice)
	if !ok || sl.High == nil {
		r.Undecide("C01.R5: the data argument of the per-segment call in %s is not a window buf[:n]", fname)
		return
	}
	if sl.Low != nil {
		if k, ok := c01ConstInt(sl.Low); !ok || k != 0 {
			r.Violation("C01.R5-segment-args", fname+" segment length", pos, "the segment handed over does not start at the beginning of the buffer (the carried-over byte at index 0 is skipped)")
			return
		}
	}
	// the compared count
	cmp, _ := decodeCond(lookIf.Cond, true)
	cnt := cmp.X
	if !acc[cnt] {
		cnt = cmp.Y
	}
	want := func(side bool, l c01Lin) bool { // side=true: more data
		if side {
			return (l.Base == cnt && l.K == -1) || (l.Base == bound.Base && l.K == bound.K-1)
		}
		return l.Base == cnt && l.K == 0
	}
	idom := lookIf.Block()
	phi, ok := sl.High.(*ssa.Phi)
	if !ok || phi.Block().Idom() != idom {
		// one expression for both outcomes: it cannot be count-1 with look-ahead and count without
		l := c01Linear(sl.High)
		if l.Base == cnt || l.Base == bound.Base || l.Base == nil {
			r.Violation("C01.R5-segment-args", fname+" segment length", pos, "the segment length is "+l.String()+" whether or not a look-ahead byte was read; it must be count-1 with look-ahead (the extra byte belongs to the next segment) and count without")
			return
		}
	}
	if !ok || phi.Block().Idom() != idom {
		r.Undecide("C01.R5: cannot relate the segment length in %s to the two outcomes of the look-ahead test", fname)
		return
	}
	bad := ""
	for i, e := range phi.Edges {
		pred := phi.Block().Preds[i]
		isMore := edgeDominates(idom, more, pred) || (pred == idom && phi.Block() == more)
		l := c01Linear(e)
		if !want(isMore, l) {
			if isMore {
				bad = "when a look-ahead byte was read the segment length is " + l.String() + " instead of count-1: the look-ahead byte is encrypted twice (or data is dropped)"
			} else {
				bad = "when no look-ahead byte was read the segment length is " + l.String() + " instead of the filled count"
			}
		}
	}
	r.Check(bad == "", "C01.R5-segment-args", fname+" segment length", pos, "length = count-1 with look-ahead, count without", bad)
}

func (x *c01Ctx) segCounter(ps *ssa.Function, fname string, num ssa.Value, loops []*c01Loop, seg *ssa.Call, pos string) {
	r := x.r
	cons := fname + " segment counter"
	phi, ok := num.(*ssa.Phi)
	if !ok {
		switch num.(type) {
		case *ssa.Const:
			r.Violation("C01.R5-segment-args", cons, pos, "the segment number handed to the per-segment function is a constant: every segment is sealed with the same counter (spec: sequence number 0,1,2,… in the nonce)")
		case *ssa.BinOp:
			r.Violation("C01.R5-segment-args", cons, pos, "the segment number handed over is an expression of the loop counter, not the counter itself: the first segment is not number 0 (spec: 'The first segment has sequence number 0')")
		default:
			r.Undecide("C01.R5: segment number argument in %s is not a loop-carried counter", fname)
		}
		return
	}
	var loop *c01Loop
	for _, l := range loops {
		if l.Head == phi.Block() {
			loop = l
		}
	}
	if loop == nil || !loop.Body[seg.Block()] {
		r.Undecide("C01.R5: segment counter in %s is not carried by the loop that contains the per-segment call", fname)
		return
	}
	bad := ""
	for i, e := range phi.Edges {
		pred := phi.Block().Preds[i]
		if !loop.Body[pred] {
			if k, ok := c01ConstInt(e); !ok || k != 0 {
				bad = "the segment counter does not start at 0 (spec: first segment has sequence number 0)"
			}
			continue
		}
		l := c01Linear(e)
		if l.Base != phi || l.K != 1 {
			bad = "the segment counter is not advanced by exactly 1 per processed segment (got " + l.String() + ")"
		}
	}
	r.Check(bad == "", "C01.R5-segment-args", cons, pos, "counter starts at 0 and is incremented by 1 on the way back to the loop head", bad)
}

// nothingAfterLast: assuming last==true, the per-segment call is not reachable again.
func (x *c01Ctx) nothingAfterLast(ps *ssa.Function, fname string, seg *ssa.Call, last ssa.Value, pos string) {
	type st struct{ b, pred *ssa.BasicBlock }
	seen := map[st]bool{}
	again := false
	var resolve func(v ssa.Value, b, pred *ssa.BasicBlock) (bool, bool)
	resolve = func(v ssa.Value, b, pred *ssa.BasicBlock) (bool, bool) {
		if v == last {
			return true, true
		}
		if u, ok := v.(*ssa.UnOp); ok && u.Op == token.NOT {
			val, k := resolve(u.X, b, pred)
			return !val, k
		}
		if phi, ok := v.(*ssa.Phi); ok && phi.Block() == b && pred != nil {
			for i, p := range b.Preds {
				if p == pred {
					e := phi.Edges[i]
					if e == last {
						return true, true
					}
					if c, ok := e.(*ssa.Const); ok {
						if val, k := c01BoolAt(c, b); k {
							return val, true
						}
					}
				}
			}
		}
		return false, false
	}
	var walk func(b, pred *ssa.BasicBlock)
	walk = func(b, pred *ssa.BasicBlock) {
		if seen[st{b, pred}] {
			return
		}
		seen[st{b, pred}] = true
		if b == seg.Block() && pred != nil {
			again = true
			return
		}
		if len(b.Instrs) > 0 {
			if ifi, ok := b.Instrs[len(b.Instrs)-1].(*ssa.If); ok {
				if val, k := resolve(ifi.Cond, b, pred); k {
					if val {
						walk(b.Succs[0], b)
					} else {
						walk(b.Succs[1], b)
					}
					return
				}
			}
		}
		for _, s := range b.Succs {
			walk(s, b)
		}
	}
	walk(seg.Block(), nil)
	x.r.Check(!again, "C01.R5-segment-args", fname+" nothing after last", pos, "after a segment flagged last the loop is left",
		"after a segment was handed over with last=true the loop can come round and process another segment: the ciphertext has data after the segment sealed as last (spec: the flag marks the final segment)")
}

func (x *c01Ctx) emptyMessage(ps *ssa.Function, fname string, seg *ssa.Call, dataArg ssa.Value, pos string) {
	r, p := x.r, x.p
	sl, ok := dataArg.(*ssa.Slice)
	if !ok || sl.High == nil {
		return
	}
	n := sl.High
	var emptySide *ssa.BasicBlock
	guarded := false
	for _, dc := range domConds(seg.Block()) {
		cmp, ok := decodeCond(dc.If.Cond, dc.Branch)
		if !ok {
			continue
		}
		a, y := cmp.X, cmp.Y
		if a != n {
			continue
		}
		k, isK := c01ConstInt(y)
		if !isK {
			continue
		}
		if (cmp.Op == token.NEQ && k == 0) || (cmp.Op == token.GTR && k == 0) || (cmp.Op == token.GEQ && k == 1) {
			guarded = true
			ib := dc.If.Block()
			if dc.Branch {
				emptySide = ib.Succs[1]
			} else {
				emptySide = ib.Succs[0]
			}
		}
	}
	if !guarded {
		// accepted alternative: the sealing function returns nil on empty data
		alt := false
		if seal := x.segmentFns()["seal"]; seal != nil {
			for _, b := range seal.Blocks {
				if len(b.Instrs) == 0 {
					continue
				}
				ret, ok := b.Instrs[len(b.Instrs)-1].(*ssa.Return)
				if !ok || len(ret.Results) != 1 || !isNilConst(ret.Results[0]) {
					continue
				}
				for _, dc := range domConds(b) {
					if cmp, ok := decodeCond(dc.If.Cond, dc.Branch); ok && cmp.Op == token.EQL {
						if c, ok := cmp.X.(*ssa.Call); ok && builtinName(c) == "len" {
							if k, ok := c01ConstInt(cmp.Y); ok && k == 0 {
								alt = true
							}
						}
					}
				}
			}
		}
		r.Check(alt, "C01.R6-empty-message", fname+" no segment for empty input", pos, "empty data is skipped inside the sealing function",
			"the per-segment function is called even when no byte was read: an empty message yields a stream error (EncryptSegment rejects empty data) or an empty 16-byte segment, but the spec says an empty file has no segment at all")
		return
	}
	r.OK("C01.R6-empty-message", fname+" no segment for empty input", pos, "the per-segment call is guarded by length != 0")
	// from the empty side a clean Close must be reachable without CloseWithError / the segment call
	stop := map[*ssa.BasicBlock]bool{}
	closeBlocks := map[*ssa.BasicBlock]bool{}
	for _, b := range ps.Blocks {
		for _, in := range b.Instrs {
			if c, ok := in.(*ssa.Call); ok {
				if callIs(c, "io", "PipeWriter", "CloseWithError") || c == seg {
					stop[b] = true
				}
				if callIs(c, "io", "PipeWriter", "Close") {
					closeBlocks[b] = true
				}
			}
		}
	}
	reach := reachableFrom(emptySide, stop)
	ok2 := false
	for b := range closeBlocks {
		if reach[b] && !stop[b] {
			ok2 = true
		}
	}
	r.Check(ok2, "C01.R6-empty-message", fname+" empty input closes cleanly", p.Pos(instrPos(emptySide.Instrs[0])), "the zero-length path reaches out.Close()",
		"when nothing was read there is no path to a clean out.Close(): an empty plaintext can only end in a stream error, so it does not round-trip")
}

// c01ErrTest: cond is `e ==/!= nil` or errors.Is/As(e, …) (possibly negated)
// where e carries the error result errv (directly, through phis or a local cell).
func c01ErrTest(cond ssa.Value, errv ssa.Value) bool {
	carries := func(v ssa.Value) bool {
		seen := map[ssa.Value]bool{}
		var walk func(x ssa.Value) bool
		walk = func(x ssa.Value) bool {
			if x == errv {
				return true
			}
			if seen[x] {
				return false
			}
			seen[x] = true
			switch y := x.(type) {
			case *ssa.Phi:
				for _, e := range y.Edges {
					if walk(e) {
						return true
					}
				}
			case *ssa.UnOp:
				if a, ok := y.X.(*ssa.Alloc); ok && y.Op == token.MUL {
					for _, s := range c01Stores(a) {
						if walk(s) {
							return true
						}
					}
				}
			case *ssa.ChangeInterface:
				return walk(y.X)
			}
			return false
		}
		return walk(v)
	}
	if cmp, ok := decodeCond(cond, true); ok && (cmp.Op == token.EQL || cmp.Op == token.NEQ) {
		if isNilConst(cmp.Y) && carries(cmp.X) || isNilConst(cmp.X) && carries(cmp.Y) {
			return true
		}
		// err == io.EOF style
		if carries(cmp.X) || carries(cmp.Y) {
			return true
		}
	}
	if call, _, ok := boolCallCond(cond, true); ok && (callIs(call, "errors", "", "Is") || callIs(call, "errors", "", "As")) {
		return len(call.Call.Args) > 0 && carries(call.Call.Args[0])
	}
	return false
}

// c01AccCore: the running total a Read count is added into: the additions of
// nn and the phis (transitively) merging them — not values computed from them.
func c01AccCore(nn ssa.Value) map[ssa.Value]bool {
	core := map[ssa.Value]bool{}
	var work []ssa.Value
	for _, u := range refs(nn) {
		if bo, ok := u.(*ssa.BinOp); ok && bo.Op == token.ADD {
			core[bo] = true
			work = append(work, bo)
		}
	}
	for len(work) > 0 {
		v := work[0]
		work = work[1:]
		for _, u := range refs(v) {
			if phi, ok := u.(*ssa.Phi); ok && !core[phi] {
				core[phi] = true
				work = append(work, phi)
			}
		}
	}
	return core
}

// c01BufCell: the local cell at the bottom of the load chain a buffer value
// comes from ((*buf)[i] -> buf).
func c01BufCell(v ssa.Value) ssa.Value {
	for i := 0; i < 6; i++ {
		switch y := v.(type) {
		case *ssa.Slice:
			v = y.X
		case *ssa.UnOp:
			if y.Op != token.MUL {
				return v
			}
			v = y.X
		case *ssa.IndexAddr:
			v = y.X
		default:
			return v
		}
	}
	return v
}

// carryOver: the look-ahead byte (buffer[count-1] on the "more" outcome) is
// what a store to buffer[0] writes, and the running count restarts at 1 there.
func (x *c01Ctx) carryOver(ps *ssa.Function, fname string, site *c01ReadSite, lookIf *ssa.If, acc map[ssa.Value]bool, bound c01Lin, pos string) {
	r, p := x.r, x.p
	cons := fname + " carry-over byte"
	cell := c01BufCell(site.call.Call.Args[0])
	cmp, _ := decodeCond(lookIf.Cond, true)
	cnt := cmp.X
	if !acc[cnt] {
		cnt = cmp.Y
	}
	isLookaheadLoad := func(v ssa.Value) bool {
		u, ok := v.(*ssa.UnOp)
		if !ok || u.Op != token.MUL {
			return false
		}
		ia, ok := u.X.(*ssa.IndexAddr)
		if !ok || c01BufCell(ia.X) != cell {
			return false
		}
		l := c01Linear(ia.Index)
		return (l.Base == cnt && l.K == -1) || (l.Base == bound.Base && l.K == bound.K-1)
	}
	var stores []*ssa.Store
	allInstrs(ps, func(in ssa.Instruction) {
		st, ok := in.(*ssa.Store)
		if !ok {
			return
		}
		ia, ok := st.Addr.(*ssa.IndexAddr)
		if !ok || c01BufCell(ia.X) != cell {
			return
		}
		if k, ok := c01ConstInt(ia.Index); ok && k == 0 {
			stores = append(stores, st)
		}
	})
	if len(stores) == 0 {
		r.Violation("C01.R5-segment-args", cons, pos, "a look-ahead byte is read to detect the end of the input but nothing ever stores it at the start of the buffer for the next segment: one plaintext byte is lost at every segment boundary")
		return
	}
	core := c01AccCore(site.nn)
	for _, st := range stores {
		carries := false
		for v := range c01Cone(st.Val) {
			if isLookaheadLoad(v) {
				carries = true
			}
		}
		if !carries {
			r.Violation("C01.R5-segment-args", cons, p.Pos(st.Pos()), "the byte stored at the start of the buffer for the next segment is not the look-ahead byte buffer[count-1]: a wrong byte is injected at every segment boundary")
			return
		}
		restart := false
		for v := range core {
			phi, ok := v.(*ssa.Phi)
			if !ok {
				continue
			}
			for i, e := range phi.Edges {
				if k, ok := c01ConstInt(e); ok && k == 1 {
					pred := phi.Block().Preds[i]
					if pred == st.Block() || st.Block().Dominates(pred) {
						restart = true
					}
				}
			}
		}
		if !restart {
			r.Violation("C01.R5-segment-args", cons, p.Pos(st.Pos()), "after restoring the look-ahead byte at buffer[0] the running count does not restart at 1: the restored byte is overwritten by the next Read (or counted twice)")
			return
		}
	}
	r.OK("C01.R5-segment-args", cons, pos, "buffer[0] = buffer[count-1] of the previous fill, count restarts at 1")
}

// c01CarriesErr: v is (a phi / local-cell copy of) one of the given Read errors.
func c01CarriesErr(v ssa.Value, errs map[ssa.Value]bool) bool {
	seen := map[ssa.Value]bool{}
	var walk func(x ssa.Value) bool
	walk = func(x ssa.Value) bool {
		if errs[x] {
			return true
		}
		if seen[x] {
			return false
		}
		seen[x] = true
		switch y := x.(type) {
		case *ssa.Phi:
			for _, e := range y.Edges {
				if walk(e) {
					return true
				}
			}
		case *ssa.UnOp:
			if a, ok := y.X.(*ssa.Alloc); ok && y.Op == token.MUL {
				for _, s := range c01Stores(a) {
					if walk(s) {
						return true
					}
				}
			}
		case *ssa.ChangeInterface:
			return walk(y.X)
		}
		return false
	}
	return walk(v)
}

// headerSuccessErr (R1d): in the function that reads the header, a return
// whose data results are not nil constants must return a nil error: the
// constant, a value known nil on that path, or a cell that cannot hold a
// Read error there.
func (x *c01Ctx) headerSuccessErr() {
	r, p := x.r, x.p
	rh := p.Func(c01Rel, "readHeader")
	fname := FuncName(p, rh)
	errs := map[ssa.Value]bool{}
	for _, s := range x.collectReads() {
		if s.fn == rh && s.err != nil {
			errs[s.err] = true
		}
	}
	if len(errs) == 0 {
		return // R1a already reports a Read without error use / R7 reports no Read
	}
	res := rh.Signature.Results()
	errIdx := res.Len() - 1
	if errIdx < 1 || !types.Identical(res.At(errIdx).Type(), types.Universe.Lookup("error").Type()) {
		r.Undecide("C01.R1d: %s no longer returns (data…, error)", fname)
		return
	}
	// value of result i at a return: through the named-result cell, the last
	// store in the returning block (nil = content of the cell on entry to the block)
	type resv struct {
		val  ssa.Value  // stored/returned value (nil if only the cell is known)
		cell *ssa.Alloc // named-result cell, if any
	}
	resolve := func(ret *ssa.Return, i int) resv {
		v := ret.Results[i]
		u, ok := v.(*ssa.UnOp)
		if !ok || u.Op != token.MUL {
			return resv{val: v}
		}
		a, ok := u.X.(*ssa.Alloc)
		if !ok {
			return resv{val: v}
		}
		var last ssa.Value
		for _, in := range ret.Block().Instrs {
			if st, ok := in.(*ssa.Store); ok && st.Addr == ssa.Value(a) {
				last = st.Val
			}
		}
		// `*cell = *cell` (return x with x the named result) keeps the content
		if lu, ok := last.(*ssa.UnOp); ok && lu.Op == token.MUL && lu.X == ssa.Value(a) {
			last = nil
		}
		return resv{val: last, cell: a}
	}
	n := 0
	for _, b := range rh.Blocks {
		if len(b.Instrs) == 0 || len(b.Preds) == 0 && b.Index != 0 {
			continue
		}
		ret, ok := b.Instrs[len(b.Instrs)-1].(*ssa.Return)
		if !ok || len(ret.Results) != res.Len() {
			continue
		}
		success := true
		for i := 0; i < errIdx; i++ {
			rv := resolve(ret, i)
			if rv.val != nil && isNilConst(rv.val) {
				success = false
			}
		}
		if !success {
			continue
		}
		n++
		cons := fname + " success return"
		pos := p.Pos(instrPos(ret))
		ev := resolve(ret, errIdx)
		bad := "the error returned together with the parsed header can be the error of the last Read: when the source delivers the end of the header together with io.EOF (header-only / empty-message documents, short documents handed over whole) the header is complete but Decrypt fails with 'invalid header: EOF'; io.Reader allows (n>0, io.EOF), so on the path where the header was found the error must be nil"
		switch {
		case ev.val != nil && isNilConst(ev.val):
			r.OK("C01.R1d-success-err-nil", cons, pos, "explicit nil error")
		case ev.val != nil && errKnownNil(b, ev.val):
			r.OK("C01.R1d-success-err-nil", cons, pos, "error known nil on this path")
		case ev.val != nil:
			if c01CarriesErr(ev.val, errs) {
				r.Violation("C01.R1d-success-err-nil", cons, pos, bad)
			} else {
				r.OK("C01.R1d-success-err-nil", cons, pos, "error result is not a Read error")
			}
		default:
			// content of the named-result cell: known nil by a dominating test on a load of the cell
			// that no later store can change, or no Read error can reach this block
			knownNil := false
			for _, dc := range domConds(b) {
				cmp, ok := decodeCond(dc.If.Cond, dc.Branch)
				if !ok || cmp.Op != token.EQL {
					continue
				}
				lv := cmp.X
				if isNilConst(lv) {
					lv = cmp.Y
				} else if !isNilConst(cmp.Y) {
					continue
				}
				lu, ok := lv.(*ssa.UnOp)
				if !ok || lu.Op != token.MUL || lu.X != ssa.Value(ev.cell) {
					continue
				}
				// no store to the cell after the test on the way here
				ib := dc.If.Block()
				succ := ib.Succs[1]
				if dc.Branch {
					succ = ib.Succs[0]
				}
				clean := true
				for _, u := range refs(ev.cell) {
					if st, ok := u.(*ssa.Store); ok && st.Addr == ssa.Value(ev.cell) && succ.Dominates(st.Block()) && reachableFrom(st.Block(), nil)[b] {
						clean = false
					}
				}
				if clean {
					knownNil = true
				}
			}
			readErrReaches := false
			for _, u := range refs(ev.cell) {
				if st, ok := u.(*ssa.Store); ok && st.Addr == ssa.Value(ev.cell) && c01CarriesErr(st.Val, errs) && reachableFrom(st.Block(), nil)[b] {
					readErrReaches = true
				}
			}
			r.Check(knownNil || !readErrReaches, "C01.R1d-success-err-nil", cons, pos, "error result cannot be a Read error here", bad)
		}
	}
	if n == 0 {
		r.Undecide("C01.R1d: no return of %s delivers non-nil header data", fname)
	}
}
