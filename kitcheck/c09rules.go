package main

// C09: timer re-arm (L8), bounded back-off (L9) and run-context (L11) rules,
// each a path-sensitive exploration of Run with callees followed.

import (
	"go/token"
	"go/types"
	"sort"

	"golang.org/x/tools/go/ssa"
)

type c09Sites struct {
	k    *c09
	find map[string]*c09Finding
	prob []string
}

func (s *c09Sites) note(rule, construct, pos, okMsg, badMsg string, bad bool) {
	key := rule + "|" + construct
	f := s.find[key]
	if f == nil {
		f = &c09Finding{rule: rule, construct: construct, pos: pos, msg: okMsg}
		s.find[key] = f
	}
	if bad && !f.bad {
		f.bad, f.msg, f.pos = true, badMsg, pos
	}
}

func (s *c09Sites) flush() int {
	var keys []string
	for k := range s.find {
		keys = append(keys, k)
	}
	sort.Strings(keys)
	for _, key := range keys {
		f := s.find[key]
		if f.bad && len(s.prob) > 0 {
			s.k.r.Undecide("C09 (exploration incomplete) %s %s: %s", f.rule, f.construct, f.msg)
			s.k.r.OK(f.rule, f.construct, f.pos, "not decided: exploration incomplete")
			continue
		}
		s.k.r.Check(!f.bad, f.rule, f.construct, f.pos, f.msg, f.msg)
	}
	for _, p := range s.prob {
		s.k.r.Undecide("C09 exploration: %s", p)
	}
	return len(keys)
}

// ---------------------------------------------------------------- L8

// timerRearm: every timer.Reset is reached only with the timer stopped: Stop
// returned true, or it returned false and the timer channel was received from.
func (k *c09) timerRearm() {
	const (
		dCalled    uint64 = 1 << iota // Stop called, result not yet tested
		dSafe                         // stopped, or fired and drained
		dNeedDrain                    // Stop reported false
	)
	s := &c09Sites{k: k, find: map[string]*c09Finding{}}
	isRecv := func(pf *PathFlow, in ssa.Instruction) (timer, loop bool) {
		switch x := in.(type) {
		case *ssa.UnOp:
			if x.Op == token.ARROW && k.isTimerChan(pf, x.X) {
				return true, false
			}
		case *ssa.Select:
			for _, st := range x.States {
				if st.Dir != types.RecvOnly {
					continue
				}
				if k.isFieldChan(pf, st.Chan, k.fInput) {
					loop = true
				} else if k.isTimerChan(pf, st.Chan) {
					timer = true
				}
			}
		}
		return
	}
	pf := k.flow()
	pf.Instr = func(pf *PathFlow, in ssa.Instruction, replay bool, st PState) []PState {
		if _, isDefer := in.(*ssa.Defer); isDefer && !replay {
			return []PState{st}
		}
		if timer, loop := isRecv(pf, in); timer || loop {
			if loop {
				st.A = 0 // a new iteration: the timer may have fired since
			} else if st.A&dNeedDrain != 0 {
				st.A = dSafe
			}
			return []PState{st}
		}
		switch x := in.(type) {
		case *ssa.Store:
			for _, ss := range k.stateStores(in) {
				if ss.field == k.fTimer {
					st.A = 0
				}
			}
		case ssa.CallInstruction:
			switch {
			case k.isTimerInvoke(pf, x, "Stop"):
				st.A = dCalled
			case k.isTimerInvoke(pf, x, "Reset"):
				s.note("C09.L8-timer-rearm", k.fname(in.Parent())+" timer.Reset", k.p.Pos(instrPos(in)), "Stop, drain-if-fired, then Reset",
					"the window timer is re-armed without stopping it and draining its channel when it had already fired: a stale expiry left in the channel closes the freshly extended window at once, so a burst inside one window yields several signals and the back-off restarts", st.A&dSafe == 0)
				st.A = 0
			}
		}
		return []PState{st}
	}
	pf.Edge = func(pf *PathFlow, from, to *ssa.BasicBlock, st PState) []PState {
		for _, f := range k.fc.edgeFacts(from, to, 0) {
			if f.IsCmp {
				continue
			}
			if call, ok := f.V.(*ssa.Call); ok && k.isTimerInvoke(nil, call, "Stop") && st.A&dCalled != 0 {
				if f.Truth {
					st.A = dSafe
				} else {
					st.A = dNeedDrain
				}
			}
		}
		return []PState{st}
	}
	pf.Run(k.run, []PState{{}})
	s.prob = pf.Problems
	// every Reset of the window timer must have been explored
	n := 0
	for _, fn := range k.fns {
		if k.ctorOnly[fn] {
			continue
		}
		allInstrs(fn, func(in ssa.Instruction) {
			if ci, ok := in.(ssa.CallInstruction); ok && k.isTimerInvoke(nil, ci, "Reset") {
				n++
				if !pf.Visited[in] {
					k.r.Undecide("C09: timer.Reset in %s is not reached by the exploration of Run", k.fname(fn))
				}
			}
		})
	}
	s.flush()
	if n == 0 {
		k.r.Violation("C09.L8-timer-rearm", k.tkey+" timer.Reset", "-", "the window timer is never re-armed: later Adds do not extend the quiet window")
	}
}

// ---------------------------------------------------------------- L9

func (k *c09) backoffBounded() {
	if k.fBackoff == "" {
		k.r.Violation("C09.L9-backoff-bounded", k.tkey+" backoffFactor growth", "-", "no integer field of the limiter is multiplied by the run loop: the quiet window no longer grows while events keep arriving")
		return
	}
	const (
		cBelow uint64 = 1 << iota // current < max known for the current value
		cRaw                      // current holds a value not known to be <= max
	)
	s := &c09Sites{k: k, find: map[string]*c09Finding{}}
	loads := map[*ssa.UnOp]int{}
	growth := k.growthOps()
	for _, fn := range k.fns {
		if k.ctorOnly[fn] {
			continue
		}
		allInstrs(fn, func(in ssa.Instruction) {
			switch x := in.(type) {
			case *ssa.UnOp:
				if x.Op == token.MUL {
					if f, ok := k.addrFieldR(x.X); ok && f == k.fCur {
						loads[x] = len(loads)
					}
				}
			}
		})
	}
	if len(loads) > 60 {
		undecided("C09: too many reads of the current window length")
	}
	curBit := func(ld *ssa.UnOp) uint64 {
		if i, ok := loads[ld]; ok {
			return 1 << uint(i)
		}
		return 0
	}
	rawMsg := "the current window length is not clamped to the maximum delay before it is used / the lock is released: the window can exceed MaxDelay"
	pf := k.flow()
	pf.Instr = func(pf *PathFlow, in ssa.Instruction, replay bool, st PState) []PState {
		if _, isDefer := in.(*ssa.Defer); isDefer && !replay {
			return []PState{st}
		}
		switch x := in.(type) {
		case *ssa.Select:
			st = PState{A: st.A & cRaw}
		case *ssa.UnOp:
			if x.Op == token.MUL {
				st.B |= curBit(x)
			}
		case *ssa.BinOp:
			if growth[x] {
				s.note("C09.L9-backoff-bounded", k.fname(in.Parent())+" backoffFactor growth", k.p.Pos(instrPos(in)), "factor grows only while current < max; current clamped to max",
					"the back-off factor keeps growing once the window has reached the maximum delay (the guard is not the strict current < max): after a few dozen Adds in one extended window initialDelay*factor overflows and the window collapses to zero/negative, so a long burst is signalled immediately and repeatedly", st.A&cBelow == 0)
			}
		case *ssa.Store:
			for _, ss := range k.stateStores(in) {
				if ss.field != k.fCur {
					continue
				}
				cl := 0
				if ss.multi {
					s.prob = append(s.prob, k.fCur+" is assigned through a struct value that is not a simple literal in "+k.fname(in.Parent()))
					cl = 1
				}
				if !ss.zero && !ss.multi {
					cl = k.clamped(pf, ss.val, x.Block(), 0, nil)
				}
				if ss.zero {
					cl = 1
				}
				st.B = 0
				st.A &^= cBelow
				switch cl {
				case 1:
					st.A &^= cRaw
				case 0:
					st.A |= cRaw
				} // 2: the value it already had: unchanged
			}
		case ssa.CallInstruction:
			if id, kind, ok := k.e.lockOp(x); ok && id == k.lockID {
				if kind == opUnlock && st.A&cRaw != 0 {
					s.note("C09.L9-backoff-bounded", k.fname(in.Parent())+" current window clamp", k.p.Pos(instrPos(in)), "", rawMsg, true)
				}
				st = PState{}
				break
			}
			if k.isTimerInvoke(pf, x, "Reset") || (x.Common().IsInvoke() && x.Common().Method != nil && x.Common().Method.Name() == "NewTimer") {
				for _, arg := range x.Common().Args {
					if t := k.term(pf, arg); t.kind == 2 && t.field == k.fCur {
						s.note("C09.L9-backoff-bounded", k.fname(in.Parent())+" current window clamp", k.p.Pos(instrPos(in)), "the window the timer is armed with is clamped to the maximum delay", rawMsg, st.A&cRaw != 0 && st.B&curBit(t.ld) != 0)
					}
				}
			}
		}
		return []PState{st}
	}
	pf.Edge = func(pf *PathFlow, from, to *ssa.BasicBlock, st PState) []PState {
		for _, f := range k.fc.edgeFacts(from, to, 0) {
			if !f.IsCmp {
				continue
			}
			tx, ty, op := k.term(pf, f.X), k.term(pf, f.Y), f.Op
			if tx.kind == 2 && tx.field == k.fMax && ty.kind == 2 && ty.field == k.fCur {
				tx, ty, op = ty, tx, c09Flip(op)
			}
			if !(tx.kind == 2 && tx.field == k.fCur && ty.kind == 2 && ty.field == k.fMax) || st.B&curBit(tx.ld) == 0 {
				continue
			}
			switch op {
			case token.LSS:
				st.A |= cBelow
				st.A &^= cRaw
			case token.LEQ, token.EQL:
				st.A &^= cBelow | cRaw
			default:
				st.A &^= cBelow
			}
		}
		return []PState{st}
	}
	pf.Run(k.run, []PState{{}})
	s.prob = append(s.prob, pf.Problems...)
	var gl []*ssa.BinOp
	for g := range growth {
		gl = append(gl, g)
	}
	sort.Slice(gl, func(i, j int) bool { return gl[i].Pos() < gl[j].Pos() })
	for _, g := range gl {
		if !pf.Visited[g] {
			k.r.Undecide("C09: the back-off growth in %s is not reached by the exploration of Run", k.fname(g.Parent()))
		}
	}
	s.flush()
	if len(growth) == 0 {
		// positively absent only if the factor is never assigned anything but constants
		nonConst := false
		for _, fn := range k.fns {
			if k.ctorOnly[fn] {
				continue
			}
			allInstrs(fn, func(in ssa.Instruction) {
				for _, ss := range k.stateStores(in) {
					if _, isConst := ss.val.(*ssa.Const); ss.field == k.fBackoff && !ss.zero && !isConst {
						nonConst = true
					}
				}
			})
		}
		if nonConst {
			k.r.Undecide("C09: how the back-off factor grows was not recognised")
		} else {
			k.r.Violation("C09.L9-backoff-bounded", k.tkey+" backoffFactor growth", "-", "the quiet window no longer grows while events keep arriving")
		}
	}
}

// growthOps: the multiplications/shifts/additions of the back-off factor's own
// value whose result is (possibly through helper results) stored back into it.
func (k *c09) growthOps() map[*ssa.BinOp]bool {
	out := map[*ssa.BinOp]bool{}
	if k.fBackoff == "" {
		return out
	}
	for _, fn := range k.fns {
		if k.ctorOnly[fn] {
			continue
		}
		allInstrs(fn, func(in ssa.Instruction) {
			for _, ss := range k.stateStores(in) {
				if ss.field != k.fBackoff || ss.zero {
					continue
				}
				for _, r := range k.rc.Roots(ss.val) {
					bo, ok := r.(*ssa.BinOp)
					if !ok || (bo.Op != token.MUL && bo.Op != token.SHL && bo.Op != token.ADD) {
						continue
					}
					for _, opnd := range []ssa.Value{bo.X, bo.Y} {
						for _, rr := range k.rc.Roots(opnd) {
							if f, _, ok := k.loadField(rr); ok && f == k.fBackoff {
								out[bo] = true
							}
						}
					}
				}
			}
		})
	}
	return out
}

// clamped classifies value v stored into the current window in block b:
// 1 = known <= the maximum delay, 2 = the value the field already holds
// (written back unchanged), 0 = not known. sub maps parameters of a helper
// whose result is being examined to the arguments of that call.
func (k *c09) clamped(pf *PathFlow, v ssa.Value, b *ssa.BasicBlock, depth int, sub map[*ssa.Parameter]ssa.Value) int {
	if depth > 6 {
		return 0
	}
	res := func(v ssa.Value) ssa.Value {
		for i := 0; i < 4; i++ {
			if pa, ok := v.(*ssa.Parameter); ok {
				if a, ok := sub[pa]; ok {
					v = a
					continue
				}
			}
			break
		}
		return v
	}
	v = res(v)
	if t := k.term(nil, v); t.kind == 2 {
		switch t.field {
		case k.fMax, k.fInit:
			return 1
		case k.fCur:
			return 2
		}
	}
	leMax := func(facts []PFact, v ssa.Value) bool {
		for _, f := range facts {
			if !f.IsCmp {
				continue
			}
			x, y, op := f.X, f.Y, f.Op
			if y == v {
				x, y, op = y, x, c09Flip(op)
			}
			if x != v {
				continue
			}
			if t := k.term(nil, res(y)); t.kind == 2 && t.field == k.fMax && (op == token.LEQ || op == token.LSS || op == token.EQL) {
				return true
			}
		}
		return false
	}
	if b != nil && leMax(k.fc.blockFacts(b, 0), v) {
		return 1
	}
	// all: every alternative is clamped (1) or unchanged (2); 2 if any is unchanged
	all := func(cls []int) int {
		if len(cls) == 0 {
			return 0
		}
		out := 1
		for _, c := range cls {
			if c == 0 {
				return 0
			}
			if c == 2 {
				out = 2
			}
		}
		return out
	}
	fromCall := func(call *ssa.Call, idx int) int {
		cal := staticCallee(call)
		if cal == nil || !k.follow(cal) || idx >= cal.Signature.Results().Len() {
			return 0
		}
		nsub := map[*ssa.Parameter]ssa.Value{}
		for pa, a := range sub {
			nsub[pa] = a
		}
		for i, pa := range cal.Params {
			if i < len(call.Call.Args) {
				nsub[pa] = res(call.Call.Args[i])
			}
		}
		var cls []int
		for _, blk := range cal.Blocks {
			if len(blk.Instrs) == 0 || (blk != cal.Blocks[0] && len(blk.Preds) == 0) {
				continue
			}
			if ret, ok := blk.Instrs[len(blk.Instrs)-1].(*ssa.Return); ok && idx < len(ret.Results) {
				rvs := unspill(ret.Results[idx])
				if u, ok := ret.Results[idx].(*ssa.UnOp); ok {
					if def := c09SlotDef(u); def != nil {
						rvs = []ssa.Value{def}
					}
				}
				for _, rv := range rvs {
					cls = append(cls, k.clamped(pf, rv, blk, depth+1, nsub))
				}
			}
		}
		return all(cls)
	}
	switch x := v.(type) {
	case *ssa.ChangeType:
		return k.clamped(pf, x.X, b, depth+1, sub)
	case *ssa.Phi:
		var cls []int
		for i, e := range x.Edges {
			pred := x.Block().Preds[i]
			c := k.clamped(pf, e, pred, depth+1, sub)
			if c == 0 && leMax(k.fc.edgeFacts(pred, x.Block(), 0), res(e)) {
				c = 1
			}
			cls = append(cls, c)
		}
		return all(cls)
	case *ssa.Extract:
		if call, ok := x.Tuple.(*ssa.Call); ok {
			return fromCall(call, x.Index)
		}
	case *ssa.Call:
		if builtinName(x) == "min" {
			for _, arg := range x.Call.Args {
				if k.clamped(pf, arg, b, depth+1, sub) == 1 {
					return 1
				}
			}
			return 0
		}
		return fromCall(x, 0)
	case *ssa.Parameter:
		if pf != nil {
			if r := pf.Resolve(v); r != v {
				return k.clamped(pf, r, nil, depth+1, sub)
			}
		}
	case *ssa.UnOp:
		if x.Op == token.MUL {
			if a, ok := x.X.(*ssa.Alloc); ok {
				if def := c09SlotDef(x); def != nil {
					return k.clamped(pf, def, nil, depth+1, sub)
				}
				// a local variable: every store into it is clamped
				var cls []int
				for _, r := range refs(a) {
					if st, ok := r.(*ssa.Store); ok && st.Addr == ssa.Value(a) {
						cls = append(cls, k.clamped(pf, st.Val, st.Block(), depth+1, sub))
					}
				}
				return all(cls)
			}
		}
	}
	return 0
}

// ---------------------------------------------------------------- L11

// runContext: the context every signalling goroutine waits on is derived in
// Run (context.WithCancel & co.), never the caller's, and Run cancels it on
// every return.
func (k *c09) runContext() {
	r, p := k.r, k.p
	isDerive := func(call *ssa.Call) bool {
		obj := calleeObj(call)
		if obj == nil || obj.Pkg() == nil || obj.Pkg().Path() != "context" {
			return false
		}
		switch obj.Name() {
		case "WithCancel", "WithTimeout", "WithDeadline", "WithCancelCause":
			return true
		}
		return false
	}
	derives := map[*ssa.Call]bool{}
	WalkCalls(k.flow(), k.run, false, func(pf *PathFlow, in ssa.Instruction) {
		if call, ok := in.(*ssa.Call); ok && isDerive(call) {
			derives[call] = true
		}
	})
	if len(derives) == 0 {
		r.Violation("C09.L11-run-context", k.fname(k.run)+" derived context", p.Pos(k.run.Pos()), "Run no longer derives a cancellable context: Close cannot release signalling goroutines blocked on a slow consumer")
		return
	}
	// (a) the signalling selects
	nSend := 0
	for _, fn := range k.fns {
		if k.ctorOnly[fn] {
			continue
		}
		allInstrs(fn, func(in ssa.Instruction) {
			ev := false
			for _, ch := range c09SendChans(in) {
				if k.isEventChan(nil, ch) {
					ev = true
				}
			}
			if !ev {
				return
			}
			nSend++
			construct := k.fname(fn) + " signal waits on derived context"
			badMsg := "the signalling goroutine waits on a context other than the one Run derives and cancels when the limiter is closed: a signalling goroutine blocked on a slow consumer is never released, so Close (which waits for all helper goroutines) never returns"
			sel, isSel := in.(*ssa.Select)
			var ctxs []ssa.Value
			if isSel {
				for _, st := range sel.States {
					if st.Dir != types.RecvOnly {
						continue
					}
					for _, root := range k.rc.Roots(st.Chan) {
						if call, ok := root.(*ssa.Call); ok && call.Call.IsInvoke() && call.Call.Method != nil && call.Call.Method.Name() == "Done" {
							ctxs = append(ctxs, call.Call.Value)
						}
					}
				}
			}
			if len(ctxs) == 0 {
				r.Violation("C09.L11-run-context", construct, p.Pos(instrPos(in)), "the signal is sent without a context case: a signalling goroutine blocked on a slow consumer is never released, so Close (which waits for all helper goroutines) never returns")
				return
			}
			okAny, bad, unknown := false, "", ""
			for _, cv := range ctxs {
				allDerived := true
				for _, root := range k.rc.Roots(cv) {
					ex, isEx := root.(*ssa.Extract)
					if isEx && ex.Index == 0 {
						if call, ok := ex.Tuple.(*ssa.Call); ok && derives[call] {
							continue
						}
					}
					allDerived = false
					if pa, ok := root.(*ssa.Parameter); ok && pa.Parent() == k.run {
						bad = "the caller's context (parameter " + pa.Name() + " of Run) reaches the select"
					} else {
						unknown = root.String() + " in " + k.fname(fn)
					}
				}
				if allDerived {
					okAny = true
				}
			}
			switch {
			case okAny:
				r.OK("C09.L11-run-context", construct, p.Pos(instrPos(in)), "the signal send is abandoned when the context derived in Run is cancelled")
			case bad != "":
				r.Violation("C09.L11-run-context", construct, p.Pos(instrPos(in)), badMsg, bad)
			default:
				r.Undecide("C09.L11: cannot trace the context of the signalling select to Run (%s)", unknown)
			}
		})
	}
	if nSend == 0 {
		r.Undecide("C09.L11: no send on the event channel found")
	}
	// (b) Run cancels the derived context on every return
	const (
		eDerived uint64 = 1 << iota
		eCancelled
	)
	isCancel := func(pf *PathFlow, ci ssa.CallInstruction) bool {
		if ci.Common().IsInvoke() {
			return false
		}
		for _, root := range pf.Roots(k.rc, ci.Common().Value) {
			if ex, ok := root.(*ssa.Extract); ok && ex.Index == 1 {
				if call, ok := ex.Tuple.(*ssa.Call); ok && derives[call] {
					return true
				}
			}
		}
		return false
	}
	okCancel, nRet := true, 0
	pf := k.flow()
	pf.Instr = func(pf *PathFlow, in ssa.Instruction, replay bool, st PState) []PState {
		if _, isDefer := in.(*ssa.Defer); isDefer && !replay {
			return []PState{st}
		}
		if call, ok := in.(*ssa.Call); ok && derives[call] {
			st.A |= eDerived
		}
		if ci, ok := in.(ssa.CallInstruction); ok && st.A&eDerived != 0 && isCancel(pf, ci) {
			st.A |= eCancelled
		}
		return []PState{st}
	}
	pf.Return = func(pf *PathFlow, ret *ssa.Return, st PState) {
		if st.A&eDerived != 0 {
			nRet++
			if st.A&eCancelled == 0 {
				okCancel = false
			}
		}
	}
	pf.Run(k.run, []PState{{}})
	for _, pr := range pf.Problems {
		r.Undecide("C09 exploration: %s", pr)
	}
	if nRet == 0 {
		r.Undecide("C09.L11: no return of Run after the context derivation was explored")
	}
	r.Check(okCancel, "C09.L11-run-context", k.fname(k.run)+" cancels the derived context", p.Pos(k.run.Pos()), "Run cancels the context it derived on every return (so closing the limiter releases blocked signalling goroutines)",
		"Run can return (e.g. when the limiter is closed) without cancelling the context its signalling goroutines wait on: a goroutine blocked on a slow consumer is never released, so Close never returns")
}
