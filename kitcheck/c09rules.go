package main

// C09: timer re-arm (L8), bounded back-off (L9) and run-context (L11) rules,
// each a path-sensitive exploration of Run with callees followed.

import (
	"go/token"
	"go/types"
	"sort"

	"golang.org/x/tools/go/ssa"
)

type c09Sites struct {
	k    *c09
	find map[string]*c09Finding
	prob []string
}

func (s *c09Sites) note(rule, construct, pos, okMsg, badMsg string, bad bool) {
	key := rule + "|" + construct
	f := s.find[key]
	if f == nil {
		f = &c09Finding{rule: rule, construct: construct, pos: pos, msg: okMsg}
		s.find[key] = f
	}
	if bad && !f.bad {
		f.bad, f.msg, f.pos = true, badMsg, pos
	}
}

func (s *c09Sites) flush() int {
	var keys []string
	for k := range s.find {
		keys = append(keys, k)
	}
	sort.Strings(keys)
	for _, key := range keys {
		f := s.find[key]
		s.k.r.Check(!f.bad, f.rule, f.construct, f.pos, f.msg, f.msg)
	}
	for _, p := range s.prob {
		s.k.r.Undecide("C09 exploration: %s", p)
	}
	return len(keys)
}

// ---------------------------------------------------------------- L8

// timerRearm: every timer.Reset is reached only with the timer stopped: Stop
// returned true, or it returned false and the timer channel was received from.
func (k *c09) timerRearm() {
	const (
		dCalled    uint64 = 1 << iota // Stop called, result not yet tested
		dSafe                         // stopped, or fired and drained
		dNeedDrain                    // Stop reported false
	)
	s := &c09Sites{k: k, find: map[string]*c09Finding{}}
	isRecv := func(pf *PathFlow, in ssa.Instruction) (timer, loop bool) {
		switch x := in.(type) {
		case *ssa.UnOp:
			if x.Op == token.ARROW && k.isTimerChan(pf, x.X) {
				return true, false
			}
		case *ssa.Select:
			for _, st := range x.States {
				if st.Dir != types.RecvOnly {
					continue
				}
				if k.isFieldChan(pf, st.Chan, k.fInput) {
					loop = true
				} else if k.isTimerChan(pf, st.Chan) {
					timer = true
				}
			}
		}
		return
	}
	pf := &PathFlow{Follow: k.follow, Facts: k.fc}
	pf.Instr = func(pf *PathFlow, in ssa.Instruction, replay bool, st PState) []PState {
		if _, isDefer := in.(*ssa.Defer); isDefer && !replay {
			return []PState{st}
		}
		if timer, loop := isRecv(pf, in); timer || loop {
			if loop {
				st.A = 0 // a new iteration: the timer may have fired since
			} else if st.A&dNeedDrain != 0 {
				st.A = dSafe
			}
			return []PState{st}
		}
		switch x := in.(type) {
		case *ssa.Store:
			if f, ok := k.addrField(x.Addr); ok && f == k.fTimer {
				st.A = 0
			}
		case ssa.CallInstruction:
			switch {
			case k.isTimerInvoke(pf, x, "Stop"):
				st.A = dCalled
			case k.isTimerInvoke(pf, x, "Reset"):
				s.note("C09.L8-timer-rearm", k.fname(in.Parent())+" timer.Reset", k.p.Pos(instrPos(in)), "Stop, drain-if-fired, then Reset",
					"the window timer is re-armed without stopping it and draining its channel when it had already fired: a stale expiry left in the channel closes the freshly extended window at once, so a burst inside one window yields several signals and the back-off restarts", st.A&dSafe == 0)
				st.A = 0
			}
		}
		return []PState{st}
	}
	pf.Edge = func(pf *PathFlow, from, to *ssa.BasicBlock, st PState) []PState {
		for _, f := range k.fc.edgeFacts(from, to, 0) {
			if f.IsCmp {
				continue
			}
			if call, ok := f.V.(*ssa.Call); ok && k.isTimerInvoke(nil, call, "Stop") && st.A&dCalled != 0 {
				if f.Truth {
					st.A = dSafe
				} else {
					st.A = dNeedDrain
				}
			}
		}
		return []PState{st}
	}
	pf.Run(k.run, []PState{{}})
	s.prob = pf.Problems
	// every Reset of the window timer must have been explored
	n := 0
	for _, fn := range k.fns {
		if k.ctorOnly[fn] {
			continue
		}
		allInstrs(fn, func(in ssa.Instruction) {
			if ci, ok := in.(ssa.CallInstruction); ok && k.isTimerInvoke(nil, ci, "Reset") {
				n++
				if !pf.Visited[in] {
					k.r.Undecide("C09: timer.Reset in %s is not reached by the exploration of Run", k.fname(fn))
				}
			}
		})
	}
	s.flush()
	if n == 0 {
		k.r.Violation("C09.L8-timer-rearm", k.tkey+" timer.Reset", "-", "the window timer is never re-armed: later Adds do not extend the quiet window")
	}
}

// ---------------------------------------------------------------- L9

func (k *c09) backoffBounded() {
	if k.fBackoff == "" {
		k.r.Violation("C09.L9-backoff-bounded", k.tkey+" backoffFactor growth", "-", "no integer field of the limiter is multiplied by the run loop: the quiet window no longer grows while events keep arriving")
		return
	}
	const (
		cBelow uint64 = 1 << iota // current < max known for the current value
		cRaw                      // current holds a value not known to be <= max
	)
	s := &c09Sites{k: k, find: map[string]*c09Finding{}}
	loads := map[*ssa.UnOp]int{}
	var growth []ssa.Instruction
	for _, fn := range k.fns {
		if k.ctorOnly[fn] {
			continue
		}
		allInstrs(fn, func(in ssa.Instruction) {
			switch x := in.(type) {
			case *ssa.UnOp:
				if x.Op == token.MUL {
					if f, ok := k.addrField(x.X); ok && f == k.fCur {
						loads[x] = len(loads)
					}
				}
			case *ssa.Store:
				if f, ok := k.addrField(x.Addr); ok && f == k.fBackoff && k.isGrowthOf(x.Val, k.fBackoff) {
					growth = append(growth, in)
				}
			}
		})
	}
	if len(loads) > 60 {
		undecided("C09: too many reads of the current window length")
	}
	curBit := func(ld *ssa.UnOp) uint64 {
		if i, ok := loads[ld]; ok {
			return 1 << uint(i)
		}
		return 0
	}
	rawMsg := "the current window length is not clamped to the maximum delay before it is used / the lock is released: the window can exceed MaxDelay"
	pf := &PathFlow{Follow: k.follow, Facts: k.fc}
	pf.Instr = func(pf *PathFlow, in ssa.Instruction, replay bool, st PState) []PState {
		if _, isDefer := in.(*ssa.Defer); isDefer && !replay {
			return []PState{st}
		}
		switch x := in.(type) {
		case *ssa.Select:
			st = PState{A: st.A & cRaw}
		case *ssa.UnOp:
			if x.Op == token.MUL {
				st.B |= curBit(x)
			}
		case *ssa.Store:
			f, ok := k.addrField(x.Addr)
			if !ok {
				break
			}
			switch f {
			case k.fCur:
				st.B = 0
				st.A &^= cBelow | cRaw
				if !k.clamped(pf, x.Val, x.Block(), 0) {
					st.A |= cRaw
				}
			case k.fBackoff:
				if _, isConst := x.Val.(*ssa.Const); isConst {
					break
				}
				construct := k.fname(in.Parent()) + " backoffFactor growth"
				if k.isGrowthOf(x.Val, k.fBackoff) {
					s.note("C09.L9-backoff-bounded", construct, k.p.Pos(instrPos(in)), "factor grows only while current < max; current clamped to max",
						"the back-off factor keeps growing once the window has reached the maximum delay (the guard is not the strict current < max): after a few dozen Adds in one extended window initialDelay*factor overflows and the window collapses to zero/negative, so a long burst is signalled immediately and repeatedly", st.A&cBelow == 0)
				} else if st.A&cBelow == 0 {
					s.prob = append(s.prob, "store to the back-off factor of an unrecognised shape in "+k.fname(in.Parent()))
				}
			}
		case ssa.CallInstruction:
			if id, kind, ok := k.e.lockOp(x); ok && id == k.lockID {
				if kind == opUnlock && st.A&cRaw != 0 {
					s.note("C09.L9-backoff-bounded", k.fname(in.Parent())+" current window clamp", k.p.Pos(instrPos(in)), "", rawMsg, true)
				}
				st = PState{}
				break
			}
			if k.isTimerInvoke(pf, x, "Reset") || (x.Common().IsInvoke() && x.Common().Method != nil && x.Common().Method.Name() == "NewTimer") {
				for _, arg := range x.Common().Args {
					if t := k.term(pf, arg); t.kind == 2 && t.field == k.fCur {
						s.note("C09.L9-backoff-bounded", k.fname(in.Parent())+" current window clamp", k.p.Pos(instrPos(in)), "the window the timer is armed with is clamped to the maximum delay", rawMsg, st.A&cRaw != 0 && st.B&curBit(t.ld) != 0)
					}
				}
			}
		}
		return []PState{st}
	}
	pf.Edge = func(pf *PathFlow, from, to *ssa.BasicBlock, st PState) []PState {
		for _, f := range k.fc.edgeFacts(from, to, 0) {
			if !f.IsCmp {
				continue
			}
			tx, ty, op := k.term(pf, f.X), k.term(pf, f.Y), f.Op
			if tx.kind == 2 && tx.field == k.fMax && ty.kind == 2 && ty.field == k.fCur {
				tx, ty, op = ty, tx, c09Flip(op)
			}
			if !(tx.kind == 2 && tx.field == k.fCur && ty.kind == 2 && ty.field == k.fMax) || st.B&curBit(tx.ld) == 0 {
				continue
			}
			switch op {
			case token.LSS:
				st.A |= cBelow
				st.A &^= cRaw
			case token.LEQ, token.EQL:
				st.A &^= cBelow | cRaw
			default:
				st.A &^= cBelow
			}
		}
		return []PState{st}
	}
	pf.Run(k.run, []PState{{}})
	s.prob = append(s.prob, pf.Problems...)
	for _, g := range growth {
		if !pf.Visited[g] {
			k.r.Undecide("C09: the back-off growth in %s is not reached by the exploration of Run", k.fname(g.Parent()))
		}
	}
	s.flush()
	if len(growth) == 0 {
		k.r.Violation("C09.L9-backoff-bounded", k.tkey+" backoffFactor growth", "-", "the quiet window no longer grows while events keep arriving")
	}
}

// clamped: value v is known to be <= the maximum delay when stored in block b.
func (k *c09) clamped(pf *PathFlow, v ssa.Value, b *ssa.BasicBlock, depth int) bool {
	if depth > 6 {
		return false
	}
	if t := k.term(nil, v); t.kind == 2 && (t.field == k.fMax || t.field == k.fInit) {
		return true
	}
	leMax := func(facts []PFact, v ssa.Value) bool {
		for _, f := range facts {
			if !f.IsCmp {
				continue
			}
			x, y, op := f.X, f.Y, f.Op
			if y == v {
				x, y, op = y, x, c09Flip(op)
			}
			if x != v {
				continue
			}
			if t := k.term(nil, y); t.kind == 2 && t.field == k.fMax && (op == token.LEQ || op == token.LSS || op == token.EQL) {
				return true
			}
		}
		return false
	}
	if b != nil && leMax(k.fc.blockFacts(b, 0), v) {
		return true
	}
	switch x := v.(type) {
	case *ssa.ChangeType:
		return k.clamped(pf, x.X, b, depth+1)
	case *ssa.Phi:
		for i, e := range x.Edges {
			pred := x.Block().Preds[i]
			if k.clamped(pf, e, pred, depth+1) {
				continue
			}
			if leMax(k.fc.edgeFacts(pred, x.Block(), 0), e) {
				continue
			}
			return false
		}
		return len(x.Edges) > 0
	case *ssa.Call:
		if builtinName(x) == "min" {
			for _, arg := range x.Call.Args {
				if k.clamped(pf, arg, b, depth+1) {
					return true
				}
			}
			return false
		}
		if cal := staticCallee(x); cal != nil && k.follow(cal) && cal.Signature.Results().Len() == 1 {
			n := 0
			for _, blk := range cal.Blocks {
				if len(blk.Instrs) == 0 || (blk != cal.Blocks[0] && len(blk.Preds) == 0) {
					continue
				}
				if ret, ok := blk.Instrs[len(blk.Instrs)-1].(*ssa.Return); ok && len(ret.Results) == 1 {
					for _, rv := range unspill(ret.Results[0]) {
						n++
						if !k.clamped(pf, rv, blk, depth+1) {
							return false
						}
					}
				}
			}
			return n > 0
		}
	case *ssa.Parameter:
		if pf != nil {
			if r := pf.Resolve(v); r != v {
				return k.clamped(pf, r, nil, depth+1)
			}
		}
	case *ssa.UnOp:
		if x.Op == token.MUL {
			if a, ok := x.X.(*ssa.Alloc); ok {
				// a local variable: every store into it is clamped
				n := 0
				for _, r := range refs(a) {
					if st, ok := r.(*ssa.Store); ok && st.Addr == ssa.Value(a) {
						n++
						if !k.clamped(pf, st.Val, st.Block(), depth+1) {
							return false
						}
					}
				}
				return n > 0
			}
		}
	}
	return false
}

// ---------------------------------------------------------------- L11

// runContext: the context every signalling goroutine waits on is derived in
// Run (context.WithCancel & co.), never the caller's, and Run cancels it on
// every return.
func (k *c09) runContext() {
	r, p := k.r, k.p
	isDerive := func(call *ssa.Call) bool {
		obj := calleeObj(call)
		if obj == nil || obj.Pkg() == nil || obj.Pkg().Path() != "context" {
			return false
		}
		switch obj.Name() {
		case "WithCancel", "WithTimeout", "WithDeadline", "WithCancelCause":
			return true
		}
		return false
	}
	derives := map[*ssa.Call]bool{}
	WalkCalls(k.run, nil, nil, k.follow, false, func(pf *PathFlow, in ssa.Instruction) {
		if call, ok := in.(*ssa.Call); ok && isDerive(call) {
			derives[call] = true
		}
	})
	if len(derives) == 0 {
		r.Violation("C09.L11-run-context", k.fname(k.run)+" derived context", p.Pos(k.run.Pos()), "Run no longer derives a cancellable context: Close cannot release signalling goroutines blocked on a slow consumer")
		return
	}
	// (a) the signalling selects
	nSend := 0
	for _, fn := range k.fns {
		if k.ctorOnly[fn] {
			continue
		}
		allInstrs(fn, func(in ssa.Instruction) {
			ev := false
			for _, ch := range c09SendChans(in) {
				if k.isEventChan(nil, ch) {
					ev = true
				}
			}
			if !ev {
				return
			}
			nSend++
			construct := k.fname(fn) + " signal waits on derived context"
			badMsg := "the signalling goroutine waits on a context other than the one Run derives and cancels when the limiter is closed: a signalling goroutine blocked on a slow consumer is never released, so Close (which waits for all helper goroutines) never returns"
			sel, isSel := in.(*ssa.Select)
			var ctxs []ssa.Value
			if isSel {
				for _, st := range sel.States {
					if st.Dir != types.RecvOnly {
						continue
					}
					for _, root := range k.rc.Roots(st.Chan) {
						if call, ok := root.(*ssa.Call); ok && call.Call.IsInvoke() && call.Call.Method != nil && call.Call.Method.Name() == "Done" {
							ctxs = append(ctxs, call.Call.Value)
						}
					}
				}
			}
			if len(ctxs) == 0 {
				r.Violation("C09.L11-run-context", construct, p.Pos(instrPos(in)), "the signal is sent without a context case: a signalling goroutine blocked on a slow consumer is never released, so Close (which waits for all helper goroutines) never returns")
				return
			}
			okAny, bad, unknown := false, "", ""
			for _, cv := range ctxs {
				allDerived := true
				for _, root := range k.rc.Roots(cv) {
					ex, isEx := root.(*ssa.Extract)
					if isEx && ex.Index == 0 {
						if call, ok := ex.Tuple.(*ssa.Call); ok && derives[call] {
							continue
						}
					}
					allDerived = false
					if pa, ok := root.(*ssa.Parameter); ok && pa.Parent() == k.run {
						bad = "the caller's context (parameter " + pa.Name() + " of Run) reaches the select"
					} else {
						unknown = root.String() + " in " + k.fname(fn)
					}
				}
				if allDerived {
					okAny = true
				}
			}
			switch {
			case okAny:
				r.OK("C09.L11-run-context", construct, p.Pos(instrPos(in)), "the signal send is abandoned when the context derived in Run is cancelled")
			case bad != "":
				r.Violation("C09.L11-run-context", construct, p.Pos(instrPos(in)), badMsg, bad)
			default:
				r.Undecide("C09.L11: cannot trace the context of the signalling select to Run (%s)", unknown)
			}
		})
	}
	if nSend == 0 {
		r.Undecide("C09.L11: no send on the event channel found")
	}
	// (b) Run cancels the derived context on every return
	const (
		eDerived uint64 = 1 << iota
		eCancelled
	)
	isCancel := func(pf *PathFlow, ci ssa.CallInstruction) bool {
		if ci.Common().IsInvoke() {
			return false
		}
		for _, root := range pf.Roots(k.rc, ci.Common().Value) {
			if ex, ok := root.(*ssa.Extract); ok && ex.Index == 1 {
				if call, ok := ex.Tuple.(*ssa.Call); ok && derives[call] {
					return true
				}
			}
		}
		return false
	}
	okCancel, nRet := true, 0
	pf := &PathFlow{Follow: k.follow, Facts: k.fc}
	pf.Instr = func(pf *PathFlow, in ssa.Instruction, replay bool, st PState) []PState {
		if _, isDefer := in.(*ssa.Defer); isDefer && !replay {
			return []PState{st}
		}
		if call, ok := in.(*ssa.Call); ok && derives[call] {
			st.A |= eDerived
		}
		if ci, ok := in.(ssa.CallInstruction); ok && st.A&eDerived != 0 && isCancel(pf, ci) {
			st.A |= eCancelled
		}
		return []PState{st}
	}
	pf.Return = func(pf *PathFlow, ret *ssa.Return, st PState) {
		if st.A&eDerived != 0 {
			nRet++
			if st.A&eCancelled == 0 {
				okCancel = false
			}
		}
	}
	pf.Run(k.run, []PState{{}})
	for _, pr := range pf.Problems {
		r.Undecide("C09 exploration: %s", pr)
	}
	if nRet == 0 {
		r.Undecide("C09.L11: no return of Run after the context derivation was explored")
	}
	r.Check(okCancel, "C09.L11-run-context", k.fname(k.run)+" cancels the derived context", p.Pos(k.run.Pos()), "Run cancels the context it derived on every return (so closing the limiter releases blocked signalling goroutines)",
		"Run can return (e.g. when the limiter is closed) without cancelling the context its signalling goroutines wait on: a goroutine blocked on a slow consumer is never released, so Close never returns")
}
