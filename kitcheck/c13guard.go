package main

// C13.G — guarded-by, decided by the lockset engine (E1) and, where the
// engine cannot attribute a lock to an access (a closure run by a
// `withLock(func(){...})` style helper, a lock taken through a function
// value), by the path explorer, which follows function values.

import (
	"fmt"
	"go/token"
	"sort"

	"golang.org/x/tools/go/ssa"
)

func c13CheckGuards(c *Ctx, ro *c13Roles, rule string, specs []GuardSpec) {
	r, p, e := c.R, c.P, c.Locks()
	byField := map[FieldID]*GuardSpec{}
	for i := range specs {
		byField[specs[i].Field] = &specs[i]
	}
	type accInfo struct {
		a    Access
		need Mode
		held Mode
	}
	perFn := map[*ssa.Function][]*accInfo{}
	byInstr := map[ssa.Instruction][]*accInfo{}
	var fns []*ssa.Function
	needExplorer := false
	// a guarded field that holds a reference (the map itself) and is never
	// assigned after construction can be loaded without the lock: only the
	// contents it refers to are shared mutable state
	reassigned := map[FieldID]bool{}
	for _, fn := range p.Funcs {
		for _, a := range FieldAccesses(fn, func(id FieldID) bool { return byField[id] != nil }) {
			if !a.Fresh && a.Kind == AccWrite && a.What == "store" {
				reassigned[a.ID] = true
			}
		}
	}
	for _, fn := range p.Funcs {
		accs := FieldAccesses(fn, func(id FieldID) bool { return byField[id] != nil })
		for _, a := range accs {
			if a.Fresh || !e.Reachable(a.Instr) {
				continue
			}
			if a.Header && a.Kind == AccRead && !reassigned[a.ID] {
				continue
			}
			need := ModeR
			if a.Kind == AccWrite {
				need = ModeW
			}
			ai := &accInfo{a: a, need: need, held: e.At(a.Instr)[byField[a.ID].Lock]}
			if ai.held < need {
				needExplorer = true
			}
			if len(perFn[fn]) == 0 {
				fns = append(fns, fn)
			}
			perFn[fn] = append(perFn[fn], ai)
			byInstr[a.Instr] = append(byInstr[a.Instr], ai)
		}
	}
	// explorer pass (only when the engine left something unproven)
	xmode := map[*accInfo]Mode{}
	xseen := map[*accInfo]bool{}
	extra := map[ssa.Instruction]*accInfo{} // accesses only the explorer sees (through captured aliases of the table)
	_ = needExplorer
	{
		locks := []FieldID{}
		idx := map[string]int{}
		for _, s := range specs {
			if _, ok := idx[s.Lock]; !ok {
				idx[s.Lock] = len(locks)
				f := FieldID{}
				for _, cand := range []FieldID{ro.fmapLock, ro.cmLock, ro.ocGuard} {
					if c13LockID(cand) == s.Lock {
						f = cand
					}
				}
				locks = append(locks, f)
			}
		}
		modeOf := func(st uint64, lock string) Mode {
			li := idx[lock]
			if st&(1<<(2*uint(li))) != 0 {
				return ModeW
			} else if st&(2<<(2*uint(li))) != 0 {
				return ModeR
			}
			return ModeNone
		}
		// tableOp: in operates on a map that, on this path, is the value of a guarded field
		tableOp := func(x *C13Ctx, in ssa.Instruction) (FieldID, AccessKind, string, bool) {
			var operand ssa.Value
			kind, what := AccRead, ""
			switch v := in.(type) {
			case *ssa.Lookup:
				operand, what = v.X, "map lookup"
			case *ssa.MapUpdate:
				operand, kind, what = v.Map, AccWrite, "map update"
			case *ssa.Range:
				operand, what = v.X, "range"
			case ssa.CallInstruction:
				if _, isGo := in.(*ssa.Go); isGo {
					return FieldID{}, 0, "", false
				}
				switch b := builtinName(v); b {
				case "delete", "clear":
					if len(v.Common().Args) > 0 {
						operand, kind, what = v.Common().Args[0], AccWrite, b
					}
				case "len":
					if len(v.Common().Args) > 0 {
						operand, what = v.Common().Args[0], b
					}
				}
			}
			if operand == nil {
				return FieldID{}, 0, "", false
			}
			id, ok := c13FieldOf(x, operand)
			if !ok || byField[id] == nil {
				return FieldID{}, 0, "", false
			}
			return id, kind, what, true
		}
		hooks := &C13Hooks{
			Instr: func(x *C13Ctx, in ssa.Instruction, st uint64) uint64 {
				if len(byInstr[in]) == 0 {
					if id, kind, what, ok := tableOp(x, in); ok {
						ai := extra[in]
						if ai == nil {
							need := ModeR
							if kind == AccWrite {
								need = ModeW
							}
							ai = &accInfo{a: Access{Fn: in.Parent(), Instr: in, ID: id, Kind: kind, What: what + " (through an alias of the table)"}, need: need}
							extra[in] = ai
						}
						m := modeOf(st, byField[id].Lock)
						if !xseen[ai] || m < xmode[ai] {
							xmode[ai] = m
						}
						xseen[ai] = true
					}
				}
				for _, ai := range byInstr[in] {
					li := idx[byField[ai.a.ID].Lock]
					m := ModeNone
					if st&(1<<(2*uint(li))) != 0 {
						m = ModeW
					} else if st&(2<<(2*uint(li))) != 0 {
						m = ModeR
					}
					if !xseen[ai] || m < xmode[ai] {
						xmode[ai] = m
					}
					xseen[ai] = true
				}
				ci, ok := in.(ssa.CallInstruction)
				if !ok {
					return st
				}
				if _, isGo := in.(*ssa.Go); isGo {
					return st
				}
				if kind, recv, ok := c13LockCallX(ro, x, ci); ok {
					for li, lf := range locks {
						if lf.Field == "" || !c13LockIs(x, recv, lf) {
							continue
						}
						w, rd := uint64(1)<<(2*uint(li)), uint64(2)<<(2*uint(li))
						switch kind {
						case opLock:
							st |= w
						case opRLock:
							st |= rd
						case opUnlock:
							st &^= w
						case opRUnlock:
							st &^= rd
						}
					}
				}
				return st
			},
			RangeFunc: func(x *C13Ctx, call ssa.CallInstruction, ctor *ssa.Call, yield *ssa.Function, st uint64) uint64 {
				// the iteration itself (not the construction of the iterator) reads the table
				for _, a := range ctor.Call.Args {
					id, ok := c13FieldOf(x, a)
					if !ok || byField[id] == nil {
						continue
					}
					ai := extra[call]
					if ai == nil {
						ai = &accInfo{a: Access{Fn: call.Parent(), Instr: call, ID: id, Kind: AccRead, What: "iteration through " + callDesc(ctor)}, need: ModeR}
						extra[call] = ai
					}
					m := modeOf(st, byField[id].Lock)
					if !xseen[ai] || m < xmode[ai] {
						xmode[ai] = m
					}
					xseen[ai] = true
				}
				return st
			},
			Opaque: func(fn *ssa.Function) bool {
				return fn.Signature.Recv() != nil && ro.isLockType(fn.Signature.Recv().Type())
			},
		}
		pkgs := map[string]bool{}
		for _, fn := range fns {
			pkgs[c13PkgPathOf(fn)] = true
		}
		for _, fn := range p.Funcs {
			if !pkgs[c13PkgPathOf(fn)] || len(fn.Blocks) == 0 {
				continue
			}
			if c13IsEntry(p, e, fn) {
				ex := NewC13Explorer(p)
				ex.Explore(fn, 0, hooks)
			}
		}
	}
	// accesses found only by the explorer join their function's obligations
	var extraList []*accInfo
	for _, ai := range extra {
		extraList = append(extraList, ai)
	}
	sort.Slice(extraList, func(i, j int) bool {
		a, b := extraList[i], extraList[j]
		if fa, fb := FuncName(p, a.a.Fn), FuncName(p, b.a.Fn); fa != fb {
			return fa < fb
		}
		return instrPos(a.a.Instr) < instrPos(b.a.Instr)
	})
	for _, ai := range extraList {
		fn := origin(ai.a.Fn)
		if len(perFn[fn]) == 0 {
			fns = append(fns, fn)
		}
		perFn[fn] = append(perFn[fn], ai)
	}
	sort.SliceStable(fns, func(i, j int) bool { return FuncName(p, fns[i]) < FuncName(p, fns[j]) })
	perField := map[FieldID]int{}
	for _, fn := range fns {
		fname := FuncName(p, fn)
		type agg struct {
			n   int
			bad []string
			pos token.Pos
			via int
		}
		per := map[FieldID]*agg{}
		for _, ai := range perFn[fn] {
			g := per[ai.a.ID]
			if g == nil {
				g = &agg{}
				per[ai.a.ID] = g
			}
			g.n++
			perField[ai.a.ID]++
			held := ai.held
			if held < ai.need && xseen[ai] && xmode[ai] >= ai.need {
				held = xmode[ai]
				g.via++
			}
			if held < ai.need {
				if !g.pos.IsValid() {
					g.pos = instrPos(ai.a.Instr)
				}
				spec := byField[ai.a.ID]
				g.bad = append(g.bad, fmt.Sprintf("%s (%s) at %s needs %s(%s), holds %s", ai.a.Kind, ai.a.What, p.Pos(instrPos(ai.a.Instr)), shortID(spec.Lock), ai.need, held))
			}
		}
		var ids []FieldID
		for id := range per {
			ids = append(ids, id)
		}
		sort.Slice(ids, func(i, j int) bool { return ids[i].String() < ids[j].String() })
		for _, id := range ids {
			g := per[id]
			construct := fname + " -> " + id.String()
			if len(g.bad) > 0 {
				r.Violation(rule, construct, p.Pos(g.pos), fmt.Sprintf("%d of %d accesses to %s are not protected by %s", len(g.bad), g.n, id, shortID(byField[id].Lock)), g.bad...)
			} else {
				msg := fmt.Sprintf("%d accesses under %s", g.n, shortID(byField[id].Lock))
				if g.via > 0 {
					msg += fmt.Sprintf(" (%d established by following the function values that run this code)", g.via)
				}
				r.OK(rule, construct, p.Pos(fn.Pos()), msg)
			}
		}
	}
	for _, s := range specs {
		if perField[s.Field] == 0 {
			r.Undecide("guarded field %s has no access in the loaded program (anchor moved?)", s.Field)
		}
	}
}

// c13IsEntry: fn can start executing with no lock held by its goroutine as far
// as the module can tell: exported, started by `go`, or a function value that
// escapes (stored, returned, sent) rather than only being called, deferred or
// handed as an argument to a module function that runs it.
func c13IsEntry(p *Prog, e *LockEngine, fn *ssa.Function) bool {
	if fn.Parent() == nil {
		if isExportedFunc(fn) || fn.Name() == "init" {
			return true
		}
	}
	if fn.Synthetic == "range-over-func yield" {
		return false // the body of a range-over-func loop runs where the loop stands
	}
	entry := false
	var check func(user ssa.Instruction, v ssa.Value)
	check = func(user ssa.Instruction, v ssa.Value) {
		switch u := user.(type) {
		case *ssa.Go:
			if u.Call.Value == v {
				entry = true
				return
			}
			entry = true // handed to a new goroutine
		case *ssa.Call:
			if u.Call.Value == v {
				return // called here: runs in the caller's context
			}
			if cal := staticCallee(u); cal != nil && (p.InModule(cal) || funcIs(c13ObjOf(cal), "sync", "Once", "Do")) {
				return // argument of a module function / of once.Do (followed: runs in the caller's context)
			}
			entry = true
		case *ssa.Defer:
			if u.Call.Value == v {
				return
			}
			if cal := staticCallee(u); cal != nil && (p.InModule(cal) || funcIs(c13ObjOf(cal), "sync", "Once", "Do")) {
				return
			}
			entry = true
		case *ssa.Store:
			// kept in a local variable: what matters is how the variable is used
			if cell, ok := u.Addr.(*ssa.Alloc); ok && u.Val == v && c13CellOnlyCalled(p, cell, 0) {
				return
			}
			// an element of a local literal table (array / slice of steps) whose
			// elements are only fetched and called
			if ia, ok := u.Addr.(*ssa.IndexAddr); ok && u.Val == v {
				if arr, ok := ia.X.(*ssa.Alloc); ok && c13TableOnlyCalled(p, arr, 0) {
					return
				}
			}
			entry = true
		case *ssa.ChangeType:
			for _, r := range refs(u) {
				check(r, u)
			}
		case *ssa.Return:
			// returned to the callers (an iterator, a deferred-cleanup function):
			// fine when every caller in the module only calls the result
			par := u.Parent()
			sites := c13CallSites(p)[origin(par)]
			if len(sites) == 0 || isExportedFunc(par) {
				entry = true
				return
			}
			for _, site := range sites {
				cv, ok := site.(*ssa.Call)
				if !ok {
					entry = true
					return
				}
				for _, r := range refs(cv) {
					switch w := r.(type) {
					case *ssa.Call:
						if w.Call.Value != ssa.Value(cv) {
							entry = true
						}
					case *ssa.Defer:
						if w.Call.Value != ssa.Value(cv) {
							entry = true
						}
					case *ssa.DebugRef:
					default:
						entry = true
					}
				}
			}
		default:
			entry = true
		}
	}
	found := false
	for _, g := range p.Funcs {
		allInstrs(g, func(in ssa.Instruction) {
			for _, op := range in.Operands(nil) {
				if op == nil || *op == nil {
					continue
				}
				switch v := (*op).(type) {
				case *ssa.Function:
					if origin(v) == fn {
						if mc, ok := in.(*ssa.MakeClosure); ok && mc.Fn == *op {
							// uses of the closure value
							found = true
							for _, r := range refs(mc) {
								check(r, mc)
							}
							continue
						}
						found = true
						check(in, v)
					}
				}
			}
		})
	}
	if !found {
		return true // no reference in the module: reachable only from outside
	}
	return entry
}

// c13CellOnlyCalled: every load of the variable cell (also through closures that
// capture it) is used in call position only (call or defer, not go), or handed
// to a module function / once.Do: the function value kept in it never escapes
// the goroutine that runs the enclosing function.
func c13CellOnlyCalled(p *Prog, cell ssa.Value, depth int) bool {
	if depth > 4 {
		return false
	}
	for _, r := range refs(cell) {
		switch u := r.(type) {
		case *ssa.Store:
			if u.Addr != cell {
				return false // the cell's address is stored somewhere
			}
		case *ssa.UnOp:
			if u.Op != token.MUL {
				return false
			}
			for _, rr := range refs(u) {
				switch c := rr.(type) {
				case *ssa.Call:
					if c.Call.Value == ssa.Value(u) {
						continue
					}
					if cal := staticCallee(c); cal != nil && (p.InModule(cal) || funcIs(c13ObjOf(cal), "sync", "Once", "Do")) {
						continue
					}
					return false
				case *ssa.Defer:
					if c.Call.Value == ssa.Value(u) {
						continue
					}
					return false
				case *ssa.DebugRef:
				default:
					return false
				}
			}
		case *ssa.MakeClosure:
			fn, _ := u.Fn.(*ssa.Function)
			if fn == nil {
				return false
			}
			for i, b := range u.Bindings {
				if b == cell && i < len(fn.FreeVars) && !c13CellOnlyCalled(p, fn.FreeVars[i], depth+1) {
					return false
				}
			}
		case *ssa.DebugRef:
		default:
			return false
		}
	}
	return true
}

// c13TableOnlyCalled: the local array (possibly sliced) is only indexed, its
// elements only stored to or loaded and called (or handed to module functions).
func c13TableOnlyCalled(p *Prog, v ssa.Value, depth int) bool {
	if depth > 3 {
		return false
	}
	for _, r := range refs(v) {
		switch u := r.(type) {
		case *ssa.IndexAddr:
			for _, rr := range refs(u) {
				switch w := rr.(type) {
				case *ssa.Store:
					if w.Addr != ssa.Value(u) {
						return false
					}
				case *ssa.UnOp:
					for _, r3 := range refs(w) {
						switch c := r3.(type) {
						case *ssa.Call:
							if c.Call.Value == ssa.Value(w) {
								continue
							}
							if cal := staticCallee(c); cal != nil && p.InModule(cal) {
								continue
							}
							return false
						case *ssa.Defer:
							if c.Call.Value != ssa.Value(w) {
								return false
							}
						case *ssa.DebugRef:
						default:
							return false
						}
					}
				case *ssa.DebugRef:
				default:
					return false
				}
			}
		case *ssa.Slice:
			if !c13TableOnlyCalled(p, u, depth+1) {
				return false
			}
		case *ssa.Call:
			if b, ok := u.Call.Value.(*ssa.Builtin); !ok || (b.Name() != "len" && b.Name() != "cap") {
				return false
			}
		case *ssa.DebugRef:
		default:
			return false
		}
	}
	return true
}
