package main

// C12: goroutine bodies (runner / inner-manager / closer workers), explored
// with virtual inlining; and the error-knowledge helpers shared with the
// collectors.

import (
	"go/token"
	"sort"

	"golang.org/x/tools/go/ssa"
)

type c12WorkerKind int

const (
	wkRunner  c12WorkerKind = iota // task = element of RunnerManager runners; must cancel
	wkInner                        // task = RunnerManager.Run of the inner manager
	wkCloser                       // task = element of the closers
	wkFixture                      // fixture: task = element of a given field, no cancel, no filter
	wkAuto                         // inner-manager or closer goroutine, decided by what it calls (Kind is set accordingly)
)

// c12WorkerSum is what the exploration of one goroutine body found.
type c12WorkerSum struct {
	Fn       *ssa.Function
	Name     string
	Kind     c12WorkerKind
	TaskVals []ssa.Value // spawner-side values that carry the task (element loads)
	Chans    []ssa.Value // spawner-side roots of the channel(s) the result is sent on
	Problems map[string]bool
	Filter   map[string]bool // K2: an error lost
	Excludes bool            // every send of the task result excludes context.Canceled
	Unknown  string          // non-empty: could not classify something
	Tasks    int
	Sends    int
	// runner workers: the context.WithCancel call(s) whose cancel is called, and
	// whether the task received the context of that call
	CancelOf map[*ssa.Call]bool
	CtxOf    map[*ssa.Call]bool
	CtxOther bool
}

func (x *c12) isCanceledGlobal(v xVal) bool {
	if v.K != xAtom {
		return false
	}
	u, ok := v.V.(*ssa.UnOp)
	if !ok || u.Op != token.MUL {
		return false
	}
	g, ok := u.X.(*ssa.Global)
	return ok && g.Name() == "Canceled" && g.Pkg != nil && g.Pkg.Pkg.Path() == "context"
}

// errFacts decodes a branch as a fact about the error value recognised by isE:
// (nilness, canceled) refinements in {c12Unk, c12Yes, c12No}.
func (x *c12) errFacts(st *xState, cond xVal, truth bool, isE func(xVal) bool) (int, int) {
	switch cond.K {
	case xCmp:
		if cond.Op != token.EQL && cond.Op != token.NEQ {
			return c12Unk, c12Unk
		}
		a, b := *cond.X, *cond.Y
		if !isE(a) {
			a, b = b, a
		}
		if !isE(a) {
			return c12Unk, c12Unk
		}
		eq := (cond.Op == token.EQL) == truth
		if b.K == xNil {
			if eq {
				return c12Yes, c12No
			}
			return c12No, c12Unk
		}
		if x.isCanceledGlobal(b) {
			if eq {
				return c12No, c12Yes
			}
			return c12Unk, c12No
		}
	case xAtom:
		call, ok := cond.V.(*ssa.Call)
		if !ok || !callIs(call, "errors", "", "Is") || len(call.Call.Args) != 2 || cond.F == nil {
			return c12Unk, c12Unk
		}
		a, b := st.EvalIn(cond.F, call.Call.Args[0]), st.EvalIn(cond.F, call.Call.Args[1])
		if isE(a) && x.isCanceledGlobal(b) {
			if truth {
				return c12No, c12Yes
			}
			return c12Unk, c12No
		}
	}
	return c12Unk, c12Unk
}

// elemLoads: every static root of v is a load of an element of the slice held
// in field f; returns those loads.
func (x *c12) elemLoads(st *xState, v xVal, f FieldID) ([]ssa.Value, bool) {
	if v.K == xElem && v.Base != nil && v.Base.K == xField && v.Base.Fld == f && v.V != nil {
		return []ssa.Value{v.V}, true
	}
	roots := st.Static(v)
	if len(roots) == 0 {
		return nil, false
	}
	for _, r := range roots {
		if _, ok := c12ElemOfField(r, nil, f); !ok {
			return nil, false
		}
	}
	return roots, true
}

func (x *c12) withCancelOf(roots []ssa.Value, idx int) (*ssa.Call, bool) {
	var call *ssa.Call
	if len(roots) == 0 {
		return nil, false
	}
	for _, r := range roots {
		ex, ok := r.(*ssa.Extract)
		if !ok || ex.Index != idx {
			return nil, false
		}
		c, ok := ex.Tuple.(*ssa.Call)
		if !ok || !callIs(c, "context", "", "WithCancel") || (call != nil && call != c) {
			return nil, false
		}
		call = c
	}
	return call, true
}

// exploreWorker explores a goroutine body started by `site` (bind = its
// arguments in the spawner). field: the slice field whose elements are tasks.
//
// oracle evaluates a spawner-side SSA value (a root of something the goroutine
// uses: an argument of the go statement, a variable captured from an enclosing
// helper, …) in the spawner's path state at the go statement.
func (x *c12) exploreWorker(fn *ssa.Function, bind c12Bind, kind c12WorkerKind, field FieldID, oracle func(ssa.Value) xVal) *c12WorkerSum {
	sum := &c12WorkerSum{Fn: fn, Name: FuncName(x.p, fn), Kind: kind, Problems: map[string]bool{}, Filter: map[string]bool{}, Excludes: true,
		CancelOf: map[*ssa.Call]bool{}, CtxOf: map[*ssa.Call]bool{}}
	const (
		bCalled = 1 << 0
		bSent1  = 1 << 1
		bSent2  = 1 << 2
		bCanc   = 1 << 3
		shNil   = 4
		shCan   = 6
	)
	tasks := map[*ssa.Call]bool{}
	taskVals := map[ssa.Value]bool{}
	chans := map[ssa.Value]bool{}
	isT := func(v xVal) bool {
		if v.K != xAtom {
			return false
		}
		c, ok := v.V.(*ssa.Call)
		return ok && tasks[c]
	}
	isTask := func(st *xState, call *ssa.Call) bool {
		if kind == wkInner {
			return staticCallee(call) == x.rmRun
		}
		if kind == wkAuto && staticCallee(call) == x.rmRun {
			if sum.Kind == wkCloser {
				sum.Unknown = "goroutine both runs the inner manager and calls a closer"
			}
			sum.Kind = wkInner
			return true
		}
		if call.Call.IsInvoke() {
			return false
		}
		switch call.Call.Value.(type) {
		case *ssa.Function, *ssa.Builtin, *ssa.MakeClosure:
			return false
		}
		roots := st.Static(st.Eval(call.Call.Value))
		if len(roots) == 0 {
			return false
		}
		for _, r := range roots {
			// what the value is on the spawner's side decides (it may reach the
			// goroutine as an argument, a captured variable, a parameter of an
			// enclosing helper or of an iterator body, …)
			ev := oracle(r)
			if !(ev.K == xElem && ev.Base != nil && ev.Base.K == xField && ev.Base.Fld == field) {
				return false
			}
		}
		for _, l := range roots {
			taskVals[l] = true
		}
		if kind == wkAuto {
			if sum.Kind == wkInner {
				sum.Unknown = "goroutine both runs the inner manager and calls a closer"
			}
			sum.Kind = wkCloser
		}
		return true
	}
	// resolve: spawner-side meaning of a value used in the goroutine
	resolve := func(st *xState, v ssa.Value) []xVal {
		var out []xVal
		for _, r := range st.Static(st.EvalIn(st.fr, v)) {
			out = append(out, oracle(r))
		}
		return out
	}
	wcOf := func(vals []xVal, idx int) (*ssa.Call, bool) {
		var roots []ssa.Value
		for _, v := range vals {
			if v.K != xAtom || v.V == nil {
				return nil, false
			}
			roots = append(roots, v.V)
		}
		return x.withCancelOf(roots, idx)
	}
	isCancel := func(st *xState, ci ssa.CallInstruction) (*ssa.Call, bool) {
		if kind != wkRunner || ci.Common().IsInvoke() {
			return nil, false
		}
		switch ci.Common().Value.(type) {
		case *ssa.Function, *ssa.Builtin:
			return nil, false
		}
		return wcOf(resolve(st, ci.Common().Value), 1)
	}
	cl := &xClient{NoInline: x.noInline}
	if oracle != nil {
		cl.Outer = func(v ssa.Value) (xVal, bool) { return oracle(v), true }
	}
	cl.OnInstr = func(st *xState, in ssa.Instruction, replay bool) bool {
		switch v := in.(type) {
		case *ssa.Defer:
			if !replay {
				return true
			}
			if wc, ok := isCancel(st, v); ok {
				sum.CancelOf[wc] = true
				st.Client |= bCanc
			}
		case *ssa.Call:
			if wc, ok := isCancel(st, v); ok {
				sum.CancelOf[wc] = true
				if st.Client&bCalled == 0 {
					sum.Problems["cancel is called at "+x.pos(in)+" before the runner was run: the shared context is cancelled although no runner has returned"] = true
				}
				st.Client |= bCanc
				return true
			}
			if isTask(st, v) {
				tasks[v] = true
				if st.Client&bCalled != 0 {
					sum.Problems["the task can be invoked twice by one goroutine (second call at "+x.pos(in)+")"] = true
				}
				if st.Client&bCanc != 0 {
					sum.Problems["the task is invoked at "+x.pos(in)+" after cancel was already called"] = true
				}
				if kind == wkRunner {
					ok := false
					if len(v.Call.Args) >= 1 {
						vals := resolve(st, v.Call.Args[0])
						if wc, isWC := wcOf(vals, 0); isWC {
							sum.CtxOf[wc] = true
							ok = true
						} else {
							// several roots (a re-assigned ctx variable): accept if one is derived
							for _, one := range vals {
								if wc, isWC := wcOf([]xVal{one}, 0); isWC {
									sum.CtxOf[wc] = true
									ok = true
								}
							}
						}
					}
					if !ok {
						sum.CtxOther = true
					}
				}
				st.Client |= bCalled
				st.Client &^= 3<<shNil | 3<<shCan
			}
		case *ssa.Send:
			roots := st.Static(st.Eval(v.Chan))
			if len(roots) == 0 {
				sum.Unknown = "cannot identify the channel of the send at " + x.pos(in)
				return true
			}
			for _, r := range roots {
				chans[r] = true
			}
			if st.Client&bCalled == 0 {
				sum.Problems["a result is sent at "+x.pos(in)+" before the task has returned (the collector counts a task as finished that is still running)"] = true
			}
			if st.Client&bSent1 != 0 {
				st.Client |= bSent2
			}
			st.Client |= bSent1
			val := st.Eval(v.X)
			n, c := int(st.Client>>shNil)&3, int(st.Client>>shCan)&3
			switch {
			case val.K == xNil:
				if kind == wkRunner {
					if !(n == c12Yes || c == c12Yes) && st.Client&bCalled != 0 {
						sum.Filter["nil is sent at "+x.pos(in)+" on a path where the runner's error is not known to be nil or context.Canceled: a genuine error is missing from Run's result"] = true
					}
				} else if !(n == c12Yes) {
					sum.Problems["nil is sent at "+x.pos(in)+" instead of the task's own result: that error is lost"] = true
				}
			case isT(val):
				if !(n == c12Yes || c == c12No) {
					sum.Excludes = false
				}
			default:
				if kind == wkRunner {
					sum.Unknown = "the value sent at " + x.pos(in) + " is neither the runner's result nor nil"
				} else {
					sum.Problems["the value sent at "+x.pos(in)+" is not the task's own result: that error is lost"] = true
				}
			}
		}
		return true
	}
	cl.OnBranch = func(st *xState, ifi *ssa.If, cond xVal, truth bool) bool {
		fn, fc := x.errFacts(st, cond, truth, isT)
		if fn == c12Unk && fc == c12Unk {
			return true
		}
		n, c := int(st.Client>>shNil)&3, int(st.Client>>shCan)&3
		n2, c2, ok := c12Refine(n, c, fn, fc)
		if !ok {
			return false
		}
		st.Client &^= 3<<shNil | 3<<shCan
		st.Client |= uint64(n2)<<shNil | uint64(c2)<<shCan
		return true
	}
	nRet := 0
	cl.OnReturn = func(st *xState, ret *ssa.Return, _ []xVal) {
		nRet++
		if st.Client&bCalled == 0 {
			sum.Problems["the goroutine can return at "+x.pos(ret)+" without having run its task"] = true
		}
		if st.Client&bSent1 == 0 {
			sum.Problems["the goroutine can return at "+x.pos(ret)+" without sending a result: the collector waits forever (Run never returns)"] = true
		}
		if st.Client&bSent2 != 0 {
			sum.Problems["the goroutine can send two results on one path (return at "+x.pos(ret)+"): the collector stops one result early, Run returns while a task is still running and a later sender blocks forever"] = true
		}
		if kind == wkRunner && st.Client&bCanc == 0 {
			sum.Problems["the goroutine can return at "+x.pos(ret)+" without cancelling the shared context: the other runners are not stopped when this one returns"] = true
		}
	}
	ex := newXplorer(x.p, x.ssaPkg, cl)
	ex.Explore(fn, bind, 0)
	if ex.Overflow {
		sum.Unknown = "path exploration of " + sum.Name + " exceeded its budget"
	}
	if nRet == 0 && sum.Unknown == "" {
		sum.Problems["the goroutine body has no reachable return"] = true
	}
	sum.Tasks = len(tasks)
	for v := range taskVals {
		sum.TaskVals = append(sum.TaskVals, v)
	}
	for v := range chans {
		sum.Chans = append(sum.Chans, v)
	}
	sort.Slice(sum.TaskVals, func(i, j int) bool { return sum.TaskVals[i].Pos() < sum.TaskVals[j].Pos() })
	sort.Slice(sum.Chans, func(i, j int) bool { return sum.Chans[i].Pos() < sum.Chans[j].Pos() })
	return sum
}

// evalSpawnerSide evaluates, in the spawner's current path state, an SSA value
// that belongs to one of the functions on the frame chain — or to the body of
// the goroutine being started by g (then its parameters are bound to g's
// arguments as evaluated now).
func evalSpawnerSide(st *xState, v ssa.Value, g ssa.CallInstruction) xVal {
	type hasParent interface{ Parent() *ssa.Function }
	var owner *ssa.Function
	if hp, ok := v.(hasParent); ok {
		owner = hp.Parent()
	}
	for f := st.fr; f != nil; f = f.parent {
		if owner == nil || f.fn == owner {
			return st.EvalIn(f, v)
		}
	}
	if g != nil && owner != nil {
		callee, closure := st.x.calleeOf(st, st.fr, g.Common())
		if callee == owner {
			nf := st.x.frame(st.fr, callee, g, "spawn")
			nf.closure = closure
			tmp := st.clone()
			args := g.Common().Args
			if g.Common().IsInvoke() {
				args = append([]ssa.Value{g.Common().Value}, args...)
			}
			for i, pa := range callee.Params {
				if i < len(args) {
					tmp.set(nf, pa, st.Eval(args[i]))
				}
			}
			return tmp.EvalIn(nf, v)
		}
	}
	return st.Eval(v)
}

// sameChan: a spawner-side root of a worker's channel denotes channel ch.
func sameChan(st *xState, roots []ssa.Value, ch xVal) bool {
	if len(roots) == 0 {
		return false
	}
	for _, r := range roots {
		ev := evalSpawnerSide(st, r, nil)
		if !(ev.K == xAtom && ch.K == xAtom && ev.V == ch.V) {
			return false
		}
	}
	return true
}
