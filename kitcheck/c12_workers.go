package main

// C12: analysis of worker goroutines (runner / inner-manager / closer) and of
// the collector side (counts, filter, join).

import (
	"fmt"
	"go/token"
	"sort"

	"golang.org/x/tools/go/ssa"
)

// c12WorkerResult is what the path analysis of one goroutine body found.
type c12WorkerResult struct {
	Tasks    []*ssa.Call // calls of the task
	Sends    []*ssa.Send // sends on the result channel
	Problems []string    // violations (deduplicated, sorted)
}

// c12WorkerFlow checks, on every path of the goroutine body w.Fn:
// the task (isTask) is called exactly once; exactly one send on a channel for
// which isCh holds happens, after the task call; if cancel != nil, a call of
// cancel (deferred or direct) happens after the task returned on every path
// and never before the task call.
func c12WorkerFlow(x *c12, w *c12Worker, isTask func(*ssa.Call) bool, isCh func(ssa.Value) bool, cancel ssa.Value) *c12WorkerResult {
	res := &c12WorkerResult{}
	probs := map[string]bool{}
	isCancel := func(ci ssa.CallInstruction) bool {
		if cancel == nil || ci.Common().IsInvoke() {
			return false
		}
		return c12OnlyRoot(ci.Common().Value, w.Bind, cancel)
	}
	const (
		bCalled = 1 << 0
		bSent1  = 1 << 1
		bSent2  = 1 << 2
		bCanc   = 1 << 3
		bReg    = 1 << 4
	)
	seenTask, seenSend := map[*ssa.Call]bool{}, map[*ssa.Send]bool{}
	fl := &c12Flow{Fn: w.Fn, Entry: 1,
		Instr: func(in ssa.Instruction, replay bool, st uint64) uint64 {
			switch v := in.(type) {
			case *ssa.Defer:
				if !isCancel(v) {
					return st
				}
				if !replay {
					return mapStates(st, func(s int) int { return s | bReg })
				}
				return mapStates(st, func(s int) int {
					if s&bReg != 0 {
						return s | bCanc
					}
					return s
				})
			case *ssa.Call:
				if isCancel(v) {
					return mapStates(st, func(s int) int {
						if s&bCalled == 0 {
							probs["cancel is called at "+x.pos(in)+" before the task was run: the shared context is cancelled although no runner has returned"] = true
						}
						return s | bCanc
					})
				}
				if isTask(v) {
					if !seenTask[v] {
						seenTask[v] = true
						res.Tasks = append(res.Tasks, v)
					}
					return mapStates(st, func(s int) int {
						if s&bCalled != 0 {
							probs["the task can be invoked twice by one goroutine (second call at "+x.pos(in)+")"] = true
						}
						if s&bCanc != 0 {
							probs["the task is invoked at "+x.pos(in)+" after cancel was already called"] = true
						}
						return s | bCalled
					})
				}
			case *ssa.Send:
				if !isCh(v.Chan) {
					return st
				}
				if !seenSend[v] {
					seenSend[v] = true
					res.Sends = append(res.Sends, v)
				}
				return mapStates(st, func(s int) int {
					if s&bCalled == 0 {
						probs["a result is sent at "+x.pos(in)+" before the task has returned (the collector counts a task as finished that is still running)"] = true
					}
					if s&bSent1 != 0 {
						return s | bSent2
					}
					return s | bSent1
				})
			}
			return st
		}}
	fl.Run()
	nRet := 0
	fl.AtReturns(func(ret *ssa.Return, st uint64) {
		nRet++
		c12ForStates(st, func(s int) {
			if s&bCalled == 0 {
				probs["the goroutine can return at "+x.pos(ret)+" without having run its task"] = true
			}
			if s&bSent1 == 0 {
				probs["the goroutine can return at "+x.pos(ret)+" without sending a result: the collector waits forever (Run never returns)"] = true
			}
			if s&bSent2 != 0 {
				probs["the goroutine can send two results on one path (return at "+x.pos(ret)+"): the collector stops one result early, Run returns while a task is still running and a later sender blocks forever"] = true
			}
			if cancel != nil && s&bCanc == 0 {
				probs["the goroutine can return at "+x.pos(ret)+" without cancelling the shared context: the other runners are not stopped when this one returns"] = true
			}
		})
	})
	if nRet == 0 {
		probs["the goroutine body has no reachable return"] = true
	}
	for m := range probs {
		res.Problems = append(res.Problems, m)
	}
	sort.Strings(res.Problems)
	return res
}

// c12Site is a group of spawn or receive sites with its symbolic count.
type c12Tally struct {
	Count    c12Count
	Problems []string
	Unknown  []string
	// Doms: blocks/loops that every later return must be dominated by
	Single []ssa.Instruction
	Loops  []*c12Loop
}

// c12TallySites adds up how often the given instructions execute in fn:
// once for a site outside any cycle, Trips for a counted loop containing
// exactly one site per iteration.
func c12TallySites(x *c12, fn *ssa.Function, sites []ssa.Instruction, what string) *c12Tally {
	t := &c12Tally{}
	loops := c12Loops(fn)
	isSite := map[ssa.Instruction]bool{}
	for _, s := range sites {
		isSite[s] = true
	}
	done := map[*c12Loop]bool{}
	for _, s := range sites {
		l := c12LoopOf(loops, s.Block())
		if l != nil && s.Block() == l.Header {
			t.Unknown = append(t.Unknown, what+" at "+x.pos(s)+" sits in a loop header")
			continue
		}
		if l == nil {
			if c12InAnyCycle(s.Block()) {
				t.Unknown = append(t.Unknown, what+" at "+x.pos(s)+" sits in a loop that is not a counted loop over len(field)")
				continue
			}
			t.Count.K++
			t.Single = append(t.Single, s)
			continue
		}
		if done[l] {
			continue
		}
		done[l] = true
		if l.LenField == (FieldID{}) {
			t.Unknown = append(t.Unknown, what+" loop at "+x.pos(l.If)+" is not bounded by the length of a struct field")
			continue
		}
		if l.Problem != "" {
			t.Problems = append(t.Problems, what+" loop at "+x.pos(l.If)+": "+l.Problem)
		}
		per := c12PerIteration(fn, l, func(in ssa.Instruction) bool { return isSite[in] })
		if per != 1<<1 {
			t.Problems = append(t.Problems, fmt.Sprintf("%s loop at %s: an iteration executes %s %s instead of exactly one", what, x.pos(l.If), c12SetString(per), what))
		}
		if t.Count.Coef != 0 && t.Count.Field != l.LenField {
			t.Unknown = append(t.Unknown, what+" loops range over different fields")
			continue
		}
		t.Count.Field = l.LenField
		t.Count.Coef++
		t.Count.K += l.Off - l.First
		t.Loops = append(t.Loops, l)
	}
	return t
}

func c12SetString(st uint64) string {
	s := ""
	for i, n := range []string{"0", "1", "2 or more"} {
		if st&(1<<uint(i)) != 0 {
			if s != "" {
				s += " or "
			}
			s += n
		}
	}
	if s == "" {
		return "no"
	}
	return s
}

// c12CheckCounts implements the count rule for fn: sum of spawns of workers
// sending on ch == sum of receives on ch, and every return reachable from a
// spawn is dominated by all receives.
func c12CheckCounts(x *c12, fn *ssa.Function, rule, construct string, spawns []*ssa.Go, recvs []*ssa.UnOp) (spawnT, recvT *c12Tally, ok bool) {
	r := x.r
	var si, ri []ssa.Instruction
	for _, g := range spawns {
		si = append(si, g)
	}
	for _, u := range recvs {
		ri = append(ri, u)
	}
	spawnT = c12TallySites(x, fn, si, "go statement")
	recvT = c12TallySites(x, fn, ri, "receive")
	if un := append(append([]string{}, spawnT.Unknown...), recvT.Unknown...); len(un) > 0 {
		r.Undecide("%s: cannot count goroutines/results: %s", construct, un[0])
		return spawnT, recvT, false
	}
	var bad []string
	bad = append(bad, spawnT.Problems...)
	bad = append(bad, recvT.Problems...)
	if spawnT.Count != recvT.Count {
		if spawnT.Count.Coef == recvT.Count.Coef && (spawnT.Count.Coef == 0 || spawnT.Count.Field == recvT.Count.Field) {
			more := "Run waits forever for a result nobody sends"
			if recvT.Count.K < spawnT.Count.K {
				more = "Run returns while a goroutine is still running, and that goroutine blocks forever on its send"
			}
			bad = append(bad, fmt.Sprintf("%s goroutines are started but %s results are collected: %s", spawnT.Count, recvT.Count, more))
		} else {
			r.Undecide("%s: goroutines started (%s) and results collected (%s) are counted over different fields", construct, spawnT.Count, recvT.Count)
			return spawnT, recvT, false
		}
	}
	// returns after a spawn must follow the whole collection
	for _, ret := range c12Returns(fn) {
		reach := false
		for _, g := range spawns {
			if c12Reaches(g.Block(), ret.Block()) {
				reach = true
			}
		}
		if !reach {
			continue
		}
		for _, s := range recvT.Single {
			if !instrDominates(s, ret) {
				bad = append(bad, "the return at "+x.pos(ret)+" can be reached after goroutines were started without passing the receive at "+x.pos(s)+": Run returns before all have returned")
			}
		}
		for _, l := range recvT.Loops {
			if l.Blocks[ret.Block()] || !l.Header.Dominates(ret.Block()) {
				bad = append(bad, "the return at "+x.pos(ret)+" can be reached after goroutines were started without completing the collection loop at "+x.pos(l.If)+": Run returns before all have returned")
			}
		}
	}
	sort.Strings(bad)
	msg := ""
	if len(bad) > 0 {
		msg = bad[0]
	}
	pos := x.p.Pos(fn.Pos())
	if len(recvs) > 0 {
		pos = x.pos(recvs[len(recvs)-1])
	}
	return spawnT, recvT, r.Check(len(bad) == 0, rule, construct, pos,
		fmt.Sprintf("%s goroutines started, %s results collected, every return after a spawn follows the collection", spawnT.Count, recvT.Count), msg, bad...)
}

// c12Collector analyses what happens to the value received by recv in fn:
// on every path until the next execution of recv / a return, the value is
// either stored into memory that reaches errors.Join, or was found nil (or,
// if filterAllowed, found to be context.Canceled). If needExclude, a value
// that may be Canceled must not be stored. Returns problems and Join calls.
func c12Collector(x *c12, fn *ssa.Function, recv *ssa.UnOp, filterAllowed, needExclude bool) (problems []string, joins []*ssa.Call) {
	probs := map[string]bool{}
	joinSet := map[*ssa.Call]bool{}
	isE := func(v ssa.Value) bool { return v == ssa.Value(recv) || c12OnlyRoot(v, nil, recv) }
	enc := func(n, c, app int) int { return 1 + (n*3+c)*2 + app }
	dec := func(s int) (n, c, app int) { s--; return (s / 2) / 3, (s / 2) % 3, s % 2 }
	verify := func(st uint64, where string) {
		c12ForStates(st, func(s int) {
			if s == 0 {
				return
			}
			n, c, app := dec(s)
			if app == 1 {
				if needExclude && !(c == c12No || n == c12Yes) {
					probs["a result that may be context.Canceled is joined into the returned error ("+where+"): neither the goroutine nor the collector excludes it"] = true
				}
				return
			}
			if n == c12Yes || (filterAllowed && c == c12Yes) {
				return
			}
			probs["a collected result that is not known to be nil"+map[bool]string{true: " or context.Canceled", false: ""}[filterAllowed]+" does not reach errors.Join ("+where+"): that error is missing from the returned error"] = true
		})
	}
	fl := &c12Flow{Fn: fn, Entry: 1,
		Instr: func(in ssa.Instruction, replay bool, st uint64) uint64 {
			if in == ssa.Instruction(recv) {
				verify(st, "before the next receive at "+x.pos(in))
				return 1 << uint(enc(c12Unk, c12Unk, 0))
			}
			if s, ok := in.(*ssa.Store); ok && isE(s.Val) {
				if base := c12StoreBase(s); base != nil {
					js := c12ReachesJoin(base)
					if len(js) > 0 {
						for _, j := range js {
							joinSet[j] = true
						}
						return mapStates(st, func(s int) int {
							if s == 0 {
								return 0
							}
							n, c, _ := dec(s)
							return enc(n, c, 1)
						})
					}
				}
			}
			return st
		},
		Edge: func(from, to *ssa.BasicBlock, st uint64) uint64 {
			fnil, fcan := c12ErrFact(from, to, isE, nil)
			if fnil == c12Unk && fcan == c12Unk {
				return st
			}
			var out uint64
			c12ForStates(st, func(s int) {
				if s == 0 {
					out |= 1
					return
				}
				n, c, app := dec(s)
				if n2, c2, ok := c12Refine(n, c, fnil, fcan); ok {
					out |= 1 << uint(enc(n2, c2, app))
				}
			})
			return out
		}}
	fl.Run()
	fl.AtReturns(func(ret *ssa.Return, st uint64) { verify(st, "return at "+x.pos(ret)) })
	for m := range probs {
		problems = append(problems, m)
	}
	sort.Strings(problems)
	for j := range joinSet {
		joins = append(joins, j)
	}
	return
}

// c12SenderFilter analyses the sends of a runner goroutine w.r.t. the task
// result T: returns problems (an error lost) and whether every send of T
// excludes Canceled.
func c12SenderFilter(x *c12, w *c12Worker, task *ssa.Call, sends []*ssa.Send) (problems []string, excludes bool, undecided string) {
	probs := map[string]bool{}
	excludes = true
	isE := func(v ssa.Value) bool { return c12OnlyRoot(v, w.Bind, task) }
	isSend := map[ssa.Instruction]bool{}
	for _, s := range sends {
		isSend[s] = true
	}
	fl := &c12Flow{Fn: w.Fn, Entry: 1 << 0,
		Instr: func(in ssa.Instruction, replay bool, st uint64) uint64 {
			if in == ssa.Instruction(task) {
				return 1 << 0
			}
			if !isSend[in] {
				return st
			}
			val := in.(*ssa.Send).X
			switch {
			case c12AllNil(val, w.Bind):
				c12ForStates(st, func(s int) {
					n, c := s/3, s%3
					if !(n == c12Yes || c == c12Yes) {
						probs["nil is sent at "+x.pos(in)+" on a path where the runner's error is not known to be nil or context.Canceled: a genuine error is missing from Run's result"] = true
					}
				})
			case isE(val):
				c12ForStates(st, func(s int) {
					n, c := s/3, s%3
					if !(n == c12Yes || c == c12No) {
						excludes = false
					}
				})
			default:
				undecided = "the value sent at " + x.pos(in) + " is neither the runner's result nor nil"
			}
			return st
		},
		Edge: func(from, to *ssa.BasicBlock, st uint64) uint64 {
			fnil, fcan := c12ErrFact(from, to, isE, w.Bind)
			if fnil == c12Unk && fcan == c12Unk {
				return st
			}
			var out uint64
			c12ForStates(st, func(s int) {
				if n2, c2, ok := c12Refine(s/3, s%3, fnil, fcan); ok {
					out |= 1 << uint(n2*3+c2)
				}
			})
			return out
		}}
	fl.Run()
	for m := range probs {
		problems = append(problems, m)
	}
	sort.Strings(problems)
	return
}

// c12JoinReturned: every return of fn reachable from `after` returns (only) the
// result of one of the join calls, possibly through a field it was stored in.
func c12JoinReturned(x *c12, fn *ssa.Function, after []*ssa.Go, joins []*ssa.Call, via FieldID) string {
	isJoin := func(v ssa.Value) bool {
		for _, j := range joins {
			if v == ssa.Value(j) {
				return true
			}
		}
		return false
	}
	nilReturns, joinReturns := 0, 0
	defer func() {
		if nilReturns > 0 && joinReturns > 0 {
			x.r.Undecide("%s returns nil on some path after the goroutines were started and errors.Join on others: the guard of the nil return is not analysed", FuncName(x.p, fn))
		}
	}()
	for _, ret := range c12Returns(fn) {
		reach := false
		for _, g := range after {
			if c12Reaches(g.Block(), ret.Block()) {
				reach = true
			}
		}
		if !reach {
			continue
		}
		roots := c12ReturnRoots(ret, 0)
		var flat []ssa.Value
		for _, root := range roots {
			if id, _, ok := fieldOfValue(root); ok && via != (FieldID{}) && id == via {
				n := 0
				allInstrs(fn, func(in ssa.Instruction) {
					if s, ok := in.(*ssa.Store); ok {
						if fa, ok := s.Addr.(*ssa.FieldAddr); ok && fieldIDOfAddr(fa) == via {
							flat = append(flat, c12Roots(s.Val, nil)...)
							n++
						}
					}
				})
				if n == 0 {
					return "the return at " + x.pos(ret) + " returns " + via.String() + ", which Run never assigns"
				}
				continue
			}
			flat = append(flat, root)
		}
		if len(flat) == 0 {
			return "the return at " + x.pos(ret) + " has no result"
		}
		allNil := true
		for _, v := range flat {
			if !isNilConst(v) {
				allNil = false
			}
		}
		if allNil {
			// `if len(errs) == 0 { return nil }` is equivalent to returning the
			// Join of nothing; whether the guard really means "nothing was
			// collected" is not decided here.
			empty := false
			for _, dc := range domConds(ret.Block()) {
				if cmp, ok := decodeCond(dc.If.Cond, dc.Branch); ok && cmp.Op == token.EQL {
					a, b := cmp.X, cmp.Y
					if _, isC := c12ConstInt(a); isC {
						a, b = b, a
					}
					if k, isC := c12ConstInt(b); isC && k == 0 {
						if sv, off, isLen := c12LenExpr(a); isLen && off == 0 && len(c12ReachesJoin(sv)) > 0 {
							empty = true // the slice given to Join is empty: Join would return nil too
						}
					}
				}
			}
			if !empty {
				nilReturns++
			}
			continue
		}
		joinReturns++
		for _, v := range flat {
			if !isJoin(v) && !isNilConst(v) {
				return "the return at " + x.pos(ret) + " does not (only) return the errors.Join of the collected results"
			}
		}
	}
	if joinReturns == 0 {
		return "no return after the goroutines were started returns the errors.Join of the collected results"
	}
	return ""
}

var _ = token.NoPos
