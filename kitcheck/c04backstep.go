package main

import (
	"go/token"
	"strings"

	"golang.org/x/tools/go/ssa"
)

// ---------------------------------------------------------------------------
// N2-backstep: backward adjustments after the step of a coarse search loop
//
// A calendar step asks for "the same wall-clock time on another date". When
// that time does not exist the time package answers with an instant off by the
// gap, on either side: 23:00 of the day before, or 01:00 of the day asked for.
// A fix-up that moves the stepped instant BACKWARD (Add of -t.Hour() hours)
// then leaves the unit just entered: 01:00 of the 1st becomes 23:00 of the last
// day of the previous month, that month is tested a second time and the next
// step passes over the month that was entered. The backward result may only be
// kept (a) under a test that the unit of the adjusted and of the unadjusted
// instant agree, or (b) if the iteration afterwards compares the unit of the
// value it arrived at with the unit of the value it started from and, when they
// agree (no progress), continues with a value computed from the start by
// forward steps only.

// c04Range: interval of an integer term built from constants, time accessors, + - * and merges.
func c04Range(t *c04T) (lo, hi int64, ok bool) {
	switch {
	case t.Op == "const" && t.IsK:
		return t.K, t.K, true
	case strings.HasPrefix(t.Op, "tm:") && len(t.Args) == 1:
		switch t.Op[3:] {
		case "Hour":
			return 0, 23, true
		case "Minute", "Second":
			return 0, 59, true
		case "Nanosecond":
			return 0, 999999999, true
		case "Day":
			return 1, 31, true
		case "Month":
			return 1, 12, true
		case "Weekday":
			return 0, 6, true
		case "YearDay":
			return 1, 366, true
		}
		return 0, 0, false
	case t.Op == "un:-" && len(t.Args) == 1:
		l, h, ok := c04Range(t.Args[0])
		return -h, -l, ok
	case t.Op == "choice" && len(t.Args) > 0:
		for i, a := range t.Args {
			l, h, k := c04Range(a)
			if !k {
				return 0, 0, false
			}
			if i == 0 || l < lo {
				lo = l
			}
			if i == 0 || h > hi {
				hi = h
			}
		}
		return lo, hi, true
	case (t.Op == "bin:+" || t.Op == "bin:-" || t.Op == "bin:*") && len(t.Args) == 2:
		l1, h1, ok1 := c04Range(t.Args[0])
		l2, h2, ok2 := c04Range(t.Args[1])
		if !ok1 || !ok2 {
			return 0, 0, false
		}
		const big = int64(1) << 50
		for _, v := range []int64{l1, h1, l2, h2} {
			if v > big || v < -big {
				return 0, 0, false
			}
		}
		switch t.Op {
		case "bin:+":
			return l1 + l2, h1 + h2, true
		case "bin:-":
			return l1 - h2, h1 - l2, true
		}
		for _, pr := range [][2]int64{{l1, l2}, {l1, h2}, {h1, l2}, {h1, h2}} {
			if f := float64(pr[0]) * float64(pr[1]); f > 4e18 || f < -4e18 {
				return 0, 0, false
			}
		}
		ps := []int64{l1 * l2, l1 * h2, h1 * l2, h1 * h2}
		lo, hi = ps[0], ps[0]
		for _, v := range ps[1:] {
			if v < lo {
				lo = v
			}
			if v > hi {
				hi = v
			}
		}
		return lo, hi, true
	}
	return 0, 0, false
}

// c04MoveSign of an Add/AddDate node: +1 forward (or nothing), -1 backward (never forward, sometimes back), 0 not known.
func c04MoveSign(n *c04T) int {
	switch n.Op {
	case "tm:Add":
		if len(n.Args) != 2 {
			return 0
		}
		lo, hi, ok := c04Range(n.Args[1])
		switch {
		case !ok:
			return 0
		case lo >= 0:
			return 1
		case hi <= 0:
			return -1
		}
		return 0
	case "tm:AddDate":
		neg, pos := false, false
		for _, a := range n.Args[1:] {
			lo, hi, ok := c04Range(a)
			if !ok || (lo < 0 && hi > 0) {
				return 0
			}
			if lo < 0 {
				neg = true
			}
			if hi > 0 {
				pos = true
			}
		}
		switch {
		case neg && pos:
			return 0
		case neg:
			return -1
		}
		return 1
	}
	return 0
}

func c04SameOrBelow(x, y *c04T) bool { return x.Key() == y.Key() || c04Below(x, y) }

type c04CondSite struct {
	fr  *c04Frame2
	ifi *ssa.If
	ct  *c04T
}

// bodyConds: the branch conditions of the loop body, those of the inlined callees included.
func (lc *c04LoopCtx) bodyConds() []c04CondSite {
	var out []c04CondSite
	add := func(fr *c04Frame2, in ssa.Instruction) {
		if ifi, ok := in.(*ssa.If); ok {
			out = append(out, c04CondSite{fr, ifi, lc.tb.Term(fr, ifi.Cond)})
		}
	}
	for _, b := range lc.l.Fn.Blocks {
		if !lc.l.Body[b] {
			continue
		}
		for _, in := range b.Instrs {
			add(lc.root, in)
			if c, ok := in.(ssa.CallInstruction); ok {
				lc.tb.VisitCall(lc.root, c, add)
			}
		}
	}
	return out
}

// fwdSteps: the forward steps of one iteration (calendar steps, Add of a positive constant).
func (lc *c04LoopCtx) fwdSteps() []*c04T {
	constSteps, _ := lc.steps()
	var steps []*c04T
	for _, s := range constSteps {
		if _, ok := lc.dateStep(s); ok {
			steps = append(steps, s)
		} else if c04MoveSign(s) > 0 {
			if ks, _ := c04AllConst(s.Args[1:]); len(ks) > 0 {
				nz := false
				for _, k := range ks {
					if k != 0 {
						nz = true
					}
				}
				if nz {
					steps = append(steps, s)
				}
			}
		}
	}
	return steps
}

func (lc *c04LoopCtx) afterStep(steps []*c04T, n *c04T) *c04T {
	for _, s := range steps {
		if n.Key() != s.Key() && c04Below(n, s) {
			return s
		}
	}
	return nil
}

// unitGuard: is node n (a backward adjustment, or a calendar step whose landing is in doubt)
// protected by a comparison of the loop's unit between two instants — (a, only if allowA) n's result
// against the unadjusted instant, with n dropped when they differ; (b) the value arrived at against
// the pre-step instant, with a forward restart from there when they agree. candidate: some
// comparison of that kind exists, recognised or not.
func (lc *c04LoopCtx) unitGuard(n *c04T, steps []*c04T, allowA bool) (how string, candidate bool) {
	u := lc.u
	unitAcc := map[string]map[string]bool{"Month": {"Month": true}, "Day": {"Day": true, "YearDay": true}}[u]
	afterStep := func(n *c04T) *c04T { return lc.afterStep(steps, n) }
	conds := lc.bodyConds()
	// a comparison of the unit of two different instants, one of them derived from n
	isUnitCmp := func(c *c04T, n *c04T) bool {
		if !strings.HasPrefix(c.Op, "bin:") || len(c.Args) != 2 {
			return false
		}
		switch c.Op[4:] {
		case "==", "!=", "<", "<=", ">", ">=":
		default:
			return false
		}
		x, y := c.Args[0], c.Args[1]
		if !strings.HasPrefix(x.Op, "tm:") || x.Op != y.Op || len(x.Args) != 1 || len(y.Args) != 1 || !unitAcc[x.Op[3:]] {
			return false
		}
		a, b := x.Args[0], y.Args[0]
		return a.Key() != b.Key() && (c04SameOrBelow(a, n) || c04SameOrBelow(b, n))
	}
	for _, cs := range conds {
		found := cs.ct.contains(func(c *c04T) bool { return isUnitCmp(c, n) })
		if !found {
			continue
		}
		candidate = true
		op, x, y, ok := c04CmpTerm(cs.ct, true)
		if !ok || (op != token.EQL && op != token.NEQ) || !isUnitCmp(&c04T{Op: "bin:==", Args: []*c04T{x, y}}, n) {
			continue
		}
		agree, differ := cs.ifi.Block().Succs[0], cs.ifi.Block().Succs[1]
		if op == token.NEQ {
			agree, differ = differ, agree
		}
		post, other := x.Args[0], y.Args[0]
		if !c04SameOrBelow(post, n) {
			post, other = other, post
		}
		if !c04SameOrBelow(post, n) || c04SameOrBelow(other, n) {
			continue
		}
		free := func(ts []*c04T, forwardOnly bool) bool {
			if len(ts) == 0 {
				return false
			}
			for _, tv := range ts {
				if tv.contains(func(x *c04T) bool { return x.Key() == n.Key() }) {
					return false
				}
				if !forwardOnly {
					continue
				}
				sp := c04SpineOf(tv)
				if len(sp.unknown) > 0 {
					return false
				}
				for _, m := range sp.nodes {
					if (m.Op == "tm:Add" || m.Op == "tm:AddDate") && c04MoveSign(m) <= 0 {
						return false
					}
				}
			}
			return true
		}
		// (a) adjusted against unadjusted (both after the step): when the units differ the loop goes on without n
		if allowA && c04Below(n, other) && (afterStep(other) != nil || lc.isStep(steps, other)) {
			if free(lc.exitTerms(cs, differ), false) {
				return "dropped when the " + u + " of the adjusted and of the unadjusted instant differ", true
			}
			continue
		}
		// (b) progress guard: the value arrived at against the value the step started from
		isPre := false
		for _, s := range steps {
			if c04Below(s, other) && c04SameOrBelow(post, s) {
				isPre = true
			}
		}
		if isPre && free(lc.exitTerms(cs, agree), true) {
			return "followed by a progress guard: when the " + u + " did not change the loop continues from the pre-step instant by forward steps", true
		}
	}
	return "", candidate
}

func (lc *c04LoopCtx) checkBackstep() {
	r, p, u, l := lc.st.r, lc.st.p, lc.u, lc.l
	rule := "C04.N2-backstep"
	construct := lc.base + ": backstep"
	pos := p.Pos(c04IfPos(l.If))

	steps := lc.fwdSteps()
	afterStep := func(n *c04T) *c04T { return lc.afterStep(steps, n) }
	var backs, unsure []*c04T
	for _, n := range lc.sp.nodes {
		if n.Op != "tm:Add" && n.Op != "tm:AddDate" {
			continue
		}
		if afterStep(n) == nil {
			continue
		}
		switch c04MoveSign(n) {
		case -1:
			backs = append(backs, n)
		case 0:
			unsure = append(unsure, n)
		}
	}
	if len(backs) == 0 && len(unsure) == 0 {
		if len(lc.sp.unknown) > 0 {
			r.Undecide("Next %s loop: the value the loop continues with is computed through %s: whether the stepped instant is moved backwards is not decided", u, lc.sp.unknown[0])
		} else {
			r.OK(rule, construct, pos, "the stepped instant is never moved backwards")
		}
		return
	}
	protectedBy := func(n *c04T) (string, bool) { return lc.unitGuard(n, steps, true) }
	var hows []string
	for _, n := range append(append([]*c04T{}, backs...), unsure...) {
		how, cand := protectedBy(n)
		if how != "" {
			hows = append(hows, how)
			continue
		}
		positively := false
		for _, b := range backs {
			if b == n {
				positively = true
			}
		}
		switch {
		case positively && !cand && len(lc.sp.unknown) == 0:
			why := "when local midnight of the date aimed at does not exist the calendar step can land AFTER the gap (01:00 of the day asked for — zones east of Greenwich whose gap starts at 00:00: Asia/Damascus 2006-04-01, Asia/Beirut, Asia/Amman, Asia/Gaza) and the backward adjustment then falls back to 23:00 of the day before"
			if u == "Month" {
				why += ", the last day of the month just left: that month is tested again, and the next AddDate(0,1,0) from the 30th/31st passes over the month that had been reached — 'TZ=Asia/Damascus 0 12 * 4 *' from 2006-01-15 yields 2007-04-02 instead of 2006-04-01"
			} else {
				why += ": the same day is tested again and the next calendar step from 23:00 passes over the day that had been reached, so its matches are missed"
			}
			r.Violation(rule, construct, c04TermPos(p, n, c04IfPos(l.If)), "after its step the "+u+" loop moves the instant backwards (Add of a non-positive duration computed from the stepped instant) and continues with the result without verifying that it is still in the "+strings.ToLower(u)+" stepped into (no comparison of the "+u+" of adjusted and unadjusted instant, no progress guard against the pre-step instant): "+why)
		case positively:
			r.Undecide("Next %s loop: the stepped instant is moved backwards and a comparison of %s values is present, but it is not in a recognised protecting form (kept-if-same-unit, or progress guard with a forward restart)", u, u)
		default:
			r.Undecide("Next %s loop: the stepped instant is adjusted by an amount whose sign is not decided and no recognised protection (kept-if-same-unit, progress guard) follows", u)
		}
		return
	}
	r.OK(rule, construct, pos, "backward adjustment after the step: "+strings.Join(uniqueStrings(hows), "; "))
}

func uniqueStrings(in []string) []string {
	seen := map[string]bool{}
	var out []string
	for _, s := range in {
		if !seen[s] {
			seen[s] = true
			out = append(out, s)
		}
	}
	return out
}

func (lc *c04LoopCtx) isStep(steps []*c04T, t *c04T) bool {
	for _, s := range steps {
		if s.Key() == t.Key() {
			return true
		}
	}
	return false
}

// exitTerms: the instants the code continues with when the branch of cs goes to succ: if succ is
// entered only from the branch, what leaves the region it dominates (phi edges out of it, results
// returned in it, the content of instants kept in memory where it is left); if succ is a merge
// point, what the branch's own edge carries.
func (lc *c04LoopCtx) exitTerms(cs c04CondSite, succ *ssa.BasicBlock) []*c04T {
	fn := cs.ifi.Parent()
	ifb := cs.ifi.Block()
	type cell struct {
		base  ssa.Value
		field int
	}
	// instants kept in memory (captured by closures, fields of a local struct) that the two arms store to
	var cells []cell
	bad := false
	for _, b := range fn.Blocks {
		inArm := false
		for _, sb := range ifb.Succs {
			if len(sb.Preds) == 1 && sb.Dominates(b) {
				inArm = true
			}
		}
		if !inArm {
			continue
		}
		for _, instr := range b.Instrs {
			st, ok := instr.(*ssa.Store)
			if !ok || !c04IsTimeType(st.Val.Type()) {
				continue
			}
			c := cell{st.Addr, -1}
			if fa, ok := st.Addr.(*ssa.FieldAddr); ok {
				c = cell{fa.X, fa.Field}
			}
			switch c.base.(type) {
			case *ssa.Alloc, *ssa.FreeVar:
			default:
				bad = true
			}
			dup := false
			for _, o := range cells {
				if o == c {
					dup = true
				}
			}
			if !dup {
				cells = append(cells, c)
			}
		}
	}
	if bad {
		return nil
	}
	var out []*c04T
	if len(succ.Preds) != 1 {
		// the branch's own edge into a merge point
		n := 0
		for _, pb := range succ.Preds {
			if pb == ifb {
				n++
			}
		}
		if n != 1 {
			return nil
		}
		for _, instr := range succ.Instrs {
			ph, ok := instr.(*ssa.Phi)
			if !ok {
				break
			}
			if !c04IsTimeType(ph.Type()) {
				continue
			}
			for i, pb := range succ.Preds {
				if pb == ifb {
					out = append(out, lc.tb.Term(cs.fr, ph.Edges[i]))
				}
			}
		}
		for _, c := range cells {
			out = append(out, lc.tb.MemAt(cs.fr, c.base, c.field, ifb, len(ifb.Instrs)))
		}
		return out
	}
	for _, b := range fn.Blocks {
		in := succ.Dominates(b)
		if !in {
			for _, instr := range b.Instrs {
				ph, ok := instr.(*ssa.Phi)
				if !ok {
					break
				}
				if !c04IsTimeType(ph.Type()) {
					continue
				}
				for i, pb := range b.Preds {
					if succ.Dominates(pb) {
						out = append(out, lc.tb.Term(cs.fr, ph.Edges[i]))
					}
				}
			}
			continue
		}
		leaves := false
		for _, sb := range b.Succs {
			if !succ.Dominates(sb) {
				leaves = true
			}
		}
		if n := len(b.Instrs); n > 0 {
			if ret, ok := b.Instrs[n-1].(*ssa.Return); ok {
				leaves = true
				for _, res := range ret.Results {
					if c04IsTimeType(res.Type()) {
						out = append(out, lc.tb.Term(cs.fr, res))
					}
				}
			}
		}
		if leaves {
			for _, c := range cells {
				out = append(out, lc.tb.MemAt(cs.fr, c.base, c.field, b, len(b.Instrs)))
			}
		}
	}
	return out
}

// checkResetStart (month loop): a reset to the start of the unit by time.Date(y, m, 1, 0, ...) is
// itself a request for a local midnight that may not exist; the answer can be 23:00 of the day
// before — the previous month. A calendar step applied to it then counts from the 30th/31st.
func (lc *c04LoopCtx) checkResetStart() {
	r, p, u, l := lc.st.r, lc.st.p, lc.u, lc.l
	rule := "C04.N2-backstep"
	construct := lc.base + ": reset start"
	pos := p.Pos(c04IfPos(l.If))
	isK := func(t *c04T, k int64) bool { return t.Op == "const" && t.IsK && t.K == k }
	var resets []*c04T
	for _, n := range lc.sp.nodes {
		if n.Op != "date" || len(n.Args) != 8 {
			continue
		}
		if _, ok := lc.dateStep(n); ok {
			continue
		}
		if isK(n.Args[2], 1) && isK(n.Args[3], 0) && isK(n.Args[4], 0) && isK(n.Args[5], 0) && isK(n.Args[6], 0) {
			resets = append(resets, n)
		}
	}
	constSteps, _ := lc.steps()
	readsAccessorOf := func(amount []*c04T, base *c04T, names ...string) bool {
		for _, a := range amount {
			if a.contains(func(x *c04T) bool {
				if !strings.HasPrefix(x.Op, "tm:") || len(x.Args) != 1 {
					return false
				}
				okName := false
				for _, nm := range names {
					if x.Op[3:] == nm {
						okName = true
					}
				}
				return okName && c04SameOrBelow(x.Args[0], base)
			}) {
				return true
			}
		}
		return false
	}
	for _, rs := range resets {
		for _, s := range constSteps {
			cal := s.Op == "tm:AddDate"
			if _, ok := lc.dateStep(s); ok {
				cal = true
			}
			if !cal || !c04Below(s, rs) {
				continue
			}
			repaired := false
			for _, m := range lc.sp.nodes {
				if m.Key() == rs.Key() || m.Key() == s.Key() {
					continue
				}
				switch {
				case c04Below(m, rs) && c04Below(s, m) && (m.Op == "tm:Add" || m.Op == "tm:AddDate"):
					// between reset and step: an adjustment that looks at the reset's result
					if readsAccessorOf(m.Args[1:], rs, "Hour", "Day", "Month", "YearDay", "Minute") {
						repaired = true
					}
				case c04Below(m, s) && (m.Op == "tm:Add" || m.Op == "tm:AddDate"):
					// after the step: an adjustment that looks at the day of the month
					if readsAccessorOf(m.Args[1:], s, "Day", "YearDay") {
						repaired = true
					}
				case c04Below(m, s) && m.Op == "date" && len(m.Args) == 8 && isK(m.Args[2], 1):
					repaired = true
				}
			}
			if repaired {
				continue
			}
			if len(lc.sp.unknown) > 0 {
				r.Undecide("Next %s loop: the value the loop continues with is computed through %s: whether the reset to the 1st is normalised before the calendar step is not decided", u, lc.sp.unknown[0])
				return
			}
			r.Violation(rule, construct, c04TermPos(p, rs, c04IfPos(l.If)), "the "+u+" loop resets to time.Date(y, m, 1, 0, 0, 0, 0) and applies the calendar step to the result as it is: when local midnight of the 1st does not exist (DST gap at 00:00 of the 1st: America/Asuncion 2017-10-01, America/Havana 2012-04-01) the reset answers 23:00 of the day before, i.e. the last day of the PREVIOUS month; AddDate(0,1,0) then counts from the 30th, the hour fix-up moves on to the 31st 00:00 and the next step overflows past the following month — 'TZ=America/Asuncion 0 12 15 11 *' from 2017-10-10 yields 2018-11-15 instead of 2017-11-15 (no adjustment that reads the reset's result before the step, none that reads the day of the month after it)")
			return
		}
	}
	r.OK(rule, construct, pos, "a reset to the 1st that feeds a calendar step is normalised (or there is no such reset)")
}
