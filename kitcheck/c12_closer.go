package main

// C12: RunnerCloserManager.Run (K0, K3, K4, K5c), AddCloser (K3-lock, K3-wrap).

import (
	"fmt"
	"go/token"
	"go/types"

	"golang.org/x/tools/go/ssa"
)

// callsAnchor: the tree of fn contains a static call to anchor.
func (x *c12) callsAnchor(fn *ssa.Function, anchor *ssa.Function) bool {
	found := false
	for f := range x.tree(fn) {
		allInstrs(f, func(in ssa.Instruction) {
			if c, ok := in.(*ssa.Call); ok && staticCallee(c) == anchor {
				found = true
			}
		})
	}
	return found
}

// varargValues returns the elements of the slice value v (a variadic argument,
// or any slice whose content is known on this path).
func varargValues(st *xState, f *xFrame, v ssa.Value) ([]xVal, bool) {
	ev := st.EvalIn(f, v)
	if ev.K == xNil {
		return nil, true
	}
	if ev.HasLen && int64(len(ev.Elems)) == ev.Len {
		return ev.Elems, true
	}
	return nil, false
}

// funcOfValue: the function a closure / method value / function value (also
// one kept in a func-typed field with a single target) denotes.
func funcOfValue(st *xState, v xVal) *ssa.Function {
	f, _ := st.x.funcOf(v)
	return f
}

// ownErrorFree explores fn — a runner or closer the package registers itself
// (not one supplied by the user) — and requires every error it can return to
// be nil, or, for a runner, context.Canceled (the only error the inner
// manager filters): only the user's runners and closers may contribute errors
// to what Run and Close report.
func (x *c12) ownErrorFree(fn *ssa.Function, isRunner bool, rule, construct, what string) {
	if fn == nil || len(fn.Blocks) == 0 || x.ownChecked[fn] {
		return
	}
	if x.ownChecked == nil {
		x.ownChecked = map[*ssa.Function]bool{}
	}
	x.ownChecked[fn] = true
	res := fn.Signature.Results()
	if res.Len() == 0 || !types.Identical(res.At(res.Len()-1).Type(), types.Universe.Lookup("error").Type()) {
		return
	}
	cl := &xClient{NoInline: x.noInline}
	cl.OnReturn = func(st *xState, ret *ssa.Return, results []xVal) {
		if len(results) == 0 {
			return
		}
		v := results[len(results)-1]
		switch {
		case v.K == xNil:
			return
		case isRunner && x.isCanceledGlobal(v):
			return
		}
		ctxErr := false
		if v.K == xAtom {
			if call, ok := v.V.(*ssa.Call); ok && call.Call.IsInvoke() && call.Call.Method.Name() == "Err" && namedKey(call.Call.Value.Type()) == "context.Context" {
				ctxErr = true
			}
		}
		switch {
		case ctxErr:
			x.bad(rule, construct, x.pos(ret), what+" "+FuncName(x.p, fn)+" returns its context's Err() at "+x.pos(ret)+": when that context ends by deadline this is context.DeadlineExceeded, which is not filtered, so Run and Close report an error although every registered runner and closer returned nil or context.Canceled")
		case v.NonNil || x.isCanceledGlobal(v):
			x.bad(rule, construct, x.pos(ret), what+" "+FuncName(x.p, fn)+" returns a non-nil error of its own at "+x.pos(ret)+": Run and Close then report an error that no registered runner or closer returned")
		default:
			x.undecide("%s %s returns at %s a value the check cannot show to be nil (%s)", what, FuncName(x.p, fn), x.pos(ret), v.String())
		}
	}
	ex := newXplorer(x.p, x.ssaPkg, cl)
	ex.Explore(fn, nil, 0)
}

// isStopRunner explores fn (a Runner) and reports whether it returns once the
// channel closed by Close is closed, and once its own ctx is done.
func (x *c12) isStopRunner(fn *ssa.Function) (onClose, onDone bool) {
	if fn == nil || len(fn.Blocks) == 0 {
		return
	}
	const (
		bClose = 1 << 0
		bDone  = 1 << 1
	)
	cl := &xClient{NoInline: x.noInline}
	isCtxDone := func(st *xState, ch ssa.Value) bool {
		ev := st.Eval(ch)
		if ev.K != xAtom {
			return false
		}
		call, ok := ev.V.(*ssa.Call)
		if !ok || !call.Call.IsInvoke() || call.Call.Method.Name() != "Done" || ev.F == nil {
			return false
		}
		recv := st.EvalIn(ev.F, call.Call.Value)
		if recv.K != xAtom {
			return false
		}
		pa, ok := recv.V.(*ssa.Parameter)
		return ok && recv.F != nil && recv.F.parent == nil && namedKey(pa.Type()) == "context.Context"
	}
	cl.OnSelect = func(st *xState, sel *ssa.Select, k int) bool {
		if k < 0 || k >= len(sel.States) || sel.States[k].Dir != types.RecvOnly {
			return true
		}
		if x.isField(st, sel.States[k].Chan, x.cmCloseCh) {
			st.Client |= bClose
		} else if isCtxDone(st, sel.States[k].Chan) {
			st.Client |= bDone
		}
		return true
	}
	cl.OnInstr = func(st *xState, in ssa.Instruction, replay bool) bool {
		if u, ok := in.(*ssa.UnOp); ok && u.Op == token.ARROW {
			if x.isField(st, u.X, x.cmCloseCh) {
				st.Client |= bClose
			} else if isCtxDone(st, u.X) {
				st.Client |= bDone
			}
		}
		return true
	}
	cl.OnReturn = func(st *xState, ret *ssa.Return, _ []xVal) {
		// a return reached having waited only for one of the two events
		if st.Client == bClose {
			onClose = true
		}
		if st.Client == bDone {
			onDone = true
		}
	}
	ex := newXplorer(x.p, x.ssaPkg, cl)
	ex.Explore(fn, nil, 0)
	return
}

func (x *c12) checkCloserRun() {
	p := x.p
	fn := x.cmRun
	fname := FuncName(p, fn)
	cOnce := fname + " once-guard"
	cOrder := fname + " closers after runners"
	cOwn := fname + " one goroutine per closer"
	cCount := fname + " started==collected"
	cColl := fname + " collector"
	cJoin := fname + " returns Join"
	cSnap := fname + " closers snapshot under lock"
	cStop := fname + " close(stopped) guarded"
	cRet := fname + " retErr then close(stopped)"
	cStopR := fname + " stop runner on closeCh"
	cFatal := fname + " release of the fatal closer when one result outstanding"
	cOwnErr := fname + " internal runners contribute no error"
	x.seen("C12.K2-filter", cOwnErr, p.Pos(fn.Pos()))
	for _, rc := range [][2]string{{"C12.K0-once", cOnce}, {"C12.K3-order", cOrder}, {"C12.K3-order", cOwn}, {"C12.K3-collect", cCount}, {"C12.K3-collect", cColl},
		{"C12.K3-collect", cJoin}, {"C12.K3-lock", cSnap}, {"C12.K4-stopped", cStop}, {"C12.K4-stopped", cRet}, {"C12.K4-closech", cStopR}, {"C12.K5-fatal", cFatal}} {
		x.seen(rc[0], rc[1], p.Pos(fn.Pos()))
	}

	cache := c12SpawnCache{}
	// the kind of a goroutine (inner manager / closer) is found by exploring it
	classify := func(f *ssa.Function) (c12WorkerKind, FieldID, bool) { return wkAuto, x.cmClosers, true }
	stopCache := map[*ssa.Function][2]bool{}
	// The inner manager's running flag is only set by RunnerManager.Run; if
	// the only place the package runs the inner manager is Run's own call tree,
	// then on a path on which this Run won its test-and-set and has not started
	// the inner manager yet, that flag is still unset.
	innerOnlyHere := true
	runTree := x.tree(fn)
	rmTree := x.tree(x.rmRun)
	for _, f := range p.FuncsOfPkg("concurrency") {
		allInstrs(f, func(in ssa.Instruction) {
			if ci, ok := in.(ssa.CallInstruction); ok && staticCallee(ci) == x.rmRun && !runTree[f] {
				innerOnlyHere = false
			}
		})
		if !rmTree[f] {
			for _, name := range []string{"Store", "Swap", "CompareAndSwap"} {
				if len(c12FlagCalls(f, x.rmRunning, name)) > 0 {
					innerOnlyHere = false
				}
			}
		}
	}

	const (
		bOwn       = 1 << 0
		bStopReg   = 1 << 1
		bInnerGo   = 1 << 2
		bInnerDone = 1 << 3
		shMask     = 4  // 4 bits closers started
		shRes      = 8  // 3 bits closer results received
		shFatal    = 11 // 2 bits closes of the release channel
		bLocked    = 1 << 13
		bClosing   = 1 << 14
		bRead      = 1 << 15
		bRetErr    = 1 << 16
		bStopped   = 1 << 17
		bEAct      = 1 << 18
		shENil     = 19
		bEApp      = 1 << 21
		bAnyGo     = 1 << 22
		bJoinOK    = 1 << 23
		// bFence: closing was set and the lock was held at or acquired after that
		// moment: every AddCloser append is ordered before, every later AddCloser
		// is refused — the closers are frozen and may be read without the lock
		bFence   = 1 << 24
		bJoinNil = 1 << 25
		// second slot of collected-result tracking (closer results); the first
		// slot (bEAct/shENil/bEApp) tracks the inner manager's result, which may
		// be handed to errors.Join only later
		bE1Act = 1 << 26
		sh1Nil = 27
		bE1App = 1 << 29
	)
	sawGo, sawTAS, sawInner, sawCloserGo, sawStopClose, sawStopReg := false, false, false, false, false, false
	sawUnkTAS := false
	sawUnkLock := false
	var resultChan ssa.Value

	for m := 0; m <= 2; m++ {
		for n := 0; n <= 4; n++ {
			if m != 1 && n > 1 {
				continue // the number of runners only matters for the stop runner
			}
			m, n := m, n
			var innerVal ssa.Value
			innerShared := false
			isE := func(v xVal) bool {
				if v.K != xAtom {
					return false
				}
				if u, ok := v.V.(*ssa.UnOp); ok && u.Op == token.ARROW {
					return true
				}
				if ex, ok := v.V.(*ssa.Extract); ok && ex.Index >= 2 {
					if _, isSel := ex.Tuple.(*ssa.Select); isSel {
						return true
					}
				}
				c, ok := v.V.(*ssa.Call)
				return ok && staticCallee(c) == x.rmRun
			}
			// slots: 0 = the inner manager's result, 1 = the closer results; when one
			// receive instruction delivers both kinds they share slot 1
			type slot struct {
				act, app uint64
				sh       uint
			}
			slots := [2]slot{{bEAct, bEApp, shENil}, {bE1Act, bE1App, sh1Nil}}
			slotOf := func(v ssa.Value) int {
				if ex, ok := v.(*ssa.Extract); ok {
					if sel, isSel := ex.Tuple.(*ssa.Select); isSel {
						v = sel
					}
				}
				if innerVal != nil && v == innerVal && !innerShared {
					return 0
				}
				return 1
			}
			isEk := func(k int) func(xVal) bool {
				return func(v xVal) bool { return isE(v) && slotOf(v.V) == k }
			}
			verifySlot := func(st *xState, k int, where string) {
				sl := slots[k]
				if st.Client&sl.act == 0 || st.Client&sl.app != 0 {
					return
				}
				if int(st.Client>>sl.sh)&3 == c12Yes {
					return
				}
				x.bad("C12.K3-collect", cColl, "", "a collected result (of the runners or of a closer) that is not known to be nil does not reach errors.Join ("+where+"): that error is missing from the error Run and Close return")
			}
			verifyE := func(st *xState, where string) {
				verifySlot(st, 0, where)
				verifySlot(st, 1, where)
			}
			release := func(st *xState, where string) {
				if st.Client&bRead != 0 && st.Client&bClosing == 0 {
					x.bad("C12.K3-lock", cSnap, "", "the inner manager's lock is released ("+where+") after the closers were read while the closing flag has not been set: an AddCloser taking the lock at that moment still sees closing == false and registers a closer that is never invoked")
				}
				st.Client &^= bLocked
			}
			closeStopped := func(st *xState, in ssa.Instruction) {
				sawStopClose = true
				if st.Client&bOwn == 0 {
					x.bad("C12.K4-stopped", cStop, x.pos(in), "the shutdown channel is closed on a path on which this call's test-and-set of running did not succeed: Run and Close (or two Run calls) can both close it — panic")
				}
				if st.Client&bStopped != 0 {
					x.bad("C12.K4-stopped", cStop, x.pos(in), "the shutdown channel can be closed twice by one Run")
				}
				if st.Client&bRetErr == 0 && st.Client&bOwn != 0 {
					x.bad("C12.K4-stopped", cRet, x.pos(in), "Run can close the shutdown channel (at "+x.pos(in)+") without having stored the joined error in the field Close returns: Close returns nil instead of the joined error")
				}
				st.Client |= bStopped
			}
			cl := &xClient{Lens: map[FieldID]int{x.cmClosers: n, x.rmRunners: m}, NoInline: func(f *ssa.Function) bool { return x.anchors[f] && f != fn }}
			cl.OnBranch = func(st *xState, ifi *ssa.If, cond xVal, truth bool) bool {
				if cond.Stale && st.Client&bOwn != 0 {
					if sawUnkLock {
						x.undecide("%s: a branch at %s depends on the closers read outside any identified section of the inner manager's lock, but the function locks a mutex the check cannot identify", fname, x.pos(ifi))
						return false
					}
					x.bad("C12.K3-lock", cSnap, x.pos(ifi), "the branch at "+x.pos(ifi)+" depends on the closers (their number) as read at a moment when they were not yet frozen — neither under the inner manager's lock nor after closing was set inside / before a section of that lock: an AddCloser in between is accepted but its closer is not counted (never invoked, or the collection indexes out of range / waits for the wrong number of results)")
					return false
				}
				if x.tasTried(cond, x.cmRunning) {
					sawTAS = true
				}
				if x.unresolvedTAS(cond) {
					sawUnkTAS = true
				}
				if x.tasWon(cond, truth, x.cmRunning) {
					st.Client |= bOwn
				}
				if joinNilFact(cond, truth) == 1 {
					st.Client |= bJoinNil
				}
				if innerOnlyHere && st.Client&bOwn != 0 && st.Client&bInnerGo == 0 && x.flagSet(cond, truth, x.rmRunning) {
					return false // infeasible: the inner manager has not been started yet
				}
				for k, sl := range slots {
					if st.Client&sl.act == 0 {
						continue
					}
					if fnn, _ := x.errFacts(st, cond, truth, isEk(k)); fnn != c12Unk {
						nn := int(st.Client>>sl.sh) & 3
						if nn != c12Unk && nn != fnn {
							return false
						}
						st.Client = st.Client&^(3<<sl.sh) | uint64(fnn)<<sl.sh
					}
				}
				return true
			}
			// newE: a result was produced by instruction `by`; the previous value of
			// the same slot must have been dealt with by now
			newE := func(st *xState, where string, by ssa.Value, inner bool) {
				if inner {
					if innerVal != nil && innerVal != by {
						innerShared = true // several sites deliver the inner result: be strict
					}
					innerVal = by
				} else if by == innerVal {
					innerShared = true
				}
				k := slotOf(by)
				if innerShared {
					verifySlot(st, 0, where)
					st.Client &^= slots[0].act
				}
				verifySlot(st, k, where)
				st.Client &^= slots[k].app | 3<<slots[k].sh
				st.Client |= slots[k].act
			}
			registerRunners := func(st *xState, vals []xVal, in ssa.Instruction) {
				for _, val := range vals {
					f := funcOfValue(st, val)
					if f == nil {
						continue
					}
					// a runner Run itself hands to the inner manager
					x.ownErrorFree(f, true, "C12.K2-filter", cOwnErr, "the internal runner")
					res, seen := stopCache[f]
					if !seen {
						a, b := x.isStopRunner(f)
						res = [2]bool{a, b}
						stopCache[f] = res
					}
					if res[0] {
						sawStopReg = true
						if !res[1] {
							x.bad("C12.K4-closech", cStopR, x.pos(in), "the runner registered at "+x.pos(in)+" returns when Close is called but not when its own ctx is done: once the user's runners have all returned it keeps the inner manager (and so Run) from returning until Close is called")
						}
						st.Client |= bStopReg
					}
				}
			}
			onRecv := func(st *xState, in ssa.Instruction, chv ssa.Value, commaOk bool) bool {
				ch := st.Eval(chv)
				if ch.K != xAtom || resultChan == nil || ch.V != resultChan {
					return true
				}
				if commaOk {
					x.undecide("%s collects results through a comma-ok receive", fname)
				}
				if st.Client&bInnerDone == 0 {
					if st.Client&bInnerGo == 0 {
						x.bad("C12.K3-collect", cCount, x.pos(in), "Run receives a result at "+x.pos(in)+" before any goroutine was started: it waits forever")
						return false
					}
					st.Client |= bInnerDone
					newE(st, "before the receive at "+x.pos(in), in.(ssa.Value), true)
					return true
				}
				res := int(st.Client>>shRes) & 7
				started := 0
				for i := 0; i < 4; i++ {
					if st.Client&(1<<(shMask+uint(i))) != 0 {
						started++
					}
				}
				if res >= started {
					x.bad("C12.K3-collect", cCount, x.pos(in), fmt.Sprintf("with %d closers Run receives a result at %s although %d closer goroutines were started and %d results already received: it waits forever for a result nobody sends", n, x.pos(in), started, res))
					return false
				}
				if res == n-1 && (st.Client>>shFatal)&3 == 0 {
					x.bad("C12.K5-fatal", cFatal, x.pos(in), fmt.Sprintf("with %d closers Run waits at %s for the last outstanding closer result without having released the fatal closer: if that closer is the fatal-shutdown closer itself (always so when it is the only closer) Run and Close hang until the grace timer expires and the fatal action fires although no closer was pending", n, x.pos(in)))
				}
				res++
				st.Client = st.Client&^(7<<shRes) | uint64(res)<<shRes
				newE(st, "before the receive at "+x.pos(in), in.(ssa.Value), false)
				return true
			}
			cl.OnSelect = func(st *xState, sel *ssa.Select, k int) bool {
				if k >= 0 && k < len(sel.States) && sel.States[k].Dir == types.RecvOnly {
					return onRecv(st, sel, sel.States[k].Chan, false)
				}
				return true
			}
			cl.OnInstr = func(st *xState, in ssa.Instruction, replay bool) bool {
				if ci, ok := in.(ssa.CallInstruction); ok {
					if _, isDefer := in.(*ssa.Defer); !isDefer || replay {
						if x.unresolvedLockOp(st, ci) {
							sawUnkLock = true
						}
						switch x.lockOp(st, ci) {
						case 1:
							st.Client |= bLocked
							st.Client &^= bRead
							if st.Client&bClosing != 0 {
								st.Client |= bFence
							}
						case -1:
							release(st, "unlock at "+x.pos(in))
						}
						if x.closeOf(st, in, x.cmStopped) {
							closeStopped(st, in)
						}
						if x.closeOf(st, in, x.cmCloseFatal) && n >= 1 {
							res := int(st.Client>>shRes) & 7
							k := int(st.Client>>shFatal) & 3
							if k >= 1 {
								x.bad("C12.K5-fatal", cFatal, x.pos(in), fmt.Sprintf("with %d closers the release channel of the fatal closer is closed a second time at %s: panic", n, x.pos(in)))
							} else if res != n-1 {
								x.bad("C12.K5-fatal", cFatal, x.pos(in), fmt.Sprintf("with %d closers the release channel of the fatal closer is closed at %s when %d closer results have been received instead of %d: too early and the fatal closer is released while other closers are still running (they can outlast the grace period without the fatal action)", n, x.pos(in), res, n-1))
							}
							if k < 3 {
								k++
							}
							st.Client = st.Client&^(3<<shFatal) | uint64(k)<<shFatal
						}
					}
				}
				switch v := in.(type) {
				case *ssa.Call:
					if x.flagSetCall(st, v, x.cmClosing) {
						st.Client |= bClosing
						if st.Client&bLocked != 0 {
							st.Client |= bFence
						}
					}
					switch staticCallee(v) {
					case x.rmAdd:
						if len(v.Call.Args) >= 2 {
							vals, ok := varargValues(st, st.fr, v.Call.Args[1])
							if !ok {
								x.undecide("%s: cannot see which runners are added to the inner manager at %s", fname, x.pos(in))
							}
							registerRunners(st, vals, in)
						}
					case x.rmRun:
						// the inner manager run synchronously
						sawInner = true
						x.innerStart(st, in, m, bStopReg, bOwn, cOnce, cStopR)
						st.Client |= bInnerGo | bInnerDone
						newE(st, "before "+x.pos(in), v, true)
					}
				case *ssa.Go:
					sawGo = true
					if st.Client&bOwn == 0 && sawUnkTAS {
						x.undecide("%s: a goroutine is started at %s after a test-and-set of a flag the check cannot identify", fname, x.pos(in))
					} else if st.Client&bOwn == 0 {
						x.bad("C12.K0-once", cOnce, x.pos(in), "the goroutine started at "+x.pos(in)+" can be reached without this call's own test-and-set of the running flag having succeeded: a second Run, or a Run after Close, would start the runners and closers again")
					}
					w := x.workerOf(st, v, cache, classify)
					if w == nil {
						return true
					}
					for _, c := range w.Chans {
						ev := evalSpawnerSide(st, c, v)
						if _, isMk := ev.V.(*ssa.MakeChan); ev.K != xAtom || !isMk || (resultChan != nil && resultChan != ev.V) {
							x.undecide("%s: the goroutines do not report on one channel made in Run", fname)
							continue
						}
						resultChan = ev.V
					}
					switch w.Kind {
					case wkInner:
						sawInner = true
						x.innerStart(st, in, m, bStopReg, bOwn, cOnce, cStopR)
						if st.Client&bInnerGo != 0 {
							x.bad("C12.K3-order", cOrder, x.pos(in), "the inner manager is started twice")
						}
						st.Client |= bInnerGo
					case wkCloser:
						sawCloserGo = true
						if st.Client&bInnerDone == 0 {
							x.bad("C12.K3-order", cOrder, x.pos(in), "the closer goroutine started at "+x.pos(in)+" can be reached before the result of the inner RunnerManager.Run was received: closers can run while runners are still running")
						}
						if w.Tasks == 0 || w.Unknown != "" {
							return true
						}
						for _, tv := range w.TaskVals {
							ev := evalSpawnerSide(st, tv, v)
							if ev.Stale || (ev.Base != nil && ev.Base.Stale) {
								if sawUnkLock {
									x.undecide("%s: the closer goroutine started at %s uses closers read outside any identified lock section, but the function locks a mutex the check cannot identify", fname, x.pos(in))
									return false
								}
								x.bad("C12.K3-lock", cSnap, x.pos(in), "the closer goroutine started at "+x.pos(in)+" takes its closer from a snapshot of the closers read when they were not yet frozen (not under the inner manager's lock, closing not yet set): a closer registered after that read is never invoked")
								return false
							}
							if ev.K == xElem && ev.Base != nil && ev.Base.K == xField && ev.Base.Fld == x.cmClosers && ev.Idx != nil && ev.Idx.K == xInt && ev.Idx.I >= 0 && ev.Idx.I < 4 {
								bit := uint64(1) << (shMask + uint(ev.Idx.I))
								if st.Client&bit != 0 {
									x.bad("C12.K3-order", cOwn, x.pos(in), fmt.Sprintf("with %d closers, closer %d is invoked by two goroutines (go statement at %s)", n, ev.Idx.I, x.pos(in)))
								}
								st.Client |= bit
							} else {
								x.undecide("%s: cannot tell which closer the goroutine started at %s invokes (%s)", fname, x.pos(in), ev.String())
							}
						}
					}
				case *ssa.UnOp:
					switch v.Op {
					case token.MUL:
						if fa, ok := v.X.(*ssa.FieldAddr); ok && fieldIDOfAddr(fa) == x.cmClosers {
							// the value of this read is fixed now: it is the final list
							// only if the closers are frozen at this moment (lock held, or
							// closing set inside / before a section of the lock)
							ev := st.Eval(v)
							if ev.K == xField {
								ev.Stale = st.Client&bLocked == 0 && st.Client&bFence == 0
								st.set(st.fr, v, ev)
								if !ev.Stale {
									st.Client |= bRead
								}
							}
						}
					case token.ARROW:
						return onRecv(st, in, v.X, v.CommaOk)
					}
				case *ssa.Store:
					if fa, ok := v.Addr.(*ssa.FieldAddr); ok && fieldIDOfAddr(fa) == x.rmRunners {
						// RunnerManager.Add inlined: runners = append(runners, …)
						if ev := st.Eval(v.Val); ev.AppendedOK {
							registerRunners(st, ev.Appended, in)
						}
						if st.Client&bOwn == 0 || st.Client&bInnerGo != 0 {
							x.bad("C12.K0-once", cOnce, x.pos(in), "a runner is appended to the inner manager at "+x.pos(in)+" on a path on which this Run does not own the manager or has already started the inner manager: it is never started and the inner manager waits for a result that never comes")
						}
					}
					if fa, ok := v.Addr.(*ssa.FieldAddr); ok && fieldIDOfAddr(fa) == x.cmRetErr {
						if st.Client&bStopped != 0 {
							x.bad("C12.K4-stopped", cRet, x.pos(in), "the joined error is stored at "+x.pos(in)+" after the shutdown channel was closed: a Close call released by it can read the old value")
						}
						st.Client |= bRetErr
						if isJoinCall(st.Eval(v.Val)) {
							st.Client |= bJoinOK
						} else {
							x.bad("C12.K3-collect", cJoin, x.pos(in), "the value stored at "+x.pos(in)+" in the field Close returns is not the errors.Join of the collected results")
						}
					}
					if val := st.Eval(v.Val); isE(val) && x.joinStore(v) {
						if sl := slots[slotOf(val.V)]; st.Client&sl.act != 0 {
							st.Client |= sl.app
						}
					}
				}
				return true
			}
			cl.OnReturn = func(st *xState, ret *ssa.Return, res []xVal) {
				if st.Client&bOwn == 0 {
					if len(res) == 1 && res[0].K == xNil && !sawUnkTAS {
						x.bad("C12.K0-once", cOnce, x.pos(ret), fmt.Sprintf("with %d closers Run returns nil at %s on a path on which it did not take the running flag: the manager is not marked as started (a later Run or Add is accepted, Close on it is not the end) — a manager must run at most once", n, x.pos(ret)))
					}
					return
				}
				verifyE(st, "return at "+x.pos(ret))
				mask := int(st.Client>>shMask) & 15
				if want := (1 << uint(n)) - 1; mask != want && sawCloserGo {
					for i := 0; i < n; i++ {
						if mask&(1<<uint(i)) == 0 {
							x.bad("C12.K3-order", cOwn, x.pos(ret), fmt.Sprintf("with %d closers Run can return at %s without having started a goroutine for closer %d: a registered closer is never invoked", n, x.pos(ret), i))
							break
						}
					}
				}
				started := 0
				for i := 0; i < 4; i++ {
					if mask&(1<<uint(i)) != 0 {
						started++
					}
				}
				if rc := int(st.Client>>shRes) & 7; rc != started {
					x.bad("C12.K3-collect", cCount, x.pos(ret), fmt.Sprintf("with %d closers Run can return at %s having started %d closer goroutines but received %d of their results: it returns (and releases Close) while a closer is still running, and that goroutine may block forever on its send", n, x.pos(ret), started, rc))
				}
				if st.Client&bInnerGo != 0 && st.Client&bInnerDone == 0 {
					x.bad("C12.K3-collect", cCount, x.pos(ret), "Run can return at "+x.pos(ret)+" without having received the result of the inner manager")
				}
				if n >= 1 && (st.Client>>shFatal)&3 == 0 && sawCloserGo {
					x.bad("C12.K5-fatal", cFatal, x.pos(ret), fmt.Sprintf("with %d closers Run returns at %s without ever closing the release channel of the fatal closer: that closer ends only through its timer, so Run lasts the whole grace period and the fatal action fires although the closers finished in time", n, x.pos(ret)))
				}
				if st.Client&bStopped == 0 {
					x.bad("C12.K4-stopped", cRet, x.pos(ret), "Run can return at "+x.pos(ret)+" after winning running without closing the shutdown channel: Close / WaitUntilShutdown block forever")
				}
				if st.Client&bClosing == 0 && sawCloserGo {
					x.bad("C12.K3-lock", cSnap, x.pos(ret), "Run can return at "+x.pos(ret)+" without ever setting the closing flag: AddCloser keeps accepting closers that are never invoked")
				}
				if len(res) == 1 && st.Client&bInnerGo != 0 {
					if !isJoinCall(res[0]) && !(res[0].K == xNil && st.Client&bJoinNil != 0) {
						x.bad("C12.K3-collect", cJoin, x.pos(ret), "the return at "+x.pos(ret)+" does not return the errors.Join of the collected results")
					}
				}
			}
			ex := newXplorer(p, x.ssaPkg, cl)
			ex.Explore(fn, nil, 0)
			if ex.Overflow {
				x.undecide("%s: path exploration exceeded its budget (runners=%d closers=%d)", fname, m, n)
			}
		}
	}
	if !sawGo {
		x.bad("C12.K0-once", cOnce, p.Pos(fn.Pos()), "Run no longer starts any goroutine")
	}
	if !sawTAS && sawUnkTAS {
		x.undecide("%s test-and-sets a flag the check cannot identify", fname)
	} else if !sawTAS {
		x.bad("C12.K0-once", cOnce, p.Pos(fn.Pos()), "Run no longer takes ownership with an atomic test-and-set of the running flag (CompareAndSwap(false,true) / Swap(true)): a second Run, or a Run racing Close, would run the manager again and close the shutdown channel twice")
	}
	if !sawInner {
		x.bad("C12.K3-order", cOrder, p.Pos(fn.Pos()), "Run no longer runs the inner RunnerManager: the runners never run")
	}
	if !sawCloserGo {
		x.undecide("%s: no goroutine calls an element of the closers (closers restructured)", fname)
	}
	if !sawStopClose {
		x.bad("C12.K4-stopped", cStop, p.Pos(fn.Pos()), "Run never closes the shutdown channel: Close and WaitUntilShutdown never return")
	}
	if !sawStopReg {
		x.bad("C12.K4-closech", cStopR, p.Pos(fn.Pos()), "Run no longer adds to the inner manager a runner that returns when Close is called: Close during Run cannot stop the runners and blocks until they end by themselves")
	}
	cInner := fname + " inner manager result"
	cCloserW := fname + " closer goroutine once/send"
	x.seen("C12.K3-order", cInner, p.Pos(fn.Pos()))
	x.seen("C12.K3-order", cCloserW, p.Pos(fn.Pos()))
	for _, w := range cache {
		if w == nil {
			continue
		}
		pos := p.Pos(w.Fn.Pos())
		if w.Unknown != "" {
			x.undecide("%s: %s", w.Name, w.Unknown)
			continue
		}
		construct := cCloserW
		if w.Kind == wkInner {
			construct = cInner
		} else if w.Tasks == 0 {
			x.undecide("goroutine %s does not call an element of the closers", w.Name)
			continue
		}
		for msg := range w.Problems {
			x.bad("C12.K3-order", construct, pos, w.Name+": "+msg)
		}
	}
}

// innerStart: checks made at the point where the inner manager is started.
func (x *c12) innerStart(st *xState, in ssa.Instruction, m int, bStopReg, bOwn uint64, cOnce, cStopR string) {
	if m >= 1 && st.Client&bStopReg == 0 {
		x.bad("C12.K4-closech", cStopR, x.pos(in), fmt.Sprintf("with %d runner(s) the inner manager is started at %s without a runner that returns when Close is called having been registered: Close during Run does not stop the runners (it blocks until they end by themselves)", m, x.pos(in)))
	}
	if st.Client&bOwn == 0 {
		x.bad("C12.K0-once", cOnce, x.pos(in), "the inner manager is run at "+x.pos(in)+" on a path on which this call's test-and-set of running did not succeed")
	}
}

// checkLocking: writes of the closers under the lock; AddCloser decides under the lock.
func (x *c12) checkLocking() {
	r, p := x.r, x.p
	// writes of the closers: inside AddCloser's call tree the path exploration
	// below decides (the lock must be held on every path reaching the write);
	// anywhere else the lockset engine decides.
	addTree := x.tree(x.cmAddCloser)
	cW := FuncName(p, x.cmAddCloser) + " write closers"
	x.seen("C12.K3-lock", cW, p.Pos(x.cmAddCloser.Pos()))
	for _, fn := range p.FuncsOfPkg("concurrency") {
		if addTree[fn] {
			continue
		}
		for _, a := range FieldAccesses(fn, func(id FieldID) bool { return id == x.cmClosers }) {
			if a.Kind != AccWrite || a.Fresh {
				continue
			}
			r.Check(x.e.At(a.Instr)[x.lockID] == ModeW, "C12.K3-lock", FuncName(p, fn)+" write closers", x.pos(a.Instr),
				"closers written under the inner manager's lock",
				"the closers are written without the inner manager's lock: Run's snapshot of the closers (taken under that lock) can miss or tear a concurrent registration")
		}
	}
	x.flagUnderLock(x.cmAddCloser, "C12.K3-lock", x.cmClosing, x.cmClosers, x.rmLock, x.noInline,
		"Run sets closing and reads the closers inside one section of the inner manager's lock that lasts until Run returns; an AddCloser that tested closing before that section and acquires the lock after it appends a closer that is never invoked, yet returns nil")
}

// flagUnderLock explores fn: every store to field `data` must be preceded, on
// every path, by a branch on flag.Load()==false whose Load was executed with
// `lock` held, the lock not having been released since.
func (x *c12) flagUnderLock(fn *ssa.Function, rule string, flag, data, lock FieldID, noInline func(*ssa.Function) bool, why string) {
	p := x.p
	construct := FuncName(p, fn) + " " + "closing tested under lock"
	if flag.Field != x.cmClosing.Field || fn != x.cmAddCloser {
		construct = FuncName(p, fn) + " flag tested under lock"
	}
	x.seen(rule, construct, p.Pos(fn.Pos()))
	const (
		bLocked   = 1 << 0
		bLoadLock = 1 << 1 // most recent Load of the flag was made under the lock, not released since
		bUnset    = 1 << 2 // …and was seen false
	)
	nW := 0
	cl := &xClient{ParamLen: 2, NoInline: func(f *ssa.Function) bool { return noInline != nil && noInline(f) && f != fn }}
	cl.OnInstr = func(st *xState, in ssa.Instruction, replay bool) bool {
		if ci, ok := in.(ssa.CallInstruction); ok {
			if _, isDefer := in.(*ssa.Defer); !isDefer || replay {
				switch x.lockOpOf(st, ci, lock) {
				case 1:
					st.Client |= bLocked
				case -1:
					st.Client &^= bLocked | bLoadLock | bUnset
				}
			}
		}
		if call, ok := in.(*ssa.Call); ok {
			if _, isLoad := x.flagCall(st.fr, call, flag, "Load"); isLoad {
				st.Client &^= bLoadLock | bUnset
				if st.Client&bLocked != 0 {
					st.Client |= bLoadLock
				}
			}
		}
		if s, ok := in.(*ssa.Store); ok {
			if fa, ok := s.Addr.(*ssa.FieldAddr); ok && fieldIDOfAddr(fa) == data {
				nW++
				if st.Client&bLocked == 0 && fn == x.cmAddCloser {
					x.bad(rule, FuncName(p, fn)+" write closers", x.pos(in), "the closers are written at "+x.pos(in)+" on a path that does not hold the inner manager's lock: Run's snapshot of the closers (taken under that lock) can miss or tear a concurrent registration")
				}
				if st.Client&bUnset == 0 || st.Client&bLocked == 0 {
					x.bad(rule, construct, x.pos(in), FuncName(p, fn)+" writes "+data.Field+" at "+x.pos(in)+" on a path on which it has not observed "+flag.Field+" == false inside the same section of the lock. "+why)
				}
			}
		}
		return true
	}
	cl.OnBranch = func(st *xState, ifi *ssa.If, cond xVal, truth bool) bool {
		if x.flagUnset(cond, truth, flag) && st.Client&bLoadLock != 0 {
			st.Client |= bUnset
		}
		return true
	}
	ex := newXplorer(p, x.ssaPkg, cl)
	ex.Explore(fn, nil, 0)
	if nW == 0 {
		x.undecide("%s no longer stores to %s", FuncName(p, fn), data.Field)
	}
}

// checkWrappers: every value AddCloser appends to the closers is the
// registered value itself, its bound Close method, or a closure that calls the
// registered value exactly once on every path and returns that call's error.
func (x *c12) checkWrappers() {
	p := x.p
	fn := x.cmAddCloser
	fname := FuncName(p, fn)
	assertedName := func(v ssa.Value) (string, bool) {
		rs := x.throughFields(c12Roots(v, nil), 0)
		if len(rs) == 0 {
			return "", false
		}
		name := ""
		for _, root := range rs {
			switch t := root.(type) {
			case *ssa.Extract:
				ta, ok := t.Tuple.(*ssa.TypeAssert)
				if !ok || t.Index != 0 {
					return "", false
				}
				name = types.TypeString(ta.AssertedType, func(*types.Package) string { return "" })
			case *ssa.TypeAssert:
				name = types.TypeString(t.AssertedType, func(*types.Package) string { return "" })
			default:
				return "", false
			}
		}
		return name, true
	}
	n := 0
	done := map[ssa.Value]bool{}
	classifyVal := func(st *xState, val xVal, in ssa.Instruction) {
		if val.K == xNil {
			return
		}
		if val.K != xAtom || val.V == nil {
			x.undecide("%s: cannot resolve a value appended to the closers at %s", fname, x.pos(in))
			return
		}
		if done[val.V] {
			return
		}
		done[val.V] = true
		n++
		if name, ok := assertedName(val.V); ok {
			x.seen("C12.K3-wrap", fname+" registers "+name, x.pos(in))
			return
		}
		var w *ssa.Function
		mc, _ := val.V.(*ssa.MakeClosure)
		if mc != nil {
			w, _ = mc.Fn.(*ssa.Function)
		} else if f, isFn := val.V.(*ssa.Function); isFn && f.Parent() != nil {
			w = f
		}
		if w == nil || len(w.Blocks) == 0 {
			x.undecide("%s: value appended to the closers at %s is not a closure over the registered value", fname, x.pos(in))
			return
		}
		if mc != nil && w.Synthetic != "" && len(mc.Bindings) == 1 {
			if name, ok := assertedName(mc.Bindings[0]); ok {
				x.seen("C12.K3-wrap", fname+" registers "+name, x.pos(in))
				return
			}
			x.undecide("%s: bound method appended at %s is not a method of the registered value", fname, x.pos(in))
			return
		}
		// explore the wrapper: calls of the captured registered value
		name := ""
		var theCall *ssa.Call
		construct := ""
		probs := map[string]bool{}
		wcl := &xClient{NoInline: x.noInline}
		wcl.OnInstr = func(ws *xState, win ssa.Instruction, replay bool) bool {
			call, ok := win.(*ssa.Call)
			if !ok {
				return true
			}
			switch call.Call.Value.(type) {
			case *ssa.Function, *ssa.Builtin:
				return true
			}
			var target ssa.Value = call.Call.Value
			isReg := false
			for _, root := range ws.Static(ws.Eval(target)) {
				if nm, ok := assertedName(root); ok {
					name, isReg = nm, true
				}
			}
			if !isReg {
				return true
			}
			theCall = call
			if ws.Client >= 2 {
				ws.Client = 2
			} else {
				ws.Client++
			}
			return true
		}
		wcl.OnReturn = func(ws *xState, ret *ssa.Return, res []xVal) {
			if ws.Client != 1 {
				times := map[uint64]string{0: "0", 2: "2 or more"}[ws.Client]
				probs["the wrapper stored in the closers can return at "+x.pos(ret)+" having called the registered closer "+times+" times instead of exactly once"] = true
			}
			if theCall != nil && theCall.Call.Signature().Results().Len() == 0 && len(res) == 1 && res[0].K != xNil {
				probs["the wrapper stored in the closers for a closer without result returns something other than nil at "+x.pos(ret)+": Run and Close report an error no registered closer returned"] = true
			}
			if theCall != nil && theCall.Call.Signature().Results().Len() == 1 && len(res) == 1 && ws.Client == 1 {
				if !(res[0].K == xAtom && res[0].V == ssa.Value(theCall)) {
					probs["the wrapper stored in the closers does not return the registered closer's error (return at "+x.pos(ret)+"): that closer error is missing from the joined result"] = true
				}
			}
		}
		ex := newXplorer(p, x.ssaPkg, wcl)
		ex.Explore(w, nil, 0)
		if theCall == nil {
			x.bad("C12.K3-wrap", fname+" wrapper "+FuncName(p, w), x.pos(in), "the closure appended to the closers never calls the value that was registered: AddCloser returns nil but that closer is never invoked")
			return
		}
		construct = fname + " registers " + name
		x.seen("C12.K3-wrap", construct, x.pos(in))
		for m := range probs {
			x.bad("C12.K3-wrap", construct, x.pos(in), m)
		}
	}
	cl := &xClient{ParamLen: 2, NoInline: func(f *ssa.Function) bool { return x.anchors[f] && f != fn }}
	cl.OnInstr = func(st *xState, in ssa.Instruction, replay bool) bool {
		s, ok := in.(*ssa.Store)
		if !ok {
			return true
		}
		fa, ok := s.Addr.(*ssa.FieldAddr)
		if !ok || fieldIDOfAddr(fa) != x.cmClosers {
			return true
		}
		ev := st.Eval(s.Val)
		if !ev.AppendedOK {
			x.undecide("%s: cannot see the values appended to the closers at %s", fname, x.pos(in))
			return true
		}
		vals := ev.Appended
		for _, v := range vals {
			classifyVal(st, v, in)
		}
		return true
	}
	ex := newXplorer(p, x.ssaPkg, cl)
	ex.Explore(fn, nil, 0)
	if n == 0 {
		x.undecide("%s no longer appends to the closers", fname)
	}
}
