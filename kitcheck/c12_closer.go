package main

// C12: RunnerCloserManager.Run (K3) and locking.

import (
	"go/types"
	"strings"

	"golang.org/x/tools/go/ssa"
)

func (x *c12) isInnerRunCall(call *ssa.Call) bool {
	return callIs(call, x.pkg, "RunnerManager", "Run")
}

func (x *c12) checkCloserRun() {
	r, p := x.r, x.p
	fn := x.cmRun
	fname := FuncName(p, fn)
	ws, ok := x.workers(fn)
	if !ok || len(ws) == 0 {
		return
	}
	// classify the goroutines
	var inner, closers []*c12Worker
	for _, w := range ws {
		isInner, isCloser, sends := false, false, false
		allInstrs(w.Fn, func(in ssa.Instruction) {
			switch v := in.(type) {
			case *ssa.Call:
				if x.isInnerRunCall(v) {
					isInner = true
				} else if !v.Call.IsInvoke() {
					if _, ok := c12ElemOfField(v.Call.Value, w.Bind, x.cmClosers); ok {
						isCloser = true
					}
				}
			case *ssa.Send:
				sends = true
			}
		})
		switch {
		case isInner && !isCloser:
			inner = append(inner, w)
		case isCloser && !isInner:
			closers = append(closers, w)
		default:
			if sends || (isInner && isCloser) {
				r.Undecide("%s: goroutine %s is neither the inner-manager goroutine nor a closer goroutine", fname, w.Name)
				return
			}
		}
	}
	// inner manager: direct calls in Run itself
	var direct []*ssa.Call
	allInstrs(fn, func(in ssa.Instruction) {
		if call, ok := in.(*ssa.Call); ok && x.isInnerRunCall(call) {
			direct = append(direct, call)
		}
	})
	if len(inner)+len(direct) == 0 {
		r.Violation("C12.K3-order", fname+" inner manager", p.Pos(fn.Pos()), "Run no longer runs the inner RunnerManager: the runners never run")
		return
	}
	if len(closers) == 0 {
		r.Undecide("%s: no goroutine calls an element of RunnerCloserManager.closers (closers restructured)", fname)
		return
	}

	// result channel
	var ch *ssa.MakeChan
	chOK := true
	for _, w := range append(append([]*c12Worker{}, inner...), closers...) {
		allInstrs(w.Fn, func(in ssa.Instruction) {
			if s, ok := in.(*ssa.Send); ok {
				mk, _ := c12ChanRoot(s.Chan, w.Bind)
				if mk == nil || mk.Parent() != fn || (ch != nil && mk != ch) {
					chOK = false
					return
				}
				ch = mk
			}
		})
	}
	if !chOK || ch == nil {
		r.Undecide("%s: the goroutines do not report on one channel made in Run", fname)
		return
	}
	isChW := func(w *c12Worker) func(ssa.Value) bool {
		return func(v ssa.Value) bool { mk, _ := c12ChanRoot(v, w.Bind); return mk == ch }
	}
	isChRun := func(v ssa.Value) bool { mk, _ := c12ChanRoot(v, nil); return mk == ch }
	recvs, rok := c12Recvs(x, fn, isChRun)
	if !rok {
		r.Undecide("%s collects results through a select or comma-ok receive", fname)
		return
	}

	var spawns []*ssa.Go
	// inner goroutine(s): Run called once, its result sent once
	for _, w := range inner {
		spawns = append(spawns, w.Go)
		res := c12WorkerFlow(x, w, x.isInnerRunCall, isChW(w), nil)
		probs := append([]string{}, res.Problems...)
		for _, s := range res.Sends {
			if len(res.Tasks) != 1 || !c12OnlyRoot(s.X, w.Bind, res.Tasks[0]) {
				probs = append(probs, "the value sent at "+x.pos(s)+" is not the result of RunnerManager.Run: the runners' error is lost")
			}
		}
		r.Check(len(probs) == 0, "C12.K3-order", w.Name+" inner manager result", x.pos(w.Go),
			"inner manager run once; its result sent once, after it returned", strings.Join(probs, "; "))
	}
	// the points at which the inner manager is known to have returned
	var done []ssa.Instruction
	for _, d := range direct {
		done = append(done, d)
	}
	if len(inner) > 0 {
		for _, rv := range recvs {
			if !c12InAnyCycle(rv.Block()) {
				done = append(done, rv)
			}
		}
	}

	loops := c12Loops(fn)
	for _, w := range closers {
		spawns = append(spawns, w.Go)
		isTask := func(call *ssa.Call) bool {
			if call.Call.IsInvoke() {
				return false
			}
			_, ok := c12ElemOfField(call.Call.Value, w.Bind, x.cmClosers)
			return ok
		}
		res := c12WorkerFlow(x, w, isTask, isChW(w), nil)
		probs := append([]string{}, res.Problems...)
		for _, s := range res.Sends {
			if len(res.Tasks) != 1 || !c12OnlyRoot(s.X, w.Bind, res.Tasks[0]) {
				probs = append(probs, "the value sent at "+x.pos(s)+" is not the closer's own result: a closer error is lost")
			}
		}
		r.Check(len(probs) == 0, "C12.K3-order", w.Name+" closer once/send", x.pos(w.Go),
			"closer called exactly once, its result sent exactly once after it returned", strings.Join(probs, "; "))

		// after the runners
		after := false
		for _, d := range done {
			if instrDominates(d, w.Go) {
				after = true
			}
		}
		r.Check(after, "C12.K3-order", w.Name+" after runners", x.pos(w.Go),
			"the closer goroutines are started only after the inner manager's result was received",
			"the closer goroutine started at "+x.pos(w.Go)+" is not dominated by the receipt of the inner RunnerManager.Run result: closers can run while runners are still running")

		// own element
		why := ""
		l := c12LoopOf(loops, w.Go.Block())
		for _, t := range res.Tasks {
			ias, _ := c12ElemOfField(t.Call.Value, w.Bind, x.cmClosers)
			for _, ia := range ias {
				if l == nil || ia.Index != l.Idx {
					why = "the closer invoked at " + x.pos(t) + " is not closers[i] for the spawn loop's own index: some closer is invoked twice and another never"
				}
			}
		}
		r.Check(why == "", "C12.K3-order", w.Name+" own element", x.pos(w.Go), "goroutine i calls closers[i]", why)
	}

	if len(recvs) == 0 {
		r.Violation("C12.K3-collect", fname+" started==collected", p.Pos(fn.Pos()), "Run never receives the results: it returns before runners/closers have finished")
		return
	}
	c12CheckCounts(x, fn, "C12.K3-collect", fname+" started==collected", spawns, recvs)

	var allProbs []string
	var joins []*ssa.Call
	for _, rv := range recvs {
		probs, js := c12Collector(x, fn, rv, false, false)
		allProbs = append(allProbs, probs...)
		joins = append(joins, js...)
	}
	r.Check(len(allProbs) == 0, "C12.K3-collect", fname+" collector", x.pos(recvs[0]),
		"every collected result (runners and closers) is stored into the slice given to errors.Join", strings.Join(allProbs, "; "))
	why := c12JoinReturned(x, fn, spawns, joins, x.cmRetErr)
	r.Check(why == "", "C12.K3-collect", fname+" returns Join", p.Pos(fn.Pos()), "Run returns errors.Join of all collected results (through retErr)", why)

	// K3-lock part 1: closers is read under the lock, and closing is set before
	// that lock section ends
	x.checkSnapshot(loops, closers)
}

// checkSnapshot: every load of closers that bounds a spawn/collection loop is
// made with mngr.lock held, and on no path is mngr.lock released after such a
// load while closing.Store(true) has not been executed yet. (Setting closing
// before taking the lock is equally safe, given that AddCloser tests closing
// and appends inside one section of the same lock.)
func (x *c12) checkSnapshot(loops []*c12Loop, closers []*c12Worker) {
	r, p := x.r, x.p
	fn := x.cmRun
	fname := FuncName(p, fn)
	construct := fname + " closers snapshot under lock"
	reads := map[ssa.Instruction]bool{}
	badRead := ""
	for _, l := range loops {
		if l.LenField != x.cmClosers {
			continue
		}
		if in, ok := l.LenOf.(ssa.Instruction); ok {
			reads[in] = true
			if x.e.At(in)[x.lockID] != ModeW {
				badRead = x.pos(in)
			}
		}
	}
	if len(reads) == 0 {
		r.Undecide("%s: no counted loop over RunnerCloserManager.closers", fname)
		return
	}
	const (
		bStored = 1 << 0
		bRead   = 1 << 1
		bReg    = 1 << 2
	)
	probs := map[string]bool{}
	isUnlock := func(ci ssa.CallInstruction) bool {
		id, kind, ok := x.e.lockOp(ci)
		return ok && id == x.lockID && kind == opUnlock
	}
	release := func(st uint64, where string) {
		c12ForStates(st, func(s int) {
			if s&bRead != 0 && s&bStored == 0 {
				probs["mngr.lock is released ("+where+") after closers was snapshotted while closing.Store(true) has not been executed: an AddCloser taking the lock at that moment still sees closing == false and registers a closer that is never invoked"] = true
			}
		})
	}
	fl := &c12Flow{Fn: fn, Entry: 1,
		Instr: func(in ssa.Instruction, replay bool, st uint64) uint64 {
			if reads[in] {
				return mapStates(st, func(s int) int { return s | bRead })
			}
			switch v := in.(type) {
			case *ssa.Call:
				if callIs(v, "sync/atomic", "Bool", "Store") && len(v.Call.Args) == 2 && c12IsConstBool(v.Call.Args[1], true) {
					if id, _, ok := fieldOfValue(v.Call.Args[0]); ok && id == x.cmClosing {
						return mapStates(st, func(s int) int { return s | bStored })
					}
				}
				if isUnlock(v) {
					release(st, x.pos(in))
				}
			case *ssa.Defer:
				if isUnlock(v) {
					if !replay {
						return mapStates(st, func(s int) int { return s | bReg })
					}
					var sub uint64
					c12ForStates(st, func(s int) {
						if s&bReg != 0 {
							sub |= 1 << uint(s)
						}
					})
					release(sub, "deferred unlock registered at "+x.pos(in))
				}
			}
			return st
		}}
	fl.Run()
	// closing must be set at all (on every return that follows a closer spawn)
	fl.AtReturns(func(ret *ssa.Return, st uint64) {
		reach := false
		for _, w := range closers {
			if c12Reaches(w.Go.Block(), ret.Block()) {
				reach = true
			}
		}
		if !reach {
			return
		}
		c12ForStates(st, func(s int) {
			if s&bStored == 0 {
				probs["Run can return at "+x.pos(ret)+" without ever setting closing: AddCloser keeps accepting closers that are never invoked"] = true
			}
		})
	})
	msg := c12Join(probs)
	if badRead != "" {
		msg = "closers is read at " + badRead + " (bound of the spawn/collection loop) without holding mngr.lock: an AddCloser during the run can change it between the two loops (a registered closer is not invoked, or Run waits for a result nobody sends)"
	}
	r.Check(msg == "", "C12.K3-lock", construct, p.Pos(fn.Pos()), "closers is read under mngr.lock and closing is set before that lock section ends", msg)
}

// checkLocking: writes of closers under the lock; AddCloser decides under the lock.
func (x *c12) checkLocking() {
	r, p := x.r, x.p
	for _, fn := range p.FuncsOfPkg("concurrency") {
		for _, a := range FieldAccesses(fn, func(id FieldID) bool { return id == x.cmClosers }) {
			if a.Kind != AccWrite || a.Fresh {
				continue
			}
			r.Check(x.e.At(a.Instr)[x.lockID] == ModeW, "C12.K3-lock", FuncName(p, fn)+" write closers", x.pos(a.Instr),
				"closers written under mngr.lock",
				"closers is written without mngr.lock: Run's snapshot of the closers (taken under that lock) can miss or tear a concurrent registration")
		}
	}
	// AddCloser: closing tested under the lock on the way to every append
	c12CheckFlagUnderLock(x, x.cmAddCloser, "C12.K3-lock", x.cmClosing, x.cmClosers,
		"Run sets closing and snapshots closers inside one mngr.lock section that lasts until Run returns; an AddCloser that tested closing before that section and acquires the lock after it appends a closer that is never invoked, yet returns nil")
}

// c12CheckFlagUnderLock: in fn every write of `data` is dominated by an edge on
// which flag.Load() returned false, the Load having been made with x.lockID
// held in write mode (the lock section continues to the write: the write
// itself must hold the lock, which the guarded-write rule checks).
func c12CheckFlagUnderLock(x *c12, fn *ssa.Function, rule string, flag, data FieldID, why string) {
	r, p := x.r, x.p
	construct := FuncName(p, fn) + " " + flag.Field + " tested under lock"
	var lockedUnset []c12Edge
	for _, e := range c12UnsetEdges(fn, flag) {
		if x.e.At(e.Call)[x.lockID] == ModeW {
			lockedUnset = append(lockedUnset, e)
		}
	}
	n, bad := 0, ""
	var badPos ssa.Instruction
	for _, a := range FieldAccesses(fn, func(id FieldID) bool { return id == data }) {
		if a.Kind != AccWrite {
			continue
		}
		n++
		ok := false
		for _, e := range lockedUnset {
			// same critical section: the lock is held at the write too, and was
			// not released in between (no unlock of it is reachable after the
			// Load and before the write other than through re-acquisition)
			if e.Dominates(a.Instr.Block()) && x.e.At(a.Instr)[x.lockID] == ModeW && !c12UnlockBetween(x, e.Call, a.Instr) {
				ok = true
			}
		}
		if !ok {
			badPos = a.Instr
			bad = FuncName(p, fn) + " writes " + data.Field + " at " + x.pos(a.Instr) + " without having observed " + flag.Field + " == false inside the same section of the lock. " + why
		}
	}
	if n == 0 {
		r.Undecide("%s no longer stores to %s", FuncName(p, fn), data.Field)
		return
	}
	pos := p.Pos(fn.Pos())
	if badPos != nil {
		pos = x.pos(badPos)
	}
	r.Check(bad == "", rule, construct, pos, "every write is dominated by a "+flag.Field+".Load()==false made under the lock, in the same lock section", bad)
}

// c12UnlockBetween: some explicit (non-deferred) unlock of x.lockID lies on a
// path from a to b.
func c12UnlockBetween(x *c12, a, b ssa.Instruction) bool {
	found := false
	allInstrs(a.Parent(), func(in ssa.Instruction) {
		call, ok := in.(*ssa.Call)
		if !ok {
			return
		}
		id, kind, ok := x.e.lockOp(call)
		if !ok || id != x.lockID || kind != opUnlock {
			return
		}
		afterA := (in.Block() == a.Block() && instrIndex(a) < instrIndex(in)) || (in.Block() != a.Block() && c12Reaches(a.Block(), in.Block()))
		beforeB := (in.Block() == b.Block() && instrIndex(in) < instrIndex(b)) || (in.Block() != b.Block() && c12Reaches(in.Block(), b.Block()))
		if afterA && beforeB {
			found = true
		}
	})
	return found
}

// checkWrappers: every value AddCloser appends to closers is the registered
// value itself, its bound Close method, or a closure that calls the
// registered value exactly once on every path and returns that call's error
// (when it has one).
func (x *c12) checkWrappers() {
	r, p := x.r, x.p
	fn := x.cmAddCloser
	fname := FuncName(p, fn)
	isAsserted := func(v ssa.Value, bind c12Bind) (string, bool) {
		rs := c12Roots(v, bind)
		if len(rs) == 0 {
			return "", false
		}
		name := ""
		for _, root := range rs {
			switch t := root.(type) {
			case *ssa.Extract:
				ta, ok := t.Tuple.(*ssa.TypeAssert)
				if !ok || t.Index != 0 {
					return "", false
				}
				name = types.TypeString(ta.AssertedType, func(*types.Package) string { return "" })
			case *ssa.TypeAssert:
				name = types.TypeString(t.AssertedType, func(*types.Package) string { return "" })
			default:
				return "", false
			}
		}
		return name, true
	}
	n := 0
	allInstrs(fn, func(in ssa.Instruction) {
		st, ok := in.(*ssa.Store)
		if !ok {
			return
		}
		fa, ok := st.Addr.(*ssa.FieldAddr)
		if !ok || fieldIDOfAddr(fa) != x.cmClosers {
			return
		}
		app, ok := st.Val.(*ssa.Call)
		if !ok || builtinName(app) != "append" || len(app.Call.Args) != 2 {
			r.Undecide("%s stores to closers something other than append(closers, …) at %s", fname, x.pos(in))
			return
		}
		vals := c12VarargVals(app.Call.Args[1])
		if len(vals) == 0 {
			r.Undecide("%s: cannot see the values appended to closers at %s", fname, x.pos(in))
			return
		}
		for _, v := range vals {
			n++
			if name, ok := isAsserted(v, nil); ok {
				r.OK("C12.K3-wrap", fname+" registers "+name, x.pos(in), "the registered function itself is stored")
				continue
			}
			var w *ssa.Function
			mc, _ := v.(*ssa.MakeClosure)
			if mc != nil {
				w, _ = mc.Fn.(*ssa.Function)
			} else if f, isFn := v.(*ssa.Function); isFn && f.Parent() == fn {
				w = f // a function literal that captures nothing
			}
			if w == nil || len(w.Blocks) == 0 {
				r.Undecide("%s: value appended to closers at %s is not a closure over the registered value", fname, x.pos(in))
				continue
			}
			if mc != nil && w.Synthetic != "" && len(mc.Bindings) == 1 { // bound method wrapper v.Close
				if name, ok := isAsserted(mc.Bindings[0], nil); ok {
					r.OK("C12.K3-wrap", fname+" registers "+name, x.pos(in), "the bound method of the registered closer is stored")
					continue
				}
				r.Undecide("%s: bound method appended at %s is not a method of the registered value", fname, x.pos(in))
				continue
			}
			// closure: calls of the captured registered value
			name := ""
			isReg := func(call *ssa.Call) bool {
				if call.Call.IsInvoke() {
					if nm, ok := isAsserted(call.Call.Value, nil); ok {
						name = nm
						return true
					}
					return false
				}
				if _, isFn := call.Call.Value.(*ssa.Function); isFn {
					return false
				}
				if _, isB := call.Call.Value.(*ssa.Builtin); isB {
					return false
				}
				if nm, ok := isAsserted(call.Call.Value, nil); ok {
					name = nm
					return true
				}
				return false
			}
			var calls []*ssa.Call
			fl := &c12Flow{Fn: w, Entry: 1,
				Instr: func(in ssa.Instruction, replay bool, st uint64) uint64 {
					if call, ok := in.(*ssa.Call); ok && isReg(call) {
						seen := false
						for _, c := range calls {
							if c == call {
								seen = true
							}
						}
						if !seen {
							calls = append(calls, call)
						}
						return mapStates(st, func(s int) int {
							if s >= 2 {
								return 2
							}
							return s + 1
						})
					}
					return st
				}}
			fl.Run()
			probs := map[string]bool{}
			fl.AtReturns(func(ret *ssa.Return, st uint64) {
				if st != 1<<1 {
					probs["the wrapper stored in closers can return at "+x.pos(ret)+" having called the registered closer "+c12SetString(st)+" times instead of exactly once"] = true
				}
				if len(calls) == 1 && calls[0].Call.Signature().Results().Len() == 1 && len(ret.Results) == 1 {
					for _, root := range c12ReturnRoots(ret, 0) {
						if root != ssa.Value(calls[0]) {
							probs["the wrapper stored in closers does not return the registered closer's error (return at "+x.pos(ret)+"): that closer error is missing from the joined result"] = true
						}
					}
				}
			})
			if len(calls) == 0 {
				r.Violation("C12.K3-wrap", fname+" wrapper at "+FuncName(p, w), x.pos(in), "the closure appended to closers never calls the value that was registered: AddCloser returns nil but that closer is never invoked")
				continue
			}
			r.Check(len(probs) == 0, "C12.K3-wrap", fname+" registers "+name, x.pos(in), "the wrapper calls the registered closer exactly once and returns its error", c12Join(probs))
		}
	})
	if n == 0 {
		r.Undecide("%s no longer appends to closers", fname)
	}
}
