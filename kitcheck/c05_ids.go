package main

// C05‑S10: entry IDs. Remove(id) must remove exactly the entry that was added
// under that id ("whatever other entries are added or removed meanwhile"), so
// two live entries must never share an ID. The IDs come from a counter field
// of Cron (role: the field of Entry.ID's type whose value reaches Entry.ID).
// Decided: (a) every access to the counter happens with the mutex held;
// (b) in every critical section, and on every path, the counter is advanced
// if and only if a value is taken from it for an ID (take and advance are one
// atomic step, in either order).

import (
	"go/constant"
	"go/token"
	"go/types"

	"golang.org/x/tools/go/ssa"
)

// idCounter: the field of Cron (or of its sub-structs) whose type is Entry.ID's type.
func (a *c05) idCounter() FieldID {
	cronT := a.p.Named("cron", "Cron")
	cst, _ := cronT.Underlying().(*types.Struct)
	if cst == nil || a.idType == nil {
		return FieldID{}
	}
	cands := c05CollectFields(cst, a.pkg+".Cron", cronT.Obj().Pkg(), 0)
	return c05PickField(cands, "nextID", func(f *types.Var) bool { return types.Identical(f.Type(), a.idType) })
}

func (a *c05) checkIDs() {
	r := a.r
	ctr := a.idCounter()
	if ctr.Field == "" {
		r.Undecide("C05.S10: no field of cron.Cron has Entry.ID's type: how entry IDs are allocated is not understood")
		return
	}
	isCtrLoad := func(v ssa.Value) bool {
		_, ok := c05LoadOf(v, ctr)
		return ok
	}
	// advance: store counter = counter (+|-) k, k != 0, or counter = <value of such an expression>
	isAdvanceVal := func(v ssa.Value) bool {
		b, ok := v.(*ssa.BinOp)
		if !ok || (b.Op != token.ADD && b.Op != token.SUB) {
			return false
		}
		x, k := b.X, b.Y
		if _, isC := x.(*ssa.Const); isC && b.Op == token.ADD {
			x, k = k, x
		}
		kc, ok := k.(*ssa.Const)
		return ok && kc.Value != nil && constant.Sign(kc.Value) != 0 && isCtrLoad(x)
	}
	advances := map[ssa.Instruction]bool{}
	takes := map[ssa.Instruction]bool{}
	badStore := ""
	// (a) guard + classification of stores
	nAcc, unguarded, firstPos := 0, []string{}, "-"
	for _, fn := range a.funcs {
		allInstrs(fn, func(in ssa.Instruction) {
			var addr ssa.Value
			what := ""
			switch x := in.(type) {
			case *ssa.Store:
				addr, what = x.Addr, "write"
			case *ssa.UnOp:
				if x.Op == token.MUL {
					addr, what = x.X, "read"
				}
			}
			if addr == nil {
				return
			}
			X, ok := c05FieldAddr(addr, ctr)
			if !ok || isFreshBase(X) {
				return
			}
			if st, isSt := in.(*ssa.Store); isSt {
				if isAdvanceVal(st.Val) {
					advances[in] = true
				} else {
					badStore = a.pos(in)
				}
			}
			okAll, _, reached := a.ctxAll(in, func(g int) bool { return c05Rv(g) != c05rvUnk }, a.describeRun(in))
			if !reached {
				return
			}
			nAcc++
			if !okAll {
				if len(unguarded) == 0 {
					firstPos = a.pos(in)
				}
				unguarded = append(unguarded, a.name(fn)+": "+what+" at "+a.pos(in))
			}
		})
	}
	if nAcc == 0 {
		r.Undecide("C05.S10: the ID counter %s is never accessed on a reachable path", ctr.String())
		return
	}
	if len(unguarded) > 0 {
		r.Violation("C05.S10-id-unique", "the ID counter is accessed only under the mutex", firstPos,
			"the counter entry IDs are allocated from is read or advanced without the Cron's mutex: concurrent Schedule/AddFunc calls race on it, two live entries can get the same EntryID, and Remove(id) of one removes the other (whose job is then never started again)", unguarded...)
	} else {
		r.OK("C05.S10-id-unique", "the ID counter is accessed only under the mutex", "-", "every read and write of the counter happens with the mutex held")
	}
	// (b) values reaching Entry.ID: which counter reads (or advance expressions) are "takes"
	unknownID := ""
	var chase func(v ssa.Value, depth int)
	seen := map[ssa.Value]bool{}
	chase = func(v ssa.Value, depth int) {
		if seen[v] || depth > 8 {
			return
		}
		seen[v] = true
		switch x := v.(type) {
		case *ssa.UnOp:
			if x.Op == token.MUL {
				if isCtrLoad(v) {
					takes[x] = true
					return
				}
				if vals := c05LocStores(x.X); len(vals) > 0 {
					for _, sv := range vals {
						chase(sv, depth+1)
					}
					return
				}
				if vals := c05CapturedStores(x.X, 0); len(vals) > 0 {
					for _, sv := range vals {
						chase(sv, depth+1)
					}
					return
				}
			}
		case *ssa.BinOp:
			if isAdvanceVal(v) {
				takes[x] = true // id := counter + 1 (stored back as the advance)
				return
			}
		case *ssa.Phi:
			for _, ed := range x.Edges {
				chase(ed, depth+1)
			}
			return
		case *ssa.Parameter:
			if acts := a.actualsOf(x); len(acts) > 0 {
				for _, av := range acts {
					chase(av, depth+1)
				}
				return
			}
		case *ssa.Call:
			if rets := a.returnsOf(x, 0); len(rets) > 0 && x.Call.Signature().Results().Len() == 1 {
				for _, rv := range rets {
					chase(rv, depth+1)
				}
				return
			}
		case *ssa.Extract:
			if call, ok := x.Tuple.(*ssa.Call); ok {
				if rets := a.returnsOf(call, x.Index); len(rets) > 0 {
					for _, rv := range rets {
						chase(rv, depth+1)
					}
					return
				}
			}
		case *ssa.ChangeType:
			chase(x.X, depth+1)
			return
		case *ssa.Convert:
			chase(x.X, depth+1)
			return
		}
		unknownID = v.String()
	}
	nID := 0
	for _, fn := range a.funcs {
		allInstrs(fn, func(in ssa.Instruction) {
			st, ok := in.(*ssa.Store)
			if !ok {
				return
			}
			if _, ok := c05FieldAddr(st.Addr, a.fID); !ok {
				return
			}
			if _, isCopy := st.Val.(*ssa.UnOp); isCopy {
				if _, fromEntry := c05LoadOf(st.Val, a.fID); fromEntry {
					return // copying an existing entry's ID (snapshot)
				}
			}
			nID++
			chase(st.Val, 0)
		})
	}
	construct := "an ID is taken from the counter and the counter advanced in one critical section"
	if nID == 0 || len(takes) == 0 {
		r.Undecide("C05.S10: no store to Entry.ID takes its value from the counter %s (%s); ID allocation not understood", ctr.String(), unknownID)
		return
	}
	if badStore != "" {
		r.Violation("C05.S10-id-unique", construct, badStore, "the ID counter is assigned something other than 'itself plus a non-zero constant': IDs can repeat, two live entries share an EntryID and Remove(id) of one removes the other")
		return
	}
	const advanced, taken = 1, 2
	f := &c05Flow{a: a, G: 4}
	f.Tracked = func(v ssa.Value) bool { return a.isRunningLoad(v) }
	releasedHalf := ""
	f.Step = func(in ssa.Instruction, g int) (int, bool) {
		if ci, ok := in.(ssa.CallInstruction); ok {
			if id, kind, ok := a.e.lockOp(ci); ok && id == a.lockID {
				// the critical section ends here (explicit or deferred unlock)
				if (kind == opUnlock || kind == opRUnlock) && g == taken {
					releasedHalf = a.pos(in)
				}
				return 0, true
			}
		}
		if advances[in] {
			g |= advanced
		}
		if takes[in] {
			g |= taken
		}
		return g, false
	}
	f.Run(nil)
	why := ""
	half := func(in ssa.Instruction) {
		for _, g := range f.Globals(f.At(in)) {
			switch g {
			case advanced:
				// advancing without taking wastes an ID: harmless
			case taken:
				why = "on a path ending at " + a.pos(in) + " an ID is taken from the counter but the counter is not advanced in the same critical section: the next Schedule hands out the same ID"
			}
		}
	}
	takeFns := map[*ssa.Function]bool{}
	for in := range takes {
		takeFns[in.Parent()] = true
	}
	reachesTake := func(fn *ssa.Function) bool {
		for h := range a.reachFrom(fn, false) {
			if takeFns[h] {
				return true
			}
		}
		return false
	}
	for _, fn := range a.funcs {
		allInstrs(fn, func(in ssa.Instruction) {
			switch x := in.(type) {
			case *ssa.Call:
				if id, kind, ok := a.e.lockOp(x); ok && id == a.lockID && (kind == opUnlock || kind == opRUnlock) {
					half(in)
				}
			case *ssa.Return:
				if isExportedFunc(fn) && reachesTake(fn) {
					half(in)
				}
			}
		})
	}
	if why == "" && releasedHalf != "" {
		why = "the mutex is released (unlock registered/called at " + releasedHalf + ") after an ID was taken from the counter but before the counter was advanced: the next Schedule hands out the same ID"
	}
	r.Check(why == "", "C05.S10-id-unique", construct, "-",
		"whenever a value is taken from the counter for an entry's ID the counter is advanced by a non-zero constant before the mutex is released",
		why+": two live entries can share an EntryID, and Remove(id) of one removes the other (whose job is then never started again)")
}
