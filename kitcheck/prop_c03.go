package main

// C03 — crypto: every listed algorithm is dispatched, routed to the primitive
// its name stands for, accepts right-sized inputs and rejects wrong-sized /
// unauthenticated ones with the package sentinel; no input size reaches a
// panicking standard-library precondition.
//
// All rules are evaluated with the abstract interpreter in c03sym.go: the SSA
// of the entry points is walked under scenarios (algorithm name, key / nonce /
// tag / message lengths, "the authenticating primitive reports failure").
// Nothing of dapr/kit is executed.

import (
	"fmt"
	"go/constant"
	"go/types"
	"os"
	"sort"
	"strings"

	"golang.org/x/tools/go/ssa"
)

func init() { register("C03", checkC03) }

const (
	c03RDispatch = "C03.A1-dispatch"
	c03RRoute    = "C03.A1-route"
	c03RAccept   = "C03.S-accept"
	c03RAlias    = "C03.O-alias"
	c03RKey      = "C03.S-key"
	c03RNonce    = "C03.S-nonce"
	c03RTag      = "C03.S-tag"
	c03RLength   = "C03.S-length"
	c03RUnsup    = "C03.S-unsupported"
	c03RReject   = "C03.T-reject"
	c03RAead     = "C03.AEAD-cbc-hmac"
	c03RKW       = "C03.KW-rfc3394"
	c03RPad      = "C03.PAD-pkcs7"
)

// c03SymSpec is the checker-side statement of what a symmetric algorithm name
// stands for (RFC 7518 §4.4/§5.2/§5.3, RFC 3394, RFC 8439, draft XChaCha).
type c03SymSpec struct {
	key, nonce, tag int64 // sizes in bytes; nonce/tag -1 = not used
	ptMult, ctMult  int64 // required multiple of the message length (0 = any)
	ptSentinel      bool  // wrong plaintext length must yield ErrInvalidPlaintextLength (else: any error)
	auth            bool  // authenticated: a failing open/unwrap must surface as an error
	enc, dec        []string
}

type c03Env struct {
	c     *Ctx
	p     *Prog
	r     *Report
	mod   string
	sent  map[string]string // short name -> global id
	execs int
}

func (e *c03Env) sentinel(short string) string { return e.mod + "/crypto." + short }

func checkC03(c *Ctx) {
	r, p := c.R, c.P
	e := &c03Env{c: c, p: p, r: r, mod: p.ModPath}
	r.Explanation = "Decides, by path-sensitive abstract interpretation of the SSA of the crypto packages under finite scenarios (algorithm name x key/nonce/tag/message lengths x 'the authenticating primitive fails'; never by running them): " +
		"(A1-dispatch) every name listed by SupportedSymmetric/Asymmetric/SignatureAlgorithms reaches, in both directions of its family dispatcher and of the generic Encrypt/Decrypt, a return that can carry output; " +
		"(A1-route) on that path exactly the primitives the name stands for are reached (rsa.VerifyPSS with the salt length left to auto-detection: nil options or SaltLength 0) (CBC with/without PKCS#7, GCM, the RFC 7518 CBC-HMAC constructor of the right strength, RFC 3394 wrap, ChaCha20/XChaCha20-Poly1305, RSA PKCS#1 v1.5 / OAEP / PSS with the SHA variant in the name, ECDSA, Ed25519), matching in both directions, and they receive the caller's nonce, message(+tag), associated data / OAEP label, digest and signature (roles told apart by length); " +
		"(S-accept) right-sized inputs are not rejected by a size guard, reach no panicking precondition of crypto/cipher, and the returned ciphertext/tag have the lengths the decrypting side insists on; " +
		"(O-alias) no slice returned by EncryptSymmetric/DecryptSymmetric shares its backing store with a caller-supplied []byte argument (AEAD Seal/Open results are taken to share dst's storage); " +
		"(S-key/S-nonce/S-tag/S-length/S-unsupported) a key, nonce, tag, plaintext/ciphertext length or algorithm name of the wrong size/kind makes every path return the package sentinel without output and without reaching a panicking precondition; the three ECDSA names are distinguishable on their path, and with an ECDSA key whose curve is known (P-224/256/384/521) ES256/ES384/ES512 accept exactly the key on P-256/P-384/P-521 and refuse the others with ErrKeyTypeMismatch (decided when the code consults the curve through elliptic.Curve.Params / elliptic.P*() / the jwk Crv() accessor, otherwise UNDECIDED); " +
		"(T-reject) if the authenticating/verifying primitive (AEAD.Open, hmac.Equal, key-unwrap integrity check, rsa.Verify*/Decrypt*, ecdsa/ed25519 verify) reports failure no path returns success; " +
		"(AEAD-cbc-hmac) the objects returned by aescbcaead's exported constructors (found by interpreting the constructors; their type, fields and helper methods are resolved through the dynamic type, no unexported name is used) reject wrong key sizes; their Open rejects wrong nonce sizes, partial blocks, short inputs and tag mismatches with an error instead of panicking and compares all tagSize bytes of the received and of the computed tag (16/24/32); Seal/Open key AES with ENC_KEY_LEN bytes, HMAC with MAC_KEY_LEN bytes and the RFC 7518 hash and feed the MAC with A || IV || E || AL (AL = bit length of A, always present) for empty, nil and non-empty associated data; NonceSize/Overhead report 16 / the tag size; " +
		"(KW-rfc3394) aeskw.Wrap/Unwrap reject inputs that are not whole 64-bit blocks / too short with an error instead of panicking or silently ignoring bytes, fail closed on the IV check, which compares all 8 bytes of A, return len+8 / len-8 bytes, and in both the loop-variant step counter (followed into same-package helpers, closures and captured variables) reaches a big-endian byte encoding (binary.BigEndian.PutUintN/AppendUintN or single-byte stores of t>>k) with at least its low 32 bits — a narrowing of t to 8/16 bits or a little-endian encoding is reported, shapes the bit-flow analysis cannot classify are UNDECIDED; " +
		"(PAD-pkcs7) PadPKCS7 returns len+16-len%16 bytes; UnpadPKCS7, interpreted on a buffer of symbolic bytes whose last byte is a chosen pad length P, rejects P=0 and P>size, accepts 1<=P<=size stripping exactly P bytes, and on every accepting path has compared each padding byte with P (==/!=, bytes.Equal, hmac.Equal, subtle.ConstantTimeCompare, bytes.HasSuffix/HasPrefix against a run of P) without constraining any other byte; a padding byte that is read but flows into arithmetic the interpreter does not model is UNDECIDED. " +
		"How code is followed: static calls, closures with their captured variables, bound methods, function values whose target is known on the path (also when taken from local or package-level slices/maps, whose contents are those the package initialiser gives them), calls through interfaces declared in the module when the dynamic type is known or the module has a single implementation, generic helpers with the type arguments of the call site, functions run through sync.Once.Do, deferred calls at every exit, named results; crypto.Signer/crypto.Decrypter method forms, NewGCMWithNonceSize(12)/NewGCMWithTagSize(16), sha256.New/sha512.New384/sha512.New are treated as the package-level primitives they are documented to equal; a sentinel wrapped with fmt.Errorf(%w) counts as that sentinel. A call whose target cannot be resolved, a call through a module interface of unknown dynamic type or a go statement makes the path imprecise (UNDECIDED, never VIOLATION); in 'primitive fails' scenarios an accepting path that goes through no primitive the checker can make fail is UNDECIDED; 'no path returns output' is only concluded when no branch of an undecided test was left unexplored (consecutive-take limit) and the step/path budget was not exhausted, otherwise UNDECIDED. " +
		"NOT decided: that decryption inverts encryption byte for byte, interoperability of the produced bytes beyond primitive/parameter/layout selection (trusted: Go standard library, x/crypto; the RFC 3394 round structure beyond the counter encoding (number of rounds, that the encoded counter is XORed into A at the right byte positions), the PKCS#7 pad byte values, which half of the CBC-HMAC key is the MAC key are content-level facts pinned only by the repository's vector tests), that every single-byte mutation is rejected (follows from the primitives' authentication, which is assumed), PSS salt options, constant-time behaviour, RSA key-size handling inside the standard library, the Ed25519 curve check beyond key kind."
	r.Assumptions = append(r.Assumptions,
		"documented contracts of the standard library: aes.NewCipher accepts exactly 16/24/32-byte keys; cipher.NewGCM on an AES block never fails and has a 12-byte nonce and 16-byte tag; NewCBCEncrypter/Decrypter panic unless len(iv)==16; BlockMode.CryptBlocks panics on partial blocks or a short destination; AEAD.Seal/Open panic on a nonce of the wrong length; chacha20poly1305.New/NewX accept exactly 32-byte keys; crypto.Hash(0).New panics",
		"package-level error variables (the sentinels) are non-nil and never reassigned",
		"loops whose trip count does not follow from the scenario are explored for 0, 1 and 2 iterations",
		"a package-level variable that no function other than its package initialiser stores to (and whose address is not passed to a call) has the value the initialiser gives it",
		"(*rsa.PrivateKey).Decrypt/Sign, (*ecdsa.PrivateKey).Sign and ed25519.PrivateKey.Sign behave as the documented package-level functions they delegate to; errors.Is sees through fmt.Errorf(%w)",
		"jwk.Key.Raw(&[]byte) either fails or stores the key bytes; KeyType() of an octet key is jwa.OctetSeq")

	r.Rule(c03RDispatch, "every listed algorithm name reaches an output-carrying return in both directions of its family dispatcher and of the generic Encrypt/Decrypt", 116)
	r.Rule(c03RRoute, "the success path of every listed name reaches exactly the primitives (and hash) the name stands for, matching in both directions", 68)
	r.Rule(c03RAccept, "right-sized key/nonce/tag/message are accepted and reach no panicking precondition", 38)
	r.Rule(c03RAlias, "the slices EncryptSymmetric/DecryptSymmetric return do not share storage with the caller's plaintext/ciphertext/nonce/tag/associated-data arguments (a returned value must stay what it is when the caller reuses its own buffers: D(E(m)) = m also when m's buffer is encrypted twice)", 38)
	r.Rule(c03RKey, "wrong key size or kind: every path returns ErrKeyTypeMismatch; the ECDSA names are distinguishable and ES256/ES384/ES512 accept exactly keys on P-256/P-384/P-521", 76)
	r.Rule(c03RNonce, "wrong nonce size: every path returns ErrInvalidNonce, no panicking primitive is reached", 32)
	r.Rule(c03RTag, "wrong tag size: every path returns ErrInvalidTag", 10)
	r.Rule(c03RLength, "plaintext/ciphertext that is not a whole number of blocks is rejected with the length sentinel (CBC) / an error (key wrap)", 12)
	r.Rule(c03RUnsup, "an unknown algorithm name yields ErrUnsupportedAlgorithm from every dispatcher", 8)
	r.Rule(c03RReject, "failure of the authenticating/verifying primitive never reaches a success return", 28)
	r.Rule(c03RAead, "aescbcaead: Open returns errors (never panics) for wrong nonce / partial block / short input / bad tag; RFC 7518 parameters and MAC layout; the whole tag (tagSize bytes on both sides) takes part in the comparison; NonceSize/Overhead; constructors reject wrong key sizes", 10)
	r.Rule(c03RKW, "aeskw: Wrap/Unwrap reject malformed lengths with an error, fail closed on the IV check which compares all 8 bytes, accept well-formed input; the step counter t reaches its big-endian byte encoding with at least its low 32 bits in both directions (no narrowing to 8/16 bits, no little-endian)", 8)
	r.Rule(c03RPad, "PadPKCS7(buf,16) returns len(buf)+16-len(buf)%16 bytes and no error; UnpadPKCS7 on a buffer with symbolic bytes and last byte P: P=0 and every P>size are rejected, 1<=P<=size is accepted and exactly P bytes are stripped; on every accepting path each of the last P bytes was compared with P and found equal, and no byte outside the padding is constrained", 3)

	// anchors ---------------------------------------------------------------
	for _, s := range []string{"ErrUnsupportedAlgorithm", "ErrKeyTypeMismatch", "ErrInvalidNonce", "ErrInvalidTag", "ErrInvalidPlaintextLength", "ErrInvalidCiphertextLength"} {
		if _, ok := p.Pkg("crypto").Types.Scope().Lookup(s).(*types.Var); !ok {
			undecided("anchor sentinel crypto.%s no longer resolves", s)
		}
	}
	encSym, decSym := p.Func("crypto", "EncryptSymmetric"), p.Func("crypto", "DecryptSymmetric")
	encPub, decPriv := p.Func("crypto", "EncryptPublicKey"), p.Func("crypto", "DecryptPrivateKey")
	sign, verify := p.Func("crypto", "SignPrivateKey"), p.Func("crypto", "VerifyPublicKey")
	gEnc, gDec := p.Func("crypto", "Encrypt"), p.Func("crypto", "Decrypt")
	p.Func("crypto/aeskw", "Wrap")
	p.Func("crypto/aeskw", "Unwrap")
	p.Func("crypto/padding", "PadPKCS7")
	p.Func("crypto/padding", "UnpadPKCS7")

	symNames := e.listedNames(p.Func("crypto", "SupportedSymmetricAlgorithms"))
	asymNames := e.listedNames(p.Func("crypto", "SupportedAsymmetricAlgorithms"))
	sigNames := e.listedNames(p.Func("crypto", "SupportedSignatureAlgorithms"))
	r.Stats["listed_symmetric"] = len(symNames)
	r.Stats["listed_asymmetric"] = len(asymNames)
	r.Stats["listed_signature"] = len(sigNames)

	e.checkSymmetric(symNames, encSym, decSym, gEnc, gDec)
	e.checkAsymmetric(asymNames, encPub, decPriv, gEnc, gDec)
	e.checkSignature(sigNames, sign, verify)
	e.checkUnsupported([]*ssa.Function{encSym, decSym, encPub, decPriv, sign, verify, gEnc, gDec})
	e.checkAEAD()
	e.checkKW()
	e.checkPad()
	r.Stats["scenario_runs"] = e.execs

	c.Fixture("c03sym", func(fp *Prog, fr *Report) { c03FixtureRule(fp, fr) })
	c.Fixture("c03unpad", func(fp *Prog, fr *Report) { c03UnpadFixtureRule(fp, fr) })
	c.Fixture("c03kw", func(fp *Prog, fr *Report) { c03KWFixtureRule(fp, fr) })
}

// listedNames evaluates what a Supported*Algorithms function returns by
// interpreting it (literal, package-level table, clone/append of one, …):
// every element of the returned slice must be a known string.
func (e *c03Env) listedNames(fn *ssa.Function) []string {
	x := newC03Exec(e.p, e.kwScenario(false))
	outs := x.Run(fn, nil)
	var names []string
	ok := len(outs) > 0 && !x.Truncated
	for k, o := range outs {
		if o.Panic != "" || len(o.Res) != 1 || o.Imprecise {
			ok = false
			break
		}
		st := &c03State{mem: o.Mem}
		es, known := x.elemsOf(st, o.Res[0])
		if !known {
			ok = false
			break
		}
		var cur []string
		for _, ev := range es {
			if ev.K != c03Str {
				ok = false
			}
			cur = append(cur, ev.S)
		}
		if k == 0 {
			names = cur
		} else if strings.Join(cur, ",") != strings.Join(names, ",") {
			ok = false
		}
	}
	if !ok || len(names) == 0 {
		undecided("%s: the returned list of algorithm names cannot be evaluated (cannot enumerate the supported algorithms)", FuncName(e.p, fn))
	}
	return names
}

// ---- scenario plumbing ------------------------------------------------------

func (e *c03Env) scenario() *c03Scenario {
	mod := e.mod
	sc := &c03Scenario{KeyLen: -1, NonceSize: -1, Overhead: -1, Fields: map[FieldID]c03V{}}
	// At the level of package crypto the RFC 3394 functions are replaced by
	// their contract; the contract itself is checked on aeskw by rule KW.
	sc.Leaves = map[string]func(x *c03Exec, args []c03V) (c03V, string){
		mod + "/crypto/aeskw.Wrap": func(x *c03Exec, args []c03V) (c03V, string) {
			if n := c03KnownLen(args[1]); n >= 0 {
				if n%8 != 0 {
					return c03TupleV(c03NilV(), c03NonNilV()), ""
				}
				return c03TupleV(c03SliceV(n+8), c03NilV()), ""
			}
			return c03TupleV(c03SliceV(-1), c03U()), ""
		},
		mod + "/crypto/aeskw.Unwrap": func(x *c03Exec, args []c03V) (c03V, string) {
			n := c03KnownLen(args[1])
			if x.sc.Fail || (n >= 0 && (n%8 != 0 || n < 16)) {
				return c03TupleV(c03NilV(), c03NonNilV()), ""
			}
			if n >= 0 {
				return c03TupleV(c03SliceV(n-8), c03U()), ""
			}
			return c03TupleV(c03SliceV(-1), c03U()), ""
		},
	}
	return sc
}

// args builds the abstract arguments of an entry point: the single string
// parameter is the algorithm, []byte parameters take the given lengths in
// order (the exported signatures fix that order), everything else is an
// unknown non-nil object.
func (e *c03Env) args(fn *ssa.Function, alg string, lens ...int64) []c03V {
	var out []c03V
	k, nStr := 0, 0
	for _, pa := range fn.Params {
		switch t := pa.Type().Underlying().(type) {
		case *types.Basic:
			if t.Info()&types.IsString != 0 {
				out = append(out, c03StrV(alg))
				nStr++
				continue
			}
			out = append(out, c03U())
		case *types.Slice:
			if k < len(lens) {
				v := c03SliceV(lens[k])
				v.Ref = pa // the caller's buffer: lets the rules see whether an output shares its storage
				out = append(out, v)
			} else {
				out = append(out, c03SliceV(-1))
			}
			k++
		default:
			out = append(out, c03NonNilV())
		}
	}
	if nStr != 1 || k != len(lens) {
		undecided("%s: signature changed (%d string and %d []byte parameters; the scenario expects 1 and %d)", FuncName(e.p, fn), nStr, k, len(lens))
	}
	return out
}

type c03Run struct {
	fn        *ssa.Function
	outs      []c03Outcome
	truncated bool
	dropped   bool // some branch was not explored: "no path does X" cannot be concluded
	desc      string
}

func (e *c03Env) run(sc *c03Scenario, fn *ssa.Function, args []c03V, desc string) c03Run {
	return e.runMem(sc, fn, args, nil, desc)
}

// runMem: like run, with an initial memory (the objects the arguments point to).
func (e *c03Env) runMem(sc *c03Scenario, fn *ssa.Function, args []c03V, mem map[ssa.Value]c03V, desc string) c03Run {
	x := newC03Exec(e.p, sc)
	outs := x.RunWith(fn, args, nil, mem)
	e.execs++
	if dbg := os.Getenv("KC_C03_DEBUG"); dbg != "" && strings.Contains(FuncName(e.p, fn)+" "+desc, dbg) {
		fmt.Fprintf(os.Stderr, "RUN %s %v [%s] truncated=%v steps=%d\n", FuncName(e.p, fn), args, desc, x.Truncated, x.steps)
		for _, o := range outs {
			fmt.Fprintf(os.Stderr, "   %s imprecise=%v events=%v\n", e.describe(o), o.Imprecise, c03EventNames([]c03Outcome{o}))
		}
	}
	return c03Run{fn: fn, outs: outs, truncated: x.Truncated || len(outs) == 0, dropped: x.Dropped, desc: desc}
}

func c03ErrOf(o c03Outcome) c03V {
	if len(o.Res) == 0 {
		return c03U()
	}
	return o.Res[len(o.Res)-1]
}

// c03Success: the outcome may be a successful one (error nil or unknown, and
// the first result is not the nil / false constant).
func c03Success(o c03Outcome) bool {
	if o.Panic != "" || len(o.Res) == 0 {
		return false
	}
	if len(o.Res) > 1 && c03ErrOf(o).K == c03NonNil {
		return false
	}
	first := o.Res[0]
	if first.K == c03Nil || (first.K == c03Bool && !first.B) {
		return false
	}
	return true
}

func (e *c03Env) describe(o c03Outcome) string {
	if o.Panic != "" {
		return "panics: " + o.Panic
	}
	var rs []string
	for _, v := range o.Res {
		rs = append(rs, v.String())
	}
	return "returns (" + strings.Join(rs, ", ") + ") at " + e.p.Pos(o.Pos)
}

// verdict of a universally quantified scenario rule.
type c03Verdict struct {
	more      []string // further precise counterexamples (other scenarios)
	bad       string   // first precise counterexample
	imprecise string   // counterexample that rests on an imprecise path
	truncated bool
	n         int
}

func (v *c03Verdict) merge(w c03Verdict) {
	if v.bad == "" {
		v.bad = w.bad
	} else if w.bad != "" && len(v.more) < 6 {
		v.more = append(v.more, w.bad)
	}
	if v.imprecise == "" {
		v.imprecise = w.imprecise
	}
	v.truncated = v.truncated || w.truncated
	v.n += w.n
}

// allRejected: every outcome is a plain error return; with want != "" the
// error must be that sentinel. Panics are counterexamples.
func (e *c03Env) allRejected(run c03Run, want string) c03Verdict {
	v := c03Verdict{truncated: run.truncated, n: len(run.outs)}
	for _, o := range run.outs {
		msg := ""
		errv := c03ErrOf(o)
		switch {
		case o.Panic != "":
			msg = o.Panic
		case len(o.Res) < 2:
			msg = "no error result"
		case errv.K != c03NonNil:
			msg = e.describe(o) + " — no error"
		case want != "" && errv.G != want:
			got := errv.G
			if got == "" {
				got = "an error that is not a package sentinel"
			}
			msg = e.describe(o) + " — " + got + " instead of " + c03Short(want)
		case o.Res[0].K == c03Slice:
			msg = e.describe(o) + " — output returned together with the error"
		}
		if msg == "" {
			continue
		}
		msg = run.desc + ": " + msg
		if o.Imprecise {
			if v.imprecise == "" {
				v.imprecise = msg
			}
		} else if v.bad == "" {
			v.bad = msg
		}
	}
	return v
}

// noSuccess: no outcome may be a success (used with Fail scenarios). For a
// (bool, error) verifier success means "may return true"; for everything else
// it means "may return a nil error" — (nil, nil) is a success with an empty
// message as far as the caller can tell.
func (e *c03Env) noSuccess(run c03Run) c03Verdict {
	v := c03Verdict{truncated: run.truncated, n: len(run.outs)}
	for _, o := range run.outs {
		msg := ""
		notRejected := false
		if o.Panic == "" && len(o.Res) > 0 {
			if b, ok := run.fn.Signature.Results().At(0).Type().Underlying().(*types.Basic); ok && b.Info()&types.IsBoolean != 0 {
				notRejected = !(o.Res[0].K == c03Bool && !o.Res[0].B)
			} else {
				notRejected = c03ErrOf(o).K != c03NonNil
			}
		}
		if o.Panic != "" && !o.Explicit {
			msg = o.Panic
		} else if notRejected {
			// the failure can only be injected into primitives the interpreter models: an accepting
			// path that went through none of them proves nothing
			injected := false
			for _, ev := range o.Events {
				if c03FailControlled[ev.Name] || strings.HasSuffix(ev.Name, "/crypto/aeskw.Unwrap") {
					injected = true
				}
			}
			if !injected {
				if v.imprecise == "" {
					v.imprecise = run.desc + ": " + e.describe(o) + " — the path verifies/decrypts through no primitive the checker can make fail"
				}
				continue
			}
			msg = e.describe(o) + " although the primitive reported failure"
		}
		if msg == "" {
			continue
		}
		msg = run.desc + ": " + msg
		if o.Imprecise {
			if v.imprecise == "" {
				v.imprecise = msg
			}
		} else if v.bad == "" {
			v.bad = msg
		}
	}
	return v
}

// accepted: some outcome is a success and no (precise) outcome panics.
func (e *c03Env) accepted(run c03Run) c03Verdict {
	v := c03Verdict{truncated: run.truncated, n: len(run.outs)}
	ok := false
	for _, o := range run.outs {
		if c03Success(o) {
			ok = true
		}
		if o.Panic != "" && !o.Explicit {
			if o.Imprecise {
				if v.imprecise == "" {
					v.imprecise = run.desc + ": " + o.Panic
				}
			} else if v.bad == "" {
				v.bad = run.desc + ": " + o.Panic
			}
		}
	}
	if !ok && v.bad == "" && run.dropped {
		v.truncated = true // the accepting path may lie behind a branch that was not explored
	}
	if !ok && v.bad == "" && !run.truncated && !run.dropped {
		var seen []string
		for _, o := range run.outs {
			seen = append(seen, e.describe(o))
		}
		sort.Strings(seen)
		if len(seen) > 3 {
			seen = seen[:3]
		}
		v.bad = run.desc + ": no path returns output; " + strings.Join(seen, "; ")
	}
	return v
}

// settle turns a verdict into an obligation.
func (e *c03Env) settle(rule, construct string, pos string, v c03Verdict, okMsg, what string) {
	switch {
	case v.bad != "":
		e.r.Violation(rule, construct, pos, what+" — "+v.bad, v.more...)
	case v.truncated:
		e.r.Undecide("%s %s: the abstract interpreter ran out of budget / produced no outcome", rule, construct)
		e.r.Trivial(rule, construct, pos, "undecided (budget)")
	case v.imprecise != "":
		e.r.Undecide("%s %s: only decidable through a condition the interpreter has no model for (%s)", rule, construct, v.imprecise)
		e.r.Trivial(rule, construct, pos, "undecided (imprecise path)")
	default:
		e.r.OK(rule, construct, pos, okMsg)
	}
}

func c03Short(global string) string {
	if i := strings.LastIndex(global, "."); i >= 0 {
		return global[i+1:]
	}
	return global
}

// ---- route ------------------------------------------------------------------

// c03Prims: the universe of primitive operations the route rule knows. A
// success path of an algorithm must contain all the ones its spec requires and
// none of the others. Calls into crypto packages that are in neither this set
// nor c03Neutral make the route of that name UNDECIDED, not a violation.
func (e *c03Env) prims() map[string]bool {
	m := map[string]bool{}
	for _, n := range []string{
		"crypto/cipher.NewCBCEncrypter", "crypto/cipher.NewCBCDecrypter", "crypto/cipher.NewGCM",
		"crypto/cipher.AEAD.Seal", "crypto/cipher.AEAD.Open", "crypto/cipher.BlockMode.CryptBlocks",
		"golang.org/x/crypto/chacha20poly1305.New", "golang.org/x/crypto/chacha20poly1305.NewX",
		"crypto/rsa.EncryptPKCS1v15", "crypto/rsa.DecryptPKCS1v15", "crypto/rsa.EncryptOAEP", "crypto/rsa.DecryptOAEP",
		"crypto/rsa.SignPKCS1v15", "crypto/rsa.VerifyPKCS1v15", "crypto/rsa.SignPSS", "crypto/rsa.VerifyPSS",
		"crypto/ecdsa.SignASN1", "crypto/ecdsa.VerifyASN1", "crypto/ed25519.Sign", "crypto/ed25519.Verify",
		e.mod + "/crypto/padding.PadPKCS7", e.mod + "/crypto/padding.UnpadPKCS7",
		e.mod + "/crypto/aeskw.Wrap", e.mod + "/crypto/aeskw.Unwrap",
		e.mod + "/crypto/aescbcaead.NewAESCBC128SHA256", e.mod + "/crypto/aescbcaead.NewAESCBC192SHA384",
		e.mod + "/crypto/aescbcaead.NewAESCBC256SHA384", e.mod + "/crypto/aescbcaead.NewAESCBC256SHA512",
	} {
		m[n] = true
	}
	return m
}

var c03Neutral = map[string]bool{
	"crypto/aes.NewCipher": true, "crypto.Hash.New": true, "crypto/hmac.New": true, "crypto/hmac.Equal": true,
	"crypto/cipher.AEAD.NonceSize": true, "crypto/cipher.AEAD.Overhead": true, "crypto/cipher.Block.BlockSize": true,
	"crypto/subtle.ConstantTimeCompare": true, "crypto.Hash.Available": true, "crypto.Hash.Size": true,
	"crypto/sha1.New": true, "crypto/sha256.New": true, "crypto/sha256.New224": true, "crypto/sha512.New": true, "crypto/sha512.New384": true,
}

func c03IsCryptoPkg(name string) bool {
	return strings.HasPrefix(name, "crypto/") || strings.HasPrefix(name, "crypto.") || strings.HasPrefix(name, "golang.org/x/crypto/")
}

// hashReq: a required constant argument of a primitive event (the hash).
type c03HashReq struct {
	event string
	arg   int
	hash  string // name of the crypto.Hash constant
}

// c03Wire: argument k of a primitive must be the caller's value of that role;
// roles are told apart by the distinct lengths the scenario gives them.
type c03Wire struct {
	event string
	arg   int
	want  int64
	what  string
}

func (e *c03Env) hashConst(name string) int64 {
	pkg := e.p.All["crypto"]
	if pkg == nil {
		undecided("standard package crypto not loaded")
	}
	k, ok := pkg.Types.Scope().Lookup(name).(*types.Const)
	if !ok {
		undecided("crypto.%s not found", name)
	}
	n, _ := constant.Int64Val(k.Val())
	return n
}

// checkRoute examines the success outcomes of a base run.
func (e *c03Env) checkRoute(construct, pos string, run c03Run, required []string, hashes []c03HashReq, wires ...c03Wire) {
	univ := e.prims()
	var succ []c03Outcome
	for _, o := range run.outs {
		if c03Success(o) {
			succ = append(succ, o)
		}
	}
	if len(succ) == 0 && (run.truncated || run.dropped) {
		e.r.Undecide("%s %s: no accepting path found, but not every branch was explored", c03RRoute, construct)
		e.r.Trivial(c03RRoute, construct, pos, "undecided")
		return
	}
	if len(succ) == 0 {
		// reported by the dispatch / accept rule; nothing to route
		e.r.Violation(c03RRoute, construct, pos, "no path returns output, so the primitives of this algorithm are never applied")
		return
	}
	req := map[string]bool{}
	for _, n := range required {
		req[n] = true
	}
	var v c03Verdict
	v.truncated = run.truncated
	for _, o := range succ {
		seen := map[string]bool{}
		unknownCrypto := ""
		for _, ev := range o.Events {
			seen[ev.Name] = true
			if c03IsCryptoPkg(ev.Name) && !univ[ev.Name] && !c03Neutral[ev.Name] {
				unknownCrypto = ev.Name
			}
		}
		msg := ""
		for _, n := range required {
			if !seen[n] {
				msg = "a success path never calls " + n + " (reached: " + strings.Join(c03PrimList(o, univ), ", ") + ")"
				break
			}
		}
		if msg == "" {
			for n := range seen {
				if univ[n] && !req[n] {
					msg = "a success path calls " + n + ", which is not part of this algorithm (expected only " + strings.Join(required, ", ") + ")"
					break
				}
			}
		}
		if msg == "" {
			for _, h := range hashes {
				want := e.hashConst(h.hash)
				found := false
				for _, ev := range o.Events {
					if ev.Name != h.event || h.arg >= len(ev.Args) {
						continue
					}
					found = true
					a := ev.Args[h.arg]
					got, known := a.I, a.K == c03Int
					if !known && strings.HasPrefix(a.G, "hash:") { // a hash.Hash object: which constructor made it
						_, err := fmt.Sscanf(a.G, "hash:%d", &got)
						known = err == nil
					}
					if !known {
						if v.imprecise == "" {
							v.imprecise = "hash argument of " + h.event + " is not a constant the interpreter can evaluate"
						}
					} else if got != want {
						msg = fmt.Sprintf("%s is given crypto.Hash(%d) but the algorithm name stands for crypto.%s (=%d)", h.event, got, h.hash, want)
					}
				}
				if !found && msg == "" {
					msg = "a success path never calls " + h.event
				}
			}
		}
		if msg == "" {
			// RSASSA-PSS verification must not pin the salt length: a signature made by the matching key with
			// another (valid) salt length — what Go emits by default, what the library emitted so far — has to verify
			for _, ev := range o.Events {
				if ev.Name != "crypto/rsa.VerifyPSS" || len(ev.Args) != 5 {
					continue
				}
				opts := ev.Args[4]
				switch {
				case opts.K == c03Nil:
				case opts.K == c03Cell && o.Mem[opts.Ref].K == c03Struct:
					sl, ok := o.Mem[opts.Ref].M["SaltLength"]
					switch {
					case !ok || sl.K != c03Int:
						if v.imprecise == "" {
							v.imprecise = "the SaltLength of the PSSOptions handed to rsa.VerifyPSS is not a value the interpreter can derive"
						}
					case sl.I != 0:
						msg = fmt.Sprintf("rsa.VerifyPSS is given PSSOptions{SaltLength: %d} (0 = PSSSaltLengthAuto, -1 = PSSSaltLengthEqualsHash): verification no longer accepts every signature the matching private key makes over the digest — valid RSASSA-PSS signatures with another salt length (Go's default, other implementations, earlier versions of this library) return (false, nil)", sl.I)
					}
				default:
					if v.imprecise == "" {
						v.imprecise = "the PSSOptions handed to rsa.VerifyPSS cannot be followed"
					}
				}
			}
		}
		if msg == "" {
			for _, w := range wires {
				for _, ev := range o.Events {
					if ev.Name != w.event || w.arg >= len(ev.Args) {
						continue
					}
					got := c03KnownLen(ev.Args[w.arg])
					if got < 0 {
						if v.imprecise == "" {
							v.imprecise = fmt.Sprintf("length of the %s handed to %s is not known to the interpreter", w.what, w.event)
						}
					} else if got != w.want {
						msg = fmt.Sprintf("%s receives %d bytes where the caller's %s (%d bytes in this scenario) belongs — the %s is not what is processed/authenticated", w.event, got, w.what, w.want, w.what)
					}
				}
			}
		}
		if msg == "" {
			continue
		}
		if unknownCrypto != "" || o.Imprecise {
			if v.imprecise == "" {
				v.imprecise = msg + " (path also uses " + unknownCrypto + ", unknown to the checker)"
			}
		} else if v.bad == "" {
			v.bad = msg
		}
	}
	e.settle(c03RRoute, construct, pos, v, "success path reaches exactly "+strings.Join(required, ", "), "wrong primitive or wrong argument wiring for this algorithm name (round trip / interoperability / authentication of that input broken)")
}

func c03PrimList(o c03Outcome, univ map[string]bool) []string {
	set := map[string]bool{}
	for _, ev := range o.Events {
		if univ[ev.Name] {
			set[ev.Name] = true
		}
	}
	var l []string
	for n := range set {
		l = append(l, n)
	}
	sort.Strings(l)
	return l
}

// ---- symmetric family ---------------------------------------------------------

func (e *c03Env) symSpec(name string) (c03SymSpec, bool) {
	cipherPkg := "crypto/cipher."
	pad, unpad := e.mod+"/crypto/padding.PadPKCS7", e.mod+"/crypto/padding.UnpadPKCS7"
	for _, b := range []struct {
		bits string
		key  int64
		hs   string
		ctor string
	}{{"128", 16, "HS256", "NewAESCBC128SHA256"}, {"192", 24, "HS384", "NewAESCBC192SHA384"}, {"256", 32, "HS512", "NewAESCBC256SHA512"}} {
		switch name {
		case "A" + b.bits + "CBC":
			return c03SymSpec{key: b.key, nonce: 16, tag: -1, ctMult: 16,
				enc: []string{cipherPkg + "NewCBCEncrypter", cipherPkg + "BlockMode.CryptBlocks", pad},
				dec: []string{cipherPkg + "NewCBCDecrypter", cipherPkg + "BlockMode.CryptBlocks", unpad}}, true
		case "A" + b.bits + "CBC-NOPAD":
			return c03SymSpec{key: b.key, nonce: 16, tag: -1, ptMult: 16, ctMult: 16, ptSentinel: true,
				enc: []string{cipherPkg + "NewCBCEncrypter", cipherPkg + "BlockMode.CryptBlocks"},
				dec: []string{cipherPkg + "NewCBCDecrypter", cipherPkg + "BlockMode.CryptBlocks"}}, true
		case "A" + b.bits + "GCM":
			return c03SymSpec{key: b.key, nonce: 12, tag: 16, auth: true,
				enc: []string{cipherPkg + "NewGCM", cipherPkg + "AEAD.Seal"},
				dec: []string{cipherPkg + "NewGCM", cipherPkg + "AEAD.Open"}}, true
		case "A" + b.bits + "CBC-" + b.hs:
			ctor := e.mod + "/crypto/aescbcaead." + b.ctor
			return c03SymSpec{key: 2 * b.key, nonce: 16, tag: b.key, auth: true,
				enc: []string{ctor, cipherPkg + "AEAD.Seal"},
				dec: []string{ctor, cipherPkg + "AEAD.Open"}}, true
		case "A" + b.bits + "KW":
			return c03SymSpec{key: b.key, nonce: -1, tag: -1, ptMult: 8, auth: true,
				enc: []string{e.mod + "/crypto/aeskw.Wrap"},
				dec: []string{e.mod + "/crypto/aeskw.Unwrap"}}, true
		}
	}
	cc := "golang.org/x/crypto/chacha20poly1305."
	switch name {
	case "C20P", "C20PKW":
		return c03SymSpec{key: 32, nonce: 12, tag: 16, auth: true,
			enc: []string{cc + "New", cipherPkg + "AEAD.Seal"}, dec: []string{cc + "New", cipherPkg + "AEAD.Open"}}, true
	case "XC20P", "XC20PKW":
		return c03SymSpec{key: 32, nonce: 24, tag: 16, auth: true,
			enc: []string{cc + "NewX", cipherPkg + "AEAD.Seal"}, dec: []string{cc + "NewX", cipherPkg + "AEAD.Open"}}, true
	}
	return c03SymSpec{}, false
}

func c03Without(all []int64, x int64) []int64 {
	var out []int64
	for _, v := range all {
		if v != x {
			out = append(out, v)
		}
	}
	return out
}

func (e *c03Env) checkSymmetric(names []string, enc, dec, gEnc, gDec *ssa.Function) {
	octet := "oct"
	if jwa := e.p.All["github.com/lestrrat-go/jwx/v2/jwa"]; jwa != nil {
		if k, ok := jwa.Types.Scope().Lookup("OctetSeq").(*types.Const); ok && k.Val().Kind() == constant.String {
			octet = constant.StringVal(k.Val())
		}
	}
	for _, name := range names {
		spec, ok := e.symSpec(name)
		if !ok {
			e.r.Undecide("symmetric algorithm %q is listed as supported but the checker has no specification for it", name)
			continue
		}
		nonce, tag := spec.nonce, spec.tag
		if nonce < 0 {
			nonce = 0
		}
		if tag < 0 {
			tag = 0
		}
		mk := func() *c03Scenario {
			sc := e.scenario()
			sc.KeyType, sc.KeyLen = octet, spec.key
			sc.NonceSize, sc.Overhead = spec.nonce, spec.tag
			sc.SealPad = strings.Contains(name, "CBC-HS")
			return sc
		}
		ptLens := []int64{0, 7, 16, 33}
		ctLens := []int64{0, 7, 16, 33}
		switch {
		case spec.ptMult == 16:
			ptLens, ctLens = []int64{0, 16, 32}, []int64{16, 32}
		case spec.ptMult == 8:
			ptLens, ctLens = []int64{16, 24, 40}, []int64{24, 40}
		case spec.ctMult == 16:
			ctLens = []int64{16, 32}
		}
		for _, d := range []struct {
			fn, generic *ssa.Function
			isDec       bool
		}{{enc, gEnc, false}, {dec, gDec, true}} {
			fname := FuncName(e.p, d.fn)
			pos := e.p.Pos(d.fn.Pos())
			argsFor := func(fn *ssa.Function, msg, n, t int64) []c03V {
				if d.isDec {
					return e.args(fn, name, msg, n, t, 5)
				}
				return e.args(fn, name, msg, n, 5)
			}
			msgLens := ptLens
			if d.isDec {
				msgLens = ctLens
			}
			// dispatch (family dispatcher and generic one) + accept + route
			var acc, alias c03Verdict
			var base c03Run
			for k, ml := range msgLens {
				run := e.run(mk(), d.fn, argsFor(d.fn, ml, nonce, tag), fmt.Sprintf("key %d, nonce %d, tag %d, message %d bytes", spec.key, nonce, tag, ml))
				w := e.accepted(run)
				if !d.isDec && w.bad == "" {
					// shape of the output: ciphertext and tag lengths the decrypting side will insist on
					wantCT := ml
					switch {
					case spec.ctMult == 16 && spec.ptMult == 0, strings.Contains(name, "CBC-HS"):
						wantCT = ml + 16 - ml%16
					case spec.ptMult == 8:
						wantCT = ml + 8
					}
					for _, o := range run.outs {
						if !c03Success(o) || len(o.Res) != 3 {
							continue
						}
						if got := c03KnownLen(o.Res[0]); got >= 0 && got != wantCT && w.bad == "" {
							w.bad = fmt.Sprintf("%s: ciphertext of %d bytes returned, %d expected for this algorithm (%s)", run.desc, got, wantCT, e.describe(o))
						}
						if spec.tag >= 0 {
							if got := c03KnownLen(o.Res[1]); got >= 0 && got != spec.tag && w.bad == "" {
								w.bad = fmt.Sprintf("%s: tag of %d bytes returned, the decrypting side insists on %d (%s)", run.desc, got, spec.tag, e.describe(o))
							}
						}
					}
				}
				acc.merge(w)
				for _, o := range run.outs {
					if !c03Success(o) {
						continue
					}
					for ri, rv := range o.Res {
						pa, isParam := rv.Ref.(*ssa.Parameter)
						if rv.K != c03Slice || !isParam || pa.Parent() != d.fn || alias.bad != "" {
							continue
						}
						alias.bad = fmt.Sprintf("%s: result #%d shares the storage of the caller's argument %q (%s): the returned bytes change when the caller reuses that buffer, e.g. when the same message is encrypted a second time — neither ciphertext decrypts to the message any more", run.desc, ri, pa.Name(), e.describe(o))
					}
				}
				alias.n += len(run.outs)
				if k == len(msgLens)-1 {
					base = run
				}
			}
			for _, fn := range []*ssa.Function{d.fn, d.generic} {
				run := base
				if fn != d.fn {
					run = e.run(mk(), fn, argsFor(fn, msgLens[len(msgLens)-1], nonce, tag), "right-sized inputs")
				}
				hasOut := false
				for _, o := range run.outs {
					if c03Success(o) {
						hasOut = true
					}
				}
				construct := FuncName(e.p, fn) + " dispatches " + name
				switch {
				case hasOut:
					e.r.OK(c03RDispatch, construct, e.p.Pos(fn.Pos()), "reaches an output-carrying return")
				case run.truncated || run.dropped:
					e.r.Undecide("%s %s: interpreter budget", c03RDispatch, construct)
					e.r.Trivial(c03RDispatch, construct, e.p.Pos(fn.Pos()), "undecided")
				default:
					why := "no return reachable"
					if len(run.outs) > 0 {
						why = e.describe(run.outs[0])
					}
					e.r.Violation(c03RDispatch, construct, e.p.Pos(fn.Pos()), fmt.Sprintf("%q is listed as supported but %s never produces output for it with a right-sized key: %s", name, FuncName(e.p, fn), why))
				}
			}
			e.settle(c03RAlias, fname+" "+name+" output storage", pos, alias, "the returned ciphertext/tag/plaintext never share storage with the caller's arguments", "an output aliases a caller-owned input buffer")
			e.settle(c03RAccept, fname+" "+name+" right sizes", pos, acc, "right-sized inputs are accepted on some path, no path panics, ciphertext/tag have the lengths the other direction insists on", "right-sized input rejected, panicking, or output of the wrong shape")
			req := spec.enc
			if d.isDec {
				req = spec.dec
			}
			var wires []c03Wire
			lastMsg := msgLens[len(msgLens)-1]
			if spec.tag >= 0 {
				if d.isDec {
					wires = []c03Wire{{"crypto/cipher.AEAD.Open", 2, nonce, "nonce"}, {"crypto/cipher.AEAD.Open", 3, lastMsg + tag, "ciphertext followed by the tag"}, {"crypto/cipher.AEAD.Open", 4, 5, "associated data"}}
				} else {
					wires = []c03Wire{{"crypto/cipher.AEAD.Seal", 2, nonce, "nonce"}, {"crypto/cipher.AEAD.Seal", 3, lastMsg, "plaintext"}, {"crypto/cipher.AEAD.Seal", 4, 5, "associated data"}}
				}
			} else if spec.nonce >= 0 {
				wires = []c03Wire{{"crypto/cipher.NewCBCEncrypter", 1, nonce, "IV"}, {"crypto/cipher.NewCBCDecrypter", 1, nonce, "IV"}}
			}
			e.checkRoute(fname+" "+name, pos, base, req, nil, wires...)

			// wrong key size / kind
			var kv c03Verdict
			for _, kl := range c03Without([]int64{0, 15, 16, 24, 32, 33, 48, 64}, spec.key) {
				sc := mk()
				sc.KeyLen = kl
				kv.merge(e.allRejected(e.run(sc, d.fn, argsFor(d.fn, msgLens[len(msgLens)-1], nonce, tag), fmt.Sprintf("%d-byte key", kl)), e.sentinel("ErrKeyTypeMismatch")))
			}
			{
				sc := mk()
				sc.KeyType, sc.KeyLen = "RSA", -1
				kv.merge(e.allRejected(e.run(sc, d.fn, argsFor(d.fn, msgLens[len(msgLens)-1], nonce, tag), "key of type RSA"), e.sentinel("ErrKeyTypeMismatch")))
			}
			e.settle(c03RKey, fname+" "+name+" wrong key", pos, kv, "every wrong key size/kind returns ErrKeyTypeMismatch", fmt.Sprintf("a key of the wrong size or kind for %s (right size: %d bytes) is not rejected with ErrKeyTypeMismatch", name, spec.key))

			// wrong nonce
			if spec.nonce >= 0 {
				var nv c03Verdict
				for _, nl := range c03Without([]int64{0, 8, 12, 16, 24, 32}, spec.nonce) {
					nv.merge(e.allRejected(e.run(mk(), d.fn, argsFor(d.fn, msgLens[len(msgLens)-1], nl, tag), fmt.Sprintf("%d-byte nonce", nl)), e.sentinel("ErrInvalidNonce")))
				}
				e.settle(c03RNonce, fname+" "+name+" wrong nonce", pos, nv, "every wrong nonce size returns ErrInvalidNonce", fmt.Sprintf("a nonce/IV of the wrong size for %s (right size: %d bytes) is not rejected with ErrInvalidNonce", name, spec.nonce))
			}
			// wrong tag
			if d.isDec && spec.tag >= 0 {
				var tv c03Verdict
				for _, tl := range c03Without([]int64{0, 8, 12, 15, 16, 17, 24, 32}, spec.tag) {
					tv.merge(e.allRejected(e.run(mk(), d.fn, argsFor(d.fn, msgLens[len(msgLens)-1], nonce, tl), fmt.Sprintf("%d-byte tag", tl)), e.sentinel("ErrInvalidTag")))
				}
				e.settle(c03RTag, fname+" "+name+" wrong tag", pos, tv, "every wrong tag size returns ErrInvalidTag", fmt.Sprintf("a tag of the wrong size for %s (right size: %d bytes) is not rejected with ErrInvalidTag (bytes can be moved between ciphertext and tag unnoticed)", name, spec.tag))
			}
			// message length
			mult, want := spec.ptMult, ""
			if d.isDec {
				mult = spec.ctMult
				want = e.sentinel("ErrInvalidCiphertextLength")
			} else if spec.ptSentinel {
				want = e.sentinel("ErrInvalidPlaintextLength")
			}
			if mult > 0 {
				var lv c03Verdict
				for _, ml := range []int64{1, mult - 1, mult + 1, 2*mult + mult/2} {
					lv.merge(e.allRejected(e.run(mk(), d.fn, argsFor(d.fn, ml, nonce, tag), fmt.Sprintf("%d-byte message", ml)), want))
				}
				wname := "an error"
				if want != "" {
					wname = c03Short(want)
				}
				e.settle(c03RLength, fname+" "+name+" partial block", pos, lv, "a message that is not a multiple of "+fmt.Sprint(mult)+" bytes returns "+wname, fmt.Sprintf("a message whose length is not a multiple of %d is not rejected with %s for %s", mult, wname, name))
			}
			// authentication failure
			if d.isDec && spec.auth {
				sc := mk()
				sc.Fail = true
				v := e.noSuccess(e.run(sc, d.fn, argsFor(d.fn, msgLens[len(msgLens)-1], nonce, tag), "authentication fails"))
				e.settle(c03RReject, fname+" "+name+" authentication failure", pos, v, "a failing Open/Unwrap never reaches a success return", "tampered input accepted: the failure of the authenticating primitive does not surface as an error")
			}
		}
	}
}

// ---- asymmetric encryption & signatures --------------------------------------

func (e *c03Env) oaepHash(name string) string {
	switch name {
	case "RSA-OAEP":
		return "SHA1"
	case "RSA-OAEP-256":
		return "SHA256"
	case "RSA-OAEP-384":
		return "SHA384"
	case "RSA-OAEP-512":
		return "SHA512"
	}
	return ""
}

func (e *c03Env) dispatchOnly(fn *ssa.Function, name string, run c03Run) {
	construct := FuncName(e.p, fn) + " dispatches " + name
	hasOut := false
	for _, o := range run.outs {
		if c03Success(o) {
			hasOut = true
		}
	}
	switch {
	case hasOut:
		e.r.OK(c03RDispatch, construct, e.p.Pos(fn.Pos()), "reaches an output-carrying return")
	case run.truncated || run.dropped:
		e.r.Undecide("%s %s: interpreter budget", c03RDispatch, construct)
		e.r.Trivial(c03RDispatch, construct, e.p.Pos(fn.Pos()), "undecided")
	default:
		why := "no return reachable"
		if len(run.outs) > 0 {
			why = e.describe(run.outs[len(run.outs)-1])
		}
		e.r.Violation(c03RDispatch, construct, e.p.Pos(fn.Pos()), fmt.Sprintf("%q is listed as supported but %s never produces output for it: %s", name, FuncName(e.p, fn), why))
	}
}

func (e *c03Env) checkAsymmetric(names []string, enc, dec, gEnc, gDec *ssa.Function) {
	for _, name := range names {
		var reqE, reqD []string
		var hE, hD []c03HashReq
		switch {
		case name == "RSA1_5":
			reqE, reqD = []string{"crypto/rsa.EncryptPKCS1v15"}, []string{"crypto/rsa.DecryptPKCS1v15"}
		case e.oaepHash(name) != "":
			reqE, reqD = []string{"crypto/rsa.EncryptOAEP"}, []string{"crypto/rsa.DecryptOAEP"}
			hE = []c03HashReq{{"crypto/rsa.EncryptOAEP", 0, e.oaepHash(name)}}
			hD = []c03HashReq{{"crypto/rsa.DecryptOAEP", 0, e.oaepHash(name)}}
		default:
			e.r.Undecide("asymmetric algorithm %q is listed as supported but the checker has no specification for it", name)
			continue
		}
		for _, d := range []struct {
			fn, generic *ssa.Function
			isDec       bool
			req         []string
			h           []c03HashReq
		}{{enc, gEnc, false, reqE, hE}, {dec, gDec, true, reqD, hD}} {
			fname := FuncName(e.p, d.fn)
			pos := e.p.Pos(d.fn.Pos())
			run := e.run(e.scenario(), d.fn, e.args(d.fn, name, 32, 5), "any key")
			e.dispatchOnly(d.fn, name, run)
			var grun c03Run
			if d.isDec {
				grun = e.run(e.scenario(), d.generic, e.args(d.generic, name, 32, 0, 0, 5), "any key")
			} else {
				grun = e.run(e.scenario(), d.generic, e.args(d.generic, name, 32, 0, 5), "any key")
			}
			e.dispatchOnly(d.generic, name, grun)
			var wires []c03Wire
			for _, ev := range d.req {
				switch ev {
				case "crypto/rsa.EncryptOAEP", "crypto/rsa.DecryptOAEP":
					wires = append(wires, c03Wire{ev, 3, 32, "message"}, c03Wire{ev, 4, 5, "associated data (OAEP label)"})
				case "crypto/rsa.EncryptPKCS1v15", "crypto/rsa.DecryptPKCS1v15":
					wires = append(wires, c03Wire{ev, 2, 32, "message"})
				}
			}
			e.checkRoute(fname+" "+name, pos, run, d.req, d.h, wires...)
			{
				sc := e.scenario()
				sc.RawFails = true
				v := e.allRejected(e.run(sc, d.fn, e.args(d.fn, name, 32, 5), "key that is not an RSA key"), e.sentinel("ErrKeyTypeMismatch"))
				e.settle(c03RKey, fname+" "+name+" wrong key", pos, v, "a key of the wrong kind returns ErrKeyTypeMismatch", "a key of the wrong kind for "+name+" is not rejected with ErrKeyTypeMismatch")
			}
			if d.isDec {
				sc := e.scenario()
				sc.Fail = true
				v := e.noSuccess(e.run(sc, d.fn, e.args(d.fn, name, 32, 5), "RSA decryption fails"))
				e.settle(c03RReject, fname+" "+name+" decryption failure", pos, v, "a failing RSA decryption never reaches a success return", "tampered ciphertext accepted: the decryption error is dropped")
			}
		}
	}
}

// c03Fingerprint renders everything the interpreter saw of a run: outcomes
// (values, return sites), every call with its abstract arguments and the
// operands of every undecided comparison.
func (e *c03Env) fingerprint(run c03Run) string {
	var l []string
	for _, o := range run.outs {
		var sb strings.Builder
		sb.WriteString(e.describe(o))
		for _, ev := range o.Events {
			sb.WriteString(" " + ev.Name + fmt.Sprint(ev.Args))
		}
		l = append(l, sb.String())
	}
	sort.Strings(l)
	return strings.Join(l, "\n")
}

func (e *c03Env) checkSignature(names []string, sign, verify *ssa.Function) {
	esSign, esVerify := map[string]string{}, map[string]string{}
	defer func() {
		// ECDSA: ES256/ES384/ES512 stand for P-256/P-384/P-521 (RFC 7518 §3.4). If nothing derived from
		// the algorithm name reaches any call argument or any comparison on the ECDSA path, the three
		// names behave identically, so a key of the wrong curve cannot be refused for one of them while
		// it is (necessarily) accepted for the name it belongs to.
		for _, d := range []struct {
			fn  *ssa.Function
			fps map[string]string
		}{{sign, esSign}, {verify, esVerify}} {
			if len(d.fps) < 2 {
				continue
			}
			var ns []string
			distinct := map[string]bool{}
			for n, fp := range d.fps {
				ns = append(ns, n)
				distinct[fp] = true
			}
			sort.Strings(ns)
			e.r.Check(len(distinct) == len(ns), c03RKey, FuncName(e.p, d.fn)+" "+strings.Join(ns, "/")+" curve binding", e.p.Pos(d.fn.Pos()),
				"the ECDSA path depends on the algorithm name (a curve check is possible)",
				"the ECDSA path is identical for "+strings.Join(ns, ", ")+": no value derived from the algorithm name reaches a call or a comparison, so a key on the wrong curve (e.g. P-384 with ES256) is accepted instead of ErrKeyTypeMismatch and the signature does not interoperate")
		}
	}()
	for _, name := range names {
		var reqS, reqV []string
		var hS, hV []c03HashReq
		hash := ""
		if len(name) == 5 {
			switch name[2:] {
			case "256":
				hash = "SHA256"
			case "384":
				hash = "SHA384"
			case "512":
				hash = "SHA512"
			}
		}
		switch {
		case strings.HasPrefix(name, "RS") && hash != "":
			reqS, reqV = []string{"crypto/rsa.SignPKCS1v15"}, []string{"crypto/rsa.VerifyPKCS1v15"}
			hS, hV = []c03HashReq{{"crypto/rsa.SignPKCS1v15", 2, hash}}, []c03HashReq{{"crypto/rsa.VerifyPKCS1v15", 1, hash}}
		case strings.HasPrefix(name, "PS") && hash != "":
			reqS, reqV = []string{"crypto/rsa.SignPSS"}, []string{"crypto/rsa.VerifyPSS"}
			hS, hV = []c03HashReq{{"crypto/rsa.SignPSS", 2, hash}}, []c03HashReq{{"crypto/rsa.VerifyPSS", 1, hash}}
		case strings.HasPrefix(name, "ES") && hash != "":
			reqS, reqV = []string{"crypto/ecdsa.SignASN1"}, []string{"crypto/ecdsa.VerifyASN1"}
		case name == "EdDSA":
			reqS, reqV = []string{"crypto/ed25519.Sign"}, []string{"crypto/ed25519.Verify"}
		default:
			e.r.Undecide("signature algorithm %q is listed as supported but the checker has no specification for it", name)
			continue
		}
		// sign(digest, alg, key)
		srun := e.run(e.scenario(), sign, e.args(sign, name, 32), "any key")
		e.dispatchOnly(sign, name, srun)
		wS := map[string][]c03Wire{
			"crypto/rsa.SignPKCS1v15": {{"crypto/rsa.SignPKCS1v15", 3, 32, "digest"}},
			"crypto/rsa.SignPSS":      {{"crypto/rsa.SignPSS", 3, 32, "digest"}},
			"crypto/ecdsa.SignASN1":   {{"crypto/ecdsa.SignASN1", 2, 32, "digest"}},
			"crypto/ed25519.Sign":     {{"crypto/ed25519.Sign", 1, 32, "message"}},
		}[reqS[0]]
		wV := map[string][]c03Wire{
			"crypto/rsa.VerifyPKCS1v15": {{"crypto/rsa.VerifyPKCS1v15", 2, 32, "digest"}, {"crypto/rsa.VerifyPKCS1v15", 3, 64, "signature"}},
			"crypto/rsa.VerifyPSS":      {{"crypto/rsa.VerifyPSS", 2, 32, "digest"}, {"crypto/rsa.VerifyPSS", 3, 64, "signature"}},
			"crypto/ecdsa.VerifyASN1":   {{"crypto/ecdsa.VerifyASN1", 1, 32, "digest"}, {"crypto/ecdsa.VerifyASN1", 2, 64, "signature"}},
			"crypto/ed25519.Verify":     {{"crypto/ed25519.Verify", 1, 32, "message"}, {"crypto/ed25519.Verify", 2, 64, "signature"}},
		}[reqV[0]]
		for _, d := range []struct {
			fn   *ssa.Function
			lens []int64
		}{{sign, []int64{32}}, {verify, []int64{32, 64}}} {
			sc := e.scenario()
			sc.RawFails = true
			v := e.allRejected(e.run(sc, d.fn, e.args(d.fn, name, d.lens...), "key of the wrong kind"), e.sentinel("ErrKeyTypeMismatch"))
			e.settle(c03RKey, FuncName(e.p, d.fn)+" "+name+" wrong key", e.p.Pos(d.fn.Pos()), v, "a key of the wrong kind returns ErrKeyTypeMismatch", "a key of the wrong kind for "+name+" is not rejected with ErrKeyTypeMismatch")
		}
		e.checkRoute(FuncName(e.p, sign)+" "+name, e.p.Pos(sign.Pos()), srun, reqS, hS, wS...)
		// verify(digest, signature, alg, key)
		vrun := e.run(e.scenario(), verify, e.args(verify, name, 32, 64), "any key")
		e.dispatchOnly(verify, name, vrun)
		e.checkRoute(FuncName(e.p, verify)+" "+name, e.p.Pos(verify.Pos()), vrun, reqV, hV, wV...)
		if reqS[0] == "crypto/ecdsa.SignASN1" {
			esSign[name], esVerify[name] = e.fingerprint(srun), e.fingerprint(vrun)
			// RFC 7518 §3.4: ES256/ES384/ES512 are ECDSA on P-256/P-384/P-521. A key on that curve
			// must be accepted, a key on another curve refused with ErrKeyTypeMismatch.
			want := map[string]string{"ES256": "P-256", "ES384": "P-384", "ES512": "P-521"}[name]
			for _, d := range []struct {
				fn   *ssa.Function
				lens []int64
			}{{sign, []int64{32}}, {verify, []int64{32, 64}}} {
				var v c03Verdict
				consults := true // false: the key object is queried in a way the interpreter does not model
				for _, curve := range []string{"P-224", "P-256", "P-384", "P-521"} {
					sc := e.scenario()
					sc.ECCurve = curve
					run := e.run(sc, d.fn, e.args(d.fn, name, d.lens...), "ECDSA key on curve "+curve)
					for _, o := range run.outs {
						for _, ev := range o.Events {
							// the curve can reach the code through the exported struct and the Crv() accessor (both
							// modelled); any other accessor of the jwk object is opaque to the interpreter
							if strings.HasPrefix(ev.Name, "github.com/lestrrat-go/jwx/v2/") && !strings.HasSuffix(ev.Name, ".Crv") &&
								!strings.HasSuffix(ev.Name, "jwk.Key.KeyType") && !strings.HasSuffix(ev.Name, "jwk.Key.Raw") && !strings.HasSuffix(ev.Name, "jwk.Key.PublicKey") {
								consults = false
							}
						}
					}
					if curve == want {
						w := e.accepted(run)
						if w.bad != "" {
							w.bad += " — " + name + " stands for ECDSA on " + want + ": the matching key is refused (or the path panics)"
						}
						v.merge(w)
					} else {
						v.merge(e.allRejected(run, e.sentinel("ErrKeyTypeMismatch")))
					}
				}
				if !consults && v.bad != "" {
					// which curves the code accepts is not visible here (the distinguishability obligation still applies)
					v.imprecise, v.bad, v.more = v.bad, "", nil
				}
				e.settle(c03RKey, FuncName(e.p, d.fn)+" "+name+" curve", e.p.Pos(d.fn.Pos()), v, "a key on "+want+" is accepted, keys on other curves return ErrKeyTypeMismatch", "the curve of the ECDSA key is not bound to the algorithm name as RFC 7518 §3.4 prescribes")
			}
		}
		sc := e.scenario()
		sc.Fail = true
		v := e.noSuccess(e.run(sc, verify, e.args(verify, name, 32, 64), "signature does not verify"))
		e.settle(c03RReject, FuncName(e.p, verify)+" "+name+" verification failure", e.p.Pos(verify.Pos()), v, "a failing verification never returns valid=true", "forged signature accepted: a verification failure reaches `true`")
	}
}

func (e *c03Env) checkUnsupported(fns []*ssa.Function) {
	for _, fn := range fns {
		var lens []int64
		for _, pa := range fn.Params {
			if _, ok := pa.Type().Underlying().(*types.Slice); ok {
				lens = append(lens, 16)
			}
		}
		var v c03Verdict
		for _, bogus := range []string{"", "A128", "A512GCM", "no-such-algorithm"} {
			sc := e.scenario()
			sc.KeyType, sc.KeyLen = "oct", 16
			run := e.run(sc, fn, e.args(fn, bogus, lens...), fmt.Sprintf("algorithm %q", bogus))
			w := c03Verdict{truncated: run.truncated, n: len(run.outs)}
			hasSentinel := false
			for _, o := range run.outs {
				errv := c03ErrOf(o)
				msg := ""
				switch {
				case o.Panic != "":
					msg = o.Panic
				case errv.K != c03NonNil:
					msg = e.describe(o) + " — no error"
				case errv.G == e.sentinel("ErrUnsupportedAlgorithm"):
					hasSentinel = true
				case errv.G == e.sentinel("ErrKeyTypeMismatch"):
					// the key object itself was refused before the name was looked at
				default:
					msg = e.describe(o) + " — not ErrUnsupportedAlgorithm"
				}
				if msg != "" {
					msg = run.desc + ": " + msg
					if o.Imprecise {
						w.imprecise = msg
					} else if w.bad == "" {
						w.bad = msg
					}
				}
			}
			if !hasSentinel && w.bad == "" && len(run.outs) > 0 {
				w.bad = run.desc + ": no path returns ErrUnsupportedAlgorithm"
			}
			v.merge(w)
		}
		e.settle(c03RUnsup, FuncName(e.p, fn)+" unknown algorithm", e.p.Pos(fn.Pos()), v, "unknown names return ErrUnsupportedAlgorithm", "an algorithm name that is not supported does not yield ErrUnsupportedAlgorithm")
	}
}

// c03FailControlled: the primitives a Fail scenario makes report failure.
var c03FailControlled = map[string]bool{"crypto/cipher.AEAD.Open": true, "crypto/hmac.Equal": true, "crypto/subtle.ConstantTimeCompare": true, "bytes.Equal": true, "slices.Equal": true,
	"crypto/rsa.DecryptPKCS1v15": true, "crypto/rsa.DecryptOAEP": true, "crypto/rsa.VerifyPKCS1v15": true, "crypto/rsa.VerifyPSS": true,
	"crypto/ecdsa.VerifyASN1": true, "crypto/ed25519.Verify": true}

// c03Comparators: the functions through which a tag / IV is compared.
var c03Comparators = map[string]bool{"crypto/hmac.Equal": true, "crypto/subtle.ConstantTimeCompare": true, "bytes.Equal": true, "slices.Equal": true}

// wholeCompared: on every success outcome of run the comparison functions
// must have been given, in total, at least `need` bytes on each side — every
// byte of the received tag / IV has to take part in the accept decision. Fewer
// bytes => VIOLATION; no known comparison function on the path, or operands of
// unknown length => imprecise (UNDECIDED).
func (e *c03Env) wholeCompared(run c03Run, need int64, what string) c03Verdict {
	v := c03Verdict{truncated: run.truncated, n: len(run.outs)}
	for _, o := range run.outs {
		if !c03Success(o) {
			continue
		}
		var total int64
		seen, unknown := false, false
		var parts []string
		for _, ev := range o.Events {
			if !c03Comparators[ev.Name] || len(ev.Args) != 2 {
				continue
			}
			seen = true
			a, b := c03KnownLen(ev.Args[0]), c03KnownLen(ev.Args[1])
			if a < 0 || b < 0 {
				unknown = true
				continue
			}
			if b < a {
				a = b
			}
			total += a
			parts = append(parts, fmt.Sprintf("%s over %d bytes", ev.Name, a))
		}
		switch {
		case !seen:
			v.imprecise = run.desc + ": the accepting path uses none of hmac.Equal / subtle.ConstantTimeCompare / bytes.Equal; how the " + what + " is compared is unknown to the checker"
		case unknown:
			v.imprecise = run.desc + ": a comparison operand has a length the interpreter cannot derive"
		case total < need:
			if v.bad == "" {
				v.bad = fmt.Sprintf("%s: the accepting path compares only %d of the %d bytes of the %s (%s): bytes %d.. are not authenticated, any change to them is accepted", run.desc, total, need, what, strings.Join(parts, ", "), total)
			}
		}
	}
	return v
}

// cmpGuard: a Fail-scenario counterexample only means something if the code
// compares through a function the Fail scenario can make fail.
func (e *c03Env) cmpGuard(run c03Run, v c03Verdict) c03Verdict {
	if v.bad == "" {
		return v
	}
	for _, o := range run.outs {
		for _, ev := range o.Events {
			if c03Comparators[ev.Name] {
				return v
			}
		}
	}
	v.imprecise, v.bad, v.more = v.bad+" (no known comparison function on the path)", "", nil
	return v
}

// ---- aeskw -----------------------------------------------------------------------

func (e *c03Env) kwScenario(fail bool) *c03Scenario {
	sc := e.scenario()
	sc.Leaves = nil
	sc.Fail = fail
	return sc
}

func (e *c03Env) checkKW() {
	p := e.p
	wrap, unwrap := p.Func("crypto/aeskw", "Wrap"), p.Func("crypto/aeskw", "Unwrap")
	if len(wrap.Params) != 2 || len(unwrap.Params) != 2 {
		undecided("aeskw.Wrap/Unwrap signature changed")
	}
	args := func(n int64) []c03V { return []c03V{c03NonNilV(), c03SliceV(n)} }
	var vU, vUF, vUA, vUW, vW, vWA c03Verdict
	for _, n := range []int64{0, 1, 7, 8, 9, 15, 17, 20, 23, 25, 31, 33} {
		vU.merge(e.allRejected(e.run(e.kwScenario(false), unwrap, args(n), fmt.Sprintf("%d-byte wrapped key", n)), ""))
	}
	for _, n := range []int64{24, 40} {
		frun := e.run(e.kwScenario(true), unwrap, args(n), fmt.Sprintf("%d-byte wrapped key, IV mismatch", n))
		vUF.merge(e.cmpGuard(frun, e.noSuccess(frun)))
		run := e.run(e.kwScenario(false), unwrap, args(n), fmt.Sprintf("%d-byte wrapped key", n))
		vUW.merge(e.wholeCompared(run, 8, "recovered 64-bit IV (A)"))
		w := e.accepted(run)
		for _, o := range run.outs {
			if c03Success(o) && w.bad == "" {
				if got := c03KnownLen(o.Res[0]); got >= 0 && got != n-8 {
					w.bad = fmt.Sprintf("%d-byte wrapped key: %d bytes returned instead of %d", n, got, n-8)
				}
			}
		}
		vUA.merge(w)
	}
	for _, n := range []int64{1, 7, 9, 17, 23} {
		vW.merge(e.allRejected(e.run(e.kwScenario(false), wrap, args(n), fmt.Sprintf("%d-byte key data", n)), ""))
	}
	for _, n := range []int64{16, 24, 32} {
		run := e.run(e.kwScenario(false), wrap, args(n), fmt.Sprintf("%d-byte key data", n))
		w := e.accepted(run)
		for _, o := range run.outs {
			if c03Success(o) && w.bad == "" {
				if got := c03KnownLen(o.Res[0]); got >= 0 && got != n+8 {
					w.bad = fmt.Sprintf("%d-byte key data: %d bytes returned instead of %d", n, got, n+8)
				}
			}
		}
		vWA.merge(w)
	}
	e.settle(c03RKW, FuncName(p, unwrap)+" malformed length", p.Pos(unwrap.Pos()), vU, "a wrapped key that is not n*8 bytes (n>=2... at least 16) always yields an error", "Unwrap does not return an error for a wrapped key of the wrong size (RFC 3394: n 64-bit blocks plus the IV block)")
	e.settle(c03RKW, FuncName(p, unwrap)+" IV mismatch", p.Pos(unwrap.Pos()), vUF, "an IV mismatch never reaches the key return", "Unwrap can return key data although the integrity check failed")
	e.settle(c03RKW, FuncName(p, unwrap)+" whole IV compared", p.Pos(unwrap.Pos()), vUW, "the accepting path compares all 8 bytes of A with the 8-byte default IV", "Unwrap accepts without comparing the whole recovered IV with A6A6A6A6A6A6A6A6")
	c03CheckCounterEncoding(p, e.r, c03RKW, FuncName(p, wrap)+" step counter encoding", wrap, 32)
	c03CheckCounterEncoding(p, e.r, c03RKW, FuncName(p, unwrap)+" step counter encoding", unwrap, 32)
	e.settle(c03RKW, FuncName(p, unwrap)+" well-formed input", p.Pos(unwrap.Pos()), vUA, "well-formed input reaches the key return (len-8 bytes) without panic", "Unwrap fails on well-formed input")
	e.settle(c03RKW, FuncName(p, wrap)+" malformed length", p.Pos(wrap.Pos()), vW, "key data that is not whole 64-bit blocks yields an error", "Wrap does not return an error for key data that is not a multiple of 8 bytes")
	e.settle(c03RKW, FuncName(p, wrap)+" well-formed input", p.Pos(wrap.Pos()), vWA, "well-formed key data is wrapped into len+8 bytes without panic", "Wrap fails on well-formed input")
}

// ---- padding ----------------------------------------------------------------------

func (e *c03Env) checkPad() {
	fn := e.p.Func("crypto/padding", "PadPKCS7")
	var v c03Verdict
	for _, n := range []int64{0, 1, 15, 16, 17, 31, 32, 33} {
		run := e.run(e.kwScenario(false), fn, []c03V{c03SliceV(n), c03IntV(16)}, fmt.Sprintf("%d-byte buffer", n))
		w := c03Verdict{truncated: run.truncated, n: len(run.outs)}
		for _, o := range run.outs {
			want := n + 16 - n%16
			if o.Panic != "" || len(o.Res) != 2 || o.Res[1].K != c03Nil || c03KnownLen(o.Res[0]) != want {
				msg := run.desc + ": " + e.describe(o) + fmt.Sprintf(" — PKCS#7 requires %d bytes and no error", want)
				if c03KnownLen(o.Res[0]) < 0 && o.Panic == "" && len(o.Res) == 2 && o.Res[1].K == c03Nil {
					w.imprecise = msg
				} else if w.bad == "" {
					w.bad = msg
				}
			}
		}
		v.merge(w)
	}
	c03CheckUnpad(e.p, e.r, c03RPad, e.p.Func("crypto/padding", "UnpadPKCS7"))
	e.settle(c03RPad, FuncName(e.p, fn)+" length", e.p.Pos(fn.Pos()), v, "PadPKCS7 always adds 1..16 bytes up to the next block boundary", "PadPKCS7 does not produce PKCS#7 padding to the block size (CBC encryption panics or does not interoperate)")
}

// c03FixtureRule is filled in c03fixture.go
