package main

// C05‑S1/S2: who may touch Cron.entries, who may start the scheduler, and
// how requests are routed to it.

import (
	"fmt"
	"go/types"
	"sort"
	"strings"

	"golang.org/x/tools/go/ssa"
)

// allowedSite: instruction in (an access or a call to a helper that touches
// entries) is executed by the scheduler goroutine, or by an API method that
// holds runningMu and has seen running==false.
func (a *c05) allowedSite(in ssa.Instruction, seen map[*ssa.Function]bool) (bool, string) {
	fn := in.Parent()
	if a.schedOnly[fn] {
		return true, ""
	}
	if ok, _ := a.underLockWithRunning(in, -1); ok {
		return true, ""
	}
	// a helper "called with the lock held on the stopped branch": every call site must qualify
	if !isExportedFunc(fn) && fn.Parent() == nil && !a.addrTaken[fn] && len(a.sites[fn]) > 0 && !seen[fn] {
		seen[fn] = true
		for _, s := range a.sites[fn] {
			if _, isGo := s.(*ssa.Go); isGo {
				return false, "reached through a go statement at " + a.pos(s) + " (a goroutine that is neither the scheduler nor a lock holder)"
			}
			if ok, why := a.allowedSite(s, seen); !ok {
				return false, "reached from " + a.name(s.Parent()) + " at " + a.pos(s) + ", where " + why
			}
		}
		return true, ""
	}
	_, why := a.underLockWithRunning(in, -1)
	return false, why
}

func (a *c05) checkOwnership() {
	r, p := a.r, a.p
	type key struct {
		fn *ssa.Function
		f  string
	}
	bad := map[key][]string{}
	cnt := map[key]int{}
	pos := map[key]string{}
	note := func(fn *ssa.Function, field string, in ssa.Instruction, what string) {
		k := key{fn, field}
		cnt[k]++
		if pos[k] == "" {
			pos[k] = a.pos(in)
		}
		if ok, why := a.allowedSite(in, map[*ssa.Function]bool{}); !ok {
			bad[k] = append(bad[k], fmt.Sprintf("%s at %s: %s", what, a.pos(in), why))
		}
	}
	for _, fn := range p.Funcs {
		for _, acc := range FieldAccesses(fn, func(id FieldID) bool { return id == a.fEntries }) {
			if acc.Fresh || !a.e.Reachable(acc.Instr) {
				continue
			}
			note(fn, "Cron.entries", acc.Instr, acc.Kind.String()+" ("+acc.What+")")
		}
		allInstrs(fn, func(in ssa.Instruction) {
			st, ok := in.(*ssa.Store)
			if !ok || !a.e.Reachable(in) {
				return
			}
			for _, f := range []FieldID{a.fNext, a.fPrev} {
				if X, ok := c05FieldAddr(st.Addr, f); ok && !isFreshBase(X) {
					note(fn, f.String(), in, "write")
				}
			}
		})
	}
	var keys []key
	for k := range cnt {
		keys = append(keys, k)
	}
	sort.Slice(keys, func(i, j int) bool {
		if a.name(keys[i].fn) != a.name(keys[j].fn) {
			return a.name(keys[i].fn) < a.name(keys[j].fn)
		}
		return keys[i].f < keys[j].f
	})
	for _, k := range keys {
		construct := a.name(k.fn) + " -> " + k.f
		if len(bad[k]) == 0 {
			ctx := "scheduler goroutine"
			if !a.schedOnly[k.fn] {
				ctx = "runningMu held and running==false at every access / call site"
			}
			r.OK("C05.S1-ownership", construct, pos[k], fmt.Sprintf("%d accesses, %s", cnt[k], ctx))
			continue
		}
		// option-style constructor closures run before the Cron is published
		if k.fn.Parent() != nil && k.fn.Signature.Results().Len() == 0 && k.fn.Signature.Params().Len() == 1 && namedKey(k.fn.Signature.Params().At(0).Type()) == a.fEntries.Type {
			r.Note("C05.S1: %s touches %s without the lock; treated as a construction-time option (func(*Cron)), not armed", a.name(k.fn), k.f)
			continue
		}
		r.Violation("C05.S1-ownership", construct, pos[k],
			fmt.Sprintf("%d of %d accesses to %s can run concurrently with the scheduler goroutine's own reads and writes (neither the scheduler, nor runningMu held with running==false): the scheduler may keep running or re-add a removed entry, skip or double-start entries, and Entries() may return torn values", len(bad[k]), cnt[k], k.f),
			bad[k]...)
	}

	// S1b: the scheduler is started only from "!running -> running=true" sections
	for _, s := range a.sites[a.sched] {
		fn := s.Parent()
		construct := a.name(fn) + " starts the scheduler"
		var ok bool
		why := "no store Cron.running = true dominates the start"
		allInstrs(fn, func(in ssa.Instruction) {
			st, isSt := in.(*ssa.Store)
			if !isSt || ok {
				return
			}
			if _, isR := c05FieldAddr(st.Addr, a.fRunning); !isR {
				return
			}
			k, isK := st.Val.(*ssa.Const)
			if !isK || k.Value == nil || k.Value.String() != "true" {
				return
			}
			if !instrDominates(in, s) {
				return
			}
			if good, w := a.underLockWithRunning(in, -1); good {
				ok = true
			} else {
				why = "Cron.running = true at " + a.pos(in) + ": " + w
			}
		})
		r.Check(ok, "C05.S1-single-scheduler", construct, a.pos(s),
			"started after running was read false and set true inside one runningMu section",
			"a second scheduler goroutine can be started while one is running (Start/Run twice, or concurrently): both consume the timer and the request channels and mutate entries, so activations are started twice or lost ("+why+")")
	}
}

// chanFieldOf: the Cron channel field a channel value was loaded from.
func (a *c05) chanFieldOf(v ssa.Value) (FieldID, bool) {
	for _, f := range []FieldID{a.fAdd, a.fRemove, a.fSnapshot, a.fStop} {
		if _, ok := c05LoadOf(v, f); ok {
			return f, true
		}
	}
	return FieldID{}, false
}

type c05Send struct {
	instr ssa.Instruction
	field FieldID
	val   ssa.Value
}

func (a *c05) sends(fn *ssa.Function) []c05Send {
	var out []c05Send
	allInstrs(fn, func(in ssa.Instruction) {
		switch x := in.(type) {
		case *ssa.Send:
			if f, ok := a.chanFieldOf(x.Chan); ok {
				out = append(out, c05Send{in, f, x.X})
			}
		case *ssa.Select:
			for _, st := range x.States {
				if st.Dir == types.SendOnly {
					if f, ok := a.chanFieldOf(st.Chan); ok {
						out = append(out, c05Send{in, f, st.Send})
					}
				}
			}
		}
	})
	return out
}

func (a *c05) checkRouting() {
	r, p := a.r, a.p
	storesEntries := a.mayStore(a.fEntries)
	for _, fn := range p.Funcs {
		ss := a.sends(fn)
		if len(ss) == 0 {
			continue
		}
		for _, s := range ss {
			construct := a.name(fn) + " send on " + s.field.String()
			if a.schedOnly[fn] {
				r.Violation("C05.S2-routing", construct, a.pos(s.instr), "the scheduler goroutine sends on its own request channel "+s.field.String()+": nobody else receives from it, the scheduler blocks forever and no further activation is started")
				continue
			}
			ok, why := a.underLockWithRunning(s.instr, +1)
			r.Check(ok, "C05.S2-routing", construct, a.pos(s.instr),
				"request sent with runningMu held on the running==true branch",
				"a request is sent to the scheduler without knowing, under runningMu, that a scheduler is running ("+why+"): with no scheduler (not started, or stopped in between) the send blocks forever holding or racing the lock, so the call never returns and every later Start/Stop/Remove hangs")
		}
		// twin: the same function must apply the request itself on the stopped branch
		for _, s := range ss {
			switch s.field {
			case a.fStop:
				a.checkStopClears(fn, s)
			case a.fRemove, a.fAdd:
				construct := a.name(fn) + " applies or forwards " + strings.TrimPrefix(s.field.String(), "Cron.")
				ff := &FlagFlow{Fn: fn, Must: true,
					Transfer: func(in ssa.Instruction, st uint64) uint64 {
						if in == s.instr {
							return st | 1
						}
						switch x := in.(type) {
						case *ssa.Call:
							if cal := staticCallee(x); cal != nil && storesEntries[cal] {
								for _, arg := range x.Call.Args {
									if arg == s.val {
										return st | 1
									}
								}
							}
						case *ssa.Store:
							if _, ok := c05FieldAddr(x.Addr, a.fEntries); ok && s.field == a.fAdd && a.appendContains(x.Val, s.val) {
								return st | 1
							}
						}
						return st
					}}
				ff.Run()
				good, n, where := true, 0, ""
				ff.AtReturns(func(ret *ssa.Return, st uint64) {
					n++
					if st&1 == 0 {
						good = false
						where = a.pos(ret)
					}
				})
				what := "removal"
				if s.field == a.fAdd {
					what = "new entry"
				}
				r.Check(good && n > 0, "C05.S2-twin", construct, a.pos(s.instr),
					"every return has either handed the "+what+" to the scheduler or applied it to Cron.entries itself",
					"on some path (return at "+where+") the "+what+" is neither sent to the scheduler nor applied to Cron.entries: before Start / after Stop the call is silently dropped (a removed entry is started after the next Start; an added one never runs)")
			}
		}
	}
}

// appendContains: v is append(..., elem...) (possibly through phis) containing elem.
func (a *c05) appendContains(v, elem ssa.Value) bool {
	call, ok := v.(*ssa.Call)
	if !ok || builtinName(call) != "append" || len(call.Call.Args) != 2 {
		return false
	}
	sl, ok := call.Call.Args[1].(*ssa.Slice)
	if !ok {
		return false
	}
	arr, ok := sl.X.(*ssa.Alloc)
	if !ok {
		return false
	}
	for _, rr := range refs(arr) {
		if ia, ok := rr.(*ssa.IndexAddr); ok {
			for _, r2 := range refs(ia) {
				if st, ok := r2.(*ssa.Store); ok && st.Val == elem {
					return true
				}
			}
		}
	}
	return false
}

// checkStopClears: every return reachable after the send on Cron.stop has stored running=false.
func (a *c05) checkStopClears(fn *ssa.Function, s c05Send) {
	const sent, cleared = 1, 2
	ff := &FlagFlow{Fn: fn, Must: false, Entry: 1 << 0,
		Transfer: func(in ssa.Instruction, st uint64) uint64 {
			if in == s.instr {
				return mapStates(st, func(x int) int { return x | sent })
			}
			if x, ok := in.(*ssa.Store); ok {
				if _, isR := c05FieldAddr(x.Addr, a.fRunning); isR {
					if k, isK := x.Val.(*ssa.Const); isK && k.Value != nil && k.Value.String() == "false" && a.e.At(in)[a.lockID] == ModeW {
						return mapStates(st, func(x int) int { return x | cleared })
					}
					return mapStates(st, func(x int) int { return x &^ cleared })
				}
			}
			return st
		}}
	ff.Run()
	good, n := true, 0
	ff.AtReturns(func(ret *ssa.Return, st uint64) {
		n++
		if st&(1<<sent) != 0 { // state {sent} without cleared
			good = false
		}
	})
	a.r.Check(good && n > 0, "C05.S2-stop-clears-running", a.name(fn)+" clears Cron.running after the stop request", a.pos(s.instr),
		"every return after the stop request has stored running=false under runningMu",
		"Stop can return with the scheduler gone but Cron.running still true: later Schedule/Remove/Entries/Stop send to a scheduler that no longer exists and hang, and Start is a no-op, so after a restart no activation is ever started")
}
