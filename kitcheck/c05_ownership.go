package main

// C05‑S1/S2: who may touch Cron.entries, who may start the scheduler, and
// how requests are routed to it. All decisions are made on an interprocedural
// path-sensitive flow (c05Flow) whose global state is
//
//	rv      what this goroutine knows about Cron.running while it has held the
//	        lock continuously since it read the flag (unknown / true / false)
//	claimed this goroutine has set running=true after seeing it false under the
//	        lock, i.e. it is (about to become) the scheduler
//
// so helper extraction, inlining, temporaries (`was := c.running`), early
// returns, defer vs explicit Unlock and bool helpers (`c.isRunning()`) do not
// matter.

import (
	"fmt"
	"go/token"
	"go/types"
	"sort"

	"golang.org/x/tools/go/ssa"
)

const (
	c05rvUnk    = 0 // the mutex is not held (or nothing is known)
	c05rvT      = 1 // mutex held since the flag was read true
	c05rvF      = 2 // mutex held since the flag was read false
	c05rvLocked = 3 // mutex held, flag not read yet
)

func c05Rv(g int) int       { return g % 4 }
func c05Claimed(g int) bool { return g/4 == 1 }
func c05MkRun(rv int, claimed bool) int {
	if claimed {
		return rv + 4
	}
	return rv
}

// isRunningLoad: v is a load of Cron.running.
func (a *c05) isRunningLoad(v ssa.Value) bool {
	u, ok := v.(*ssa.UnOp)
	if !ok || u.Op != token.MUL {
		return false
	}
	_, ok = c05FieldAddr(u.X, a.fRunning)
	return ok
}

func c05IsBool(t types.Type) bool {
	b, ok := t.Underlying().(*types.Basic)
	return ok && b.Kind() == types.Bool
}

// lockOpOnMu: in acquires/releases Cron.runningMu.
func (a *c05) lockOpOnMu(in ssa.Instruction) bool {
	ci, ok := in.(ssa.CallInstruction)
	if !ok {
		return false
	}
	id, _, ok := a.e.lockOp(ci)
	return ok && id == a.lockID
}

// runFlow builds the running/claimed flow. onlyRoot != nil: only that function is a root.
func (a *c05) runFlow() *c05Flow {
	// The mutex state is part of the flow (not taken from the lockset engine), so
	// that code running inside a callback such as withLock(func(){...}) or in a
	// helper entered with the mutex held is judged in its caller's state.
	f := &c05Flow{a: a, G: 8, Cells: true, Fresh: 0}
	f.Tracked = func(v ssa.Value) bool {
		if a.isRunningLoad(v) {
			return true
		}
		if call, ok := v.(*ssa.Call); ok {
			h := staticCallee(call)
			return h != nil && a.p.funcSet[h] && h.Pkg != nil && h.Pkg.Pkg.Path() == a.pkg &&
				h.Signature.Results().Len() == 1 && c05IsBool(h.Signature.Results().At(0).Type())
		}
		return false
	}
	f.Step = func(in ssa.Instruction, g int) (int, bool) {
		if ci, ok := in.(ssa.CallInstruction); ok {
			if id, kind, ok := a.e.lockOp(ci); ok && id == a.lockID {
				if kind == opLock || kind == opRLock {
					return c05MkRun(c05rvLocked, c05Claimed(g)), true
				}
				return c05MkRun(c05rvUnk, c05Claimed(g)), true
			}
		}
		if st, ok := in.(*ssa.Store); ok {
			if _, isR := c05FieldAddr(st.Addr, a.fRunning); isR {
				k, isK := st.Val.(*ssa.Const)
				switch {
				case isK && k.Value != nil && k.Value.String() == "true":
					switch c05Rv(g) {
					case c05rvF:
						return c05MkRun(c05rvT, true), false // read false, set true, mutex held throughout: claimed
					case c05rvUnk:
						return g, false
					}
					return c05MkRun(c05rvT, c05Claimed(g)), false
				case isK && k.Value != nil && k.Value.String() == "false":
					// rv is knowledge about a scheduler being alive, gained by READING the
					// flag under the mutex; clearing the flag does not make the scheduler
					// go away (Stop's handshake does), so rv is kept.
					return c05MkRun(c05Rv(g), false), false
				default:
					rv := c05Rv(g)
					if rv == c05rvT || rv == c05rvF {
						rv = c05rvLocked
					}
					return c05MkRun(rv, false), false
				}
			}
		}
		return g, false
	}
	f.Cond = func(at ssa.Instruction, v ssa.Value, tv bool, g int) int {
		if !a.isRunningLoad(v) {
			return g
		}
		ld := v.(ssa.Instruction)
		if c05Rv(g) == c05rvUnk || ld.Parent() != at.Parent() {
			return g // not under the mutex now
		}
		// same critical section: no acquisition of the mutex between the read and here
		sec := a.section(at.Parent())
		if sec[ld] != sec[at] {
			return g
		}
		if tv {
			return c05MkRun(c05rvT, c05Claimed(g))
		}
		return c05MkRun(c05rvF, c05Claimed(g))
	}
	f.Exit = func(fn *ssa.Function, g int) int {
		if a.schedRoots[fn] {
			return 0 // the scheduler role ends when the loop returns
		}
		return g
	}
	f.GoEntry = func(goi *ssa.Go, g int) (int, bool) {
		if h := staticCallee(goi); h != nil && a.reachLoop[h] {
			return c05MkRun(c05rvUnk, c05Claimed(g)), true // the role is handed to the scheduler goroutine
		}
		return 0, false
	}
	return f
}

// runningUndecodable: fn uses a load of Cron.running in a way the flow does not follow.
func (a *c05) runningUndecodable(fn *ssa.Function) string {
	why := ""
	allInstrs(fn, func(in ssa.Instruction) {
		v, ok := in.(ssa.Value)
		if !ok || !a.isRunningLoad(v) {
			return
		}
		var chk func(x ssa.Value, depth int)
		chk = func(x ssa.Value, depth int) {
			for _, r := range refs(x) {
				switch y := r.(type) {
				case *ssa.If, *ssa.Return, *ssa.DebugRef:
				case *ssa.UnOp:
					if y.Op == token.NOT && depth < 4 {
						chk(y, depth+1)
					} else {
						why = "Cron.running is used in an expression at " + a.pos(r)
					}
				case *ssa.BinOp:
					_, c1 := y.X.(*ssa.Const)
					_, c2 := y.Y.(*ssa.Const)
					if (c1 || c2) && (y.Op == token.EQL || y.Op == token.NEQ) && depth < 4 {
						chk(y, depth+1)
					} else {
						why = "Cron.running is combined with another condition at " + a.pos(r)
					}
				default:
					why = "the value of Cron.running flows into " + r.String() + " at " + a.pos(r)
				}
			}
		}
		chk(v, 0)
	})
	return why
}

// ctxOK: decide a requirement on all states before in; verdict "" ok,
// "unreached", or the reason.
func (a *c05) ctxAll(in ssa.Instruction, pred func(g int) bool, describe func(g int) string) (ok bool, why string, reached bool) {
	st := a.run.At(in)
	gs := a.run.Globals(st)
	if len(gs) == 0 {
		return true, "", false
	}
	for _, g := range gs {
		if !pred(g) {
			return false, describe(g), true
		}
	}
	return true, "", true
}

func (a *c05) describeRun(in ssa.Instruction) func(g int) string {
	return func(g int) string {
		s := "on some path it executes "
		{
			switch c05Rv(g) {
			case c05rvUnk:
				s += "without the mutex"
			case c05rvLocked:
				s += "with the mutex held but without having tested the running flag since it was taken"
			case c05rvT:
				s += "on the branch where the running flag is true"
			case c05rvF:
				s += "on the branch where the running flag is false"
			}
		}
		if c05Claimed(g) {
			s += " (as the scheduler)"
		}
		return s
	}
}

// imprecise: a violation found in fn (or a caller chain) cannot be trusted.
func (a *c05) impreciseAt(in ssa.Instruction) string {
	seen := map[*ssa.Function]bool{}
	var walk func(fn *ssa.Function) string
	walk = func(fn *ssa.Function) string {
		if seen[fn] {
			return ""
		}
		seen[fn] = true
		if w := a.runningUndecodable(fn); w != "" {
			return a.name(fn) + ": " + w
		}
		if a.run.Imprecise[fn] {
			return a.name(fn) + " branches on more than two running-related booleans"
		}
		if isExportedFunc(fn) {
			return ""
		}
		for _, s := range a.sites[fn] {
			if w := walk(s.Parent()); w != "" {
				return w
			}
		}
		return ""
	}
	return walk(in.Parent())
}

func (a *c05) checkOwnership() {
	r, p := a.r, a.p
	a.run = a.runFlow()
	a.run.Run(nil)
	type key struct {
		fn *ssa.Function
		f  string
	}
	bad := map[key][]string{}
	undec := map[key]string{}
	cnt := map[key]int{}
	pos := map[key]string{}
	note := func(fn *ssa.Function, field string, in ssa.Instruction, what string) {
		ok, why, reached := a.ctxAll(in, func(g int) bool {
			// rv is only known while the mutex has been held since the flag was read
			return c05Claimed(g) || c05Rv(g) == c05rvF
		}, a.describeRun(in))
		if !reached {
			return
		}
		k := key{fn, field}
		cnt[k]++
		if pos[k] == "" {
			pos[k] = a.pos(in)
		}
		if !ok {
			if imp := a.impreciseAt(in); imp != "" {
				undec[k] = imp
			}
			bad[k] = append(bad[k], fmt.Sprintf("%s at %s: %s", what, a.pos(in), why))
		}
	}
	for _, fn := range p.Funcs {
		for _, acc := range FieldAccesses(fn, func(id FieldID) bool { return id == a.fEntries }) {
			if acc.Fresh || !a.e.Reachable(acc.Instr) {
				continue
			}
			note(fn, "Cron.entries", acc.Instr, acc.Kind.String()+" ("+acc.What+")")
		}
		allInstrs(fn, func(in ssa.Instruction) {
			st, ok := in.(*ssa.Store)
			if !ok || !a.e.Reachable(in) {
				return
			}
			for _, f := range []FieldID{a.fNext, a.fPrev} {
				if X, ok := c05FieldAddr(st.Addr, f); ok && !isFreshBase(X) {
					note(fn, "Entry."+f.Field, in, "write")
				}
			}
		})
	}
	var keys []key
	for k := range cnt {
		keys = append(keys, k)
	}
	sort.Slice(keys, func(i, j int) bool {
		if a.name(keys[i].fn) != a.name(keys[j].fn) {
			return a.name(keys[i].fn) < a.name(keys[j].fn)
		}
		return keys[i].f < keys[j].f
	})
	// Obligation keys are role-based (one per protected datum), so that moving
	// code between helpers does not change them.
	agg := map[string]*struct {
		n   int
		bad []string
		pos string
		und string
	}{}
	var order []string
	for _, k := range keys {
		if k.fn.Parent() != nil && k.fn.Signature.Results().Len() == 0 && k.fn.Signature.Params().Len() == 1 && namedKey(k.fn.Signature.Params().At(0).Type()) == a.fEntries.Type && len(bad[k]) > 0 {
			r.Note("C05.S1: %s touches %s without the lock; treated as a construction-time option (func(*Cron)), not armed", a.name(k.fn), k.f)
			continue
		}
		c := "accesses to " + k.f
		g := agg[c]
		if g == nil {
			g = &struct {
				n   int
				bad []string
				pos string
				und string
			}{}
			agg[c] = g
			order = append(order, c)
		}
		g.n += cnt[k]
		if g.pos == "" || len(bad[k]) > 0 {
			g.pos = pos[k]
		}
		for _, b := range bad[k] {
			g.bad = append(g.bad, a.name(k.fn)+": "+b)
		}
		if undec[k] != "" {
			g.und = undec[k]
		}
	}
	sort.Strings(order)
	for _, c := range order {
		g := agg[c]
		if len(g.bad) == 0 {
			r.OK("C05.S1-ownership", c, g.pos, fmt.Sprintf("%d accesses: each runs as the scheduler (running claimed by this goroutine) or with the mutex held after reading running==false", g.n))
			continue
		}
		if g.und != "" {
			r.Undecide("C05.S1-ownership: %s: %d accesses are not shown protected, but the running flag is used in a form the checker does not follow (%s)", c, len(g.bad), g.und)
			continue
		}
		r.Violation("C05.S1-ownership", c, g.pos,
			fmt.Sprintf("%d of %d accesses can run concurrently with the scheduler goroutine's own reads and writes (neither executed by the scheduler, nor with the mutex held after reading running==false): the scheduler may keep running or re-add a removed entry, skip or double-start entries, and Entries() may return torn values", len(g.bad), g.n),
			g.bad...)
	}

	// S1b: every way into the scheduler loop has claimed the running flag.
	var roots []*ssa.Function
	for _, fn := range a.funcs {
		if isExportedFunc(fn) && a.reachLoop[fn] {
			roots = append(roots, fn)
		}
	}
	if len(roots) == 0 {
		r.Undecide("C05.S1: no exported function reaches the scheduler loop %s", a.name(a.sched))
	}
	for _, root := range roots {
		f := a.runFlow()
		f.NoDefaultRoots = true
		f.Run(map[*ssa.Function]int{root: 0})
		construct := a.name(root) + " starts the scheduler"
		gs := f.EntryGlobals(a.sched)
		if len(gs) == 0 {
			continue
		}
		ok := true
		for _, g := range gs {
			if !c05Claimed(g) {
				ok = false
			}
		}
		if !ok {
			imp := ""
			for fn := range a.reachFrom(root, true) {
				if w := a.runningUndecodable(fn); w != "" && imp == "" {
					imp = a.name(fn) + ": " + w
				}
				if f.Imprecise[fn] && imp == "" {
					imp = a.name(fn) + " branches on more than two running-related booleans"
				}
			}
			if imp != "" {
				r.Undecide("C05.S1-single-scheduler: %s: the loop is not shown to be entered only after claiming the running flag, but the flag is used in a form the checker does not follow (%s)", construct, imp)
				continue
			}
		}
		r.Check(ok, "C05.S1-single-scheduler", construct, p.Pos(root.Pos()),
			"on every path from this entry point the scheduler loop is entered only after running was read false and set true inside one critical section",
			"a second scheduler can be started while one is running (Start/Run twice, or concurrently): on some path from "+a.name(root)+" the loop "+a.name(a.sched)+" is entered without having read running==false and stored running=true in one critical section; both schedulers consume the timer and the request channels and mutate entries, so activations are started twice or lost")
	}
}

// chanFieldOf: the Cron channel field a channel value was loaded from.
func (a *c05) chanFieldOf(v ssa.Value) (FieldID, bool) {
	for _, f := range []FieldID{a.fAdd, a.fRemove, a.fSnapshot, a.fStop} {
		if f.Field == "" {
			continue
		}
		if _, ok := c05LoadOf(v, f); ok {
			return f, true
		}
	}
	return FieldID{}, false
}

type c05Send struct {
	instr ssa.Instruction
	field FieldID
	val   ssa.Value
}

func (a *c05) sends(fn *ssa.Function) []c05Send {
	var out []c05Send
	allInstrs(fn, func(in ssa.Instruction) {
		switch x := in.(type) {
		case *ssa.Send:
			if f, ok := a.chanFieldOf(x.Chan); ok {
				out = append(out, c05Send{in, f, x.X})
			}
		case *ssa.Select:
			for _, st := range x.States {
				if st.Dir == types.SendOnly {
					if f, ok := a.chanFieldOf(st.Chan); ok {
						out = append(out, c05Send{in, f, st.Send})
					}
				}
			}
		}
	})
	return out
}

func (a *c05) roleOf(f FieldID) string {
	switch f {
	case a.fAdd:
		return "add"
	case a.fRemove:
		return "remove"
	case a.fSnapshot:
		return "snapshot"
	case a.fStop:
		return "stop"
	}
	return f.Field
}

// apiRoots: exported functions from which fn is reached through static calls.
func (a *c05) apiRoots(fn *ssa.Function) []string {
	var out []string
	for _, r := range a.funcs {
		if isExportedFunc(r) && a.reachFrom(r, false)[fn] {
			out = append(out, a.name(r))
		}
	}
	sort.Strings(out)
	if len(out) == 0 {
		out = []string{a.name(fn)}
	}
	return out
}

func (a *c05) checkRouting() {
	r := a.r
	for _, fn := range a.funcs {
		for _, s := range a.sends(fn) {
			role := a.roleOf(s.field)
			construct := "send on the " + role + " channel"
			selfSend := false
			ok, why, reached := a.ctxAll(s.instr, func(g int) bool {
				if c05Claimed(g) {
					selfSend = true
					return false
				}
				return c05Rv(g) == c05rvT
			}, a.describeRun(s.instr))
			if !reached {
				continue
			}
			if selfSend {
				r.Violation("C05.S2-routing", construct, a.pos(s.instr), "the scheduler goroutine sends on its own request channel ("+role+"): nobody else receives from it, the scheduler blocks forever and no further activation is started")
				continue
			}
			if !ok {
				if imp := a.impreciseAt(s.instr); imp != "" {
					r.Undecide("C05.S2-routing: %s: not shown to be on the running branch under the mutex, but the running flag is used in a form the checker does not follow (%s)", construct, imp)
					continue
				}
			}
			r.Check(ok, "C05.S2-routing", construct, a.pos(s.instr),
				"request sent with the mutex held on the running==true branch",
				"a request is sent to the scheduler without knowing, under the mutex, that a scheduler is running ("+why+"): with no scheduler (not started, or stopped in between) the send blocks forever holding or racing the lock, so the call never returns and every later Start/Stop/Remove hangs")
		}
	}
	a.checkTwins()
	a.checkStopClears()
}

// checkTwins: every return of an exported method that can forward a removal /
// an addition to the scheduler has either forwarded it or applied it to
// Cron.entries itself.
func (a *c05) checkTwins() {
	r := a.r
	for _, field := range []FieldID{a.fRemove, a.fAdd} {
		field := field
		sendsOn := map[*ssa.Function]bool{}
		for _, fn := range a.funcs {
			for _, s := range a.sends(fn) {
				if s.field == field {
					sendsOn[fn] = true
				}
			}
		}
		// the value being forwarded, per function that sends it
		sentVal := map[*ssa.Function]ssa.Value{}
		for _, fn := range a.funcs {
			for _, s := range a.sends(fn) {
				if s.field == field {
					sentVal[fn] = s.val
				}
			}
		}
		storesEntries := a.mayStore(a.fEntries)
		f := &c05Flow{a: a, G: 2}
		f.Step = func(in ssa.Instruction, g int) (int, bool) {
			switch x := in.(type) {
			case *ssa.Call:
				// an applier called next to the send with a value of the forwarded
				// type that is not the forwarded value does not apply THIS request
				h := staticCallee(x)
				v := sentVal[in.Parent()]
				if h != nil && v != nil && storesEntries[h] {
					takes, passes := false, false
					for k, arg := range x.Call.Args {
						if k < len(h.Params) && types.Identical(h.Params[k].Type(), v.Type()) {
							takes = true
							if c05SameVar(arg, v) {
								passes = true
							}
						}
					}
					if takes && !passes {
						return g, true
					}
				}
			case *ssa.Send:
				if fl, ok := a.chanFieldOf(x.Chan); ok && fl == field {
					return 1, false
				}
			case *ssa.Select:
				for _, st := range x.States {
					if st.Dir == types.SendOnly {
						if fl, ok := a.chanFieldOf(st.Chan); ok && fl == field {
							return 1, false
						}
					}
				}
			case *ssa.Store:
				if _, ok := c05FieldAddr(x.Addr, a.fEntries); ok {
					return 1, false
				}
			}
			return g, false
		}
		if field == a.fRemove {
			f.EdgeG = func(from, to *ssa.BasicBlock, g int) int {
				if a.removalMiss(from, to) {
					return 1 // searched, not there: nothing to apply
				}
				return g
			}
		}
		f.Run(nil)
		what := "removal"
		if field == a.fAdd {
			what = "new entry"
		}
		for _, root := range a.funcs {
			if !isExportedFunc(root) {
				continue
			}
			reaches := false
			for h := range a.reachFrom(root, false) {
				if sendsOn[h] {
					reaches = true
				}
			}
			if !reaches {
				continue
			}
			// wrappers that only delegate to another exported forwarder are covered by it
			delegates := false
			allInstrs(root, func(in ssa.Instruction) {
				if ci, ok := in.(*ssa.Call); ok {
					if h := staticCallee(ci); h != nil && h != root && isExportedFunc(h) {
						for x := range a.reachFrom(h, false) {
							if sendsOn[x] {
								delegates = true
							}
						}
					}
				}
			})
			if delegates && !sendsOn[root] {
				continue
			}
			construct := a.name(root) + " applies or forwards the " + what
			good, n, where := true, 0, ""
			allInstrs(root, func(in ssa.Instruction) {
				ret, ok := in.(*ssa.Return)
				if !ok {
					return
				}
				gs := f.Globals(f.At(ret))
				if len(gs) == 0 {
					return
				}
				n++
				for _, g := range gs {
					if g == 0 {
						good = false
						where = a.pos(ret)
					}
				}
			})
			r.Check(good && n > 0, "C05.S2-twin", construct, a.p.Pos(root.Pos()),
				"every return has either handed the "+what+" to the scheduler or applied it to Cron.entries itself",
				"on some path (return at "+where+") the "+what+" is neither sent to the scheduler nor applied to Cron.entries: before Start / after Stop the call is silently dropped (a removed entry is started after the next Start; an added one never runs)")
		}
	}
}

// checkStopClears: every return of an exported method after the stop request has stored running=false.
func (a *c05) checkStopClears() {
	const sent, cleared = 1, 2
	f := &c05Flow{a: a, G: 4}
	isStopSend := func(in ssa.Instruction) bool {
		switch x := in.(type) {
		case *ssa.Send:
			fl, ok := a.chanFieldOf(x.Chan)
			return ok && fl == a.fStop
		case *ssa.Select:
			for _, st := range x.States {
				if st.Dir == types.SendOnly {
					if fl, ok := a.chanFieldOf(st.Chan); ok && fl == a.fStop {
						return true
					}
				}
			}
		}
		return false
	}
	f.Step = func(in ssa.Instruction, g int) (int, bool) {
		if isStopSend(in) {
			return g | sent, false
		}
		if x, ok := in.(*ssa.Store); ok {
			if _, isR := c05FieldAddr(x.Addr, a.fRunning); isR {
				if k, isK := x.Val.(*ssa.Const); isK && k.Value != nil && k.Value.String() == "false" && a.mutexHeldAt(in) {
					return g | cleared, false
				}
				return g &^ cleared, false
			}
		}
		return g, false
	}
	f.Run(nil)
	for _, root := range a.funcs {
		if !isExportedFunc(root) {
			continue
		}
		reaches := false
		for h := range a.reachFrom(root, false) {
			allInstrs(h, func(in ssa.Instruction) {
				if isStopSend(in) {
					reaches = true
				}
			})
		}
		if !reaches {
			continue
		}
		good, n := true, 0
		allInstrs(root, func(in ssa.Instruction) {
			ret, ok := in.(*ssa.Return)
			if !ok {
				return
			}
			gs := f.Globals(f.At(ret))
			if len(gs) == 0 {
				return
			}
			n++
			for _, g := range gs {
				if g&sent != 0 && g&cleared == 0 {
					good = false
				}
			}
		})
		a.r.Check(good && n > 0, "C05.S2-stop-clears-running", a.name(root)+" clears the running flag after the stop request", a.p.Pos(root.Pos()),
			"every return after the stop request has stored running=false under the mutex",
			"Stop can return with the scheduler gone but Cron.running still true: later Schedule/Remove/Entries/Stop send to a scheduler that no longer exists and hang, and Start is a no-op, so after a restart no activation is ever started")
	}
}

// appendContains: v is append(..., elem...) (possibly through phis) containing elem.
func (a *c05) appendContains(v, elem ssa.Value) bool {
	call, ok := v.(*ssa.Call)
	if !ok || builtinName(call) != "append" || len(call.Call.Args) != 2 {
		return false
	}
	sl, ok := call.Call.Args[1].(*ssa.Slice)
	if !ok {
		return false
	}
	arr, ok := sl.X.(*ssa.Alloc)
	if !ok {
		return false
	}
	for _, rr := range refs(arr) {
		if ia, ok := rr.(*ssa.IndexAddr); ok {
			for _, r2 := range refs(ia) {
				if st, ok := r2.(*ssa.Store); ok && st.Val == elem {
					return true
				}
			}
		}
	}
	return false
}

// mutexHeldAt: in every state of the running/claimed flow the mutex is held at in.
func (a *c05) mutexHeldAt(in ssa.Instruction) bool {
	if a.run == nil {
		return a.e.At(in)[a.lockID] == ModeW
	}
	ok, reached := a.run.All(in, func(g int) bool { return c05Rv(g) != c05rvUnk })
	return ok && reached
}
