package main

// Field access enumeration and the guarded-by / single-critical-section rules
// built on the lockset engine.

import (
	"fmt"
	"go/token"
	"go/types"

	"golang.org/x/tools/go/ssa"
)

type AccessKind int

const (
	AccRead AccessKind = iota
	AccWrite
	AccCall // the field (or the object it refers to) is handed to a call
)

func (k AccessKind) String() string {
	return [...]string{"read", "write", "call"}[k]
}

// Access is one use of a struct field (or of the map/slice/pointer value
// loaded from it) inside a function.
type Access struct {
	Fn    *ssa.Function
	Instr ssa.Instruction
	ID    FieldID
	Kind  AccessKind
	Fresh bool // the base object was allocated in this function (constructor)
	What  string
	// Header: a load of a map/slice/pointer-valued field itself (the reference),
	// as opposed to a read of the contents it refers to.
	Header bool
}

func isFreshBase(v ssa.Value) bool {
	switch x := v.(type) {
	case *ssa.Alloc:
		return true
	case *ssa.UnOp:
		// load of a local variable cell that only ever holds fresh objects
		// (a captured `p := &T{...}`); callers additionally require that the
		// access is not reachable from a `go` statement (see prePublication).
		if cell, ok := x.X.(*ssa.Alloc); ok && x.Op == token.MUL {
			n := 0
			for _, r := range refs(cell) {
				if st, ok := r.(*ssa.Store); ok && st.Addr == cell {
					if a, ok := st.Val.(*ssa.Alloc); !ok || !a.Heap {
						return false
					}
					n++
				}
			}
			return n > 0
		}
	case *ssa.FieldAddr:
		return isFreshBase(x.X)
	case *ssa.MakeInterface:
		return isFreshBase(x.X)
	case *ssa.ChangeType:
		return isFreshBase(x.X)
	}
	return false
}

func isRefKind(t types.Type) bool {
	switch t.Underlying().(type) {
	case *types.Map, *types.Slice, *types.Pointer, *types.Interface, *types.Chan, *types.Signature:
		return true
	}
	if _, ok := t.(*types.TypeParam); ok {
		return true
	}
	return false
}

// FieldAccesses enumerates accesses in fn to fields for which want returns true.
func FieldAccesses(fn *ssa.Function, want func(FieldID) bool) []Access {
	var out []Access
	seen := map[string]bool{}
	add := func(in ssa.Instruction, id FieldID, k AccessKind, fresh bool, what string) bool {
		key := fmt.Sprintf("%p|%v|%d|%s", in, id, k, what)
		if seen[key] {
			return false
		}
		seen[key] = true
		if fresh && !prePublication(in) {
			fresh = false
		}
		out = append(out, Access{Fn: fn, Instr: in, ID: id, Kind: k, Fresh: fresh, What: what})
		return true
	}
	var followValue func(v ssa.Value, id FieldID, fresh bool, depth int)
	var followAddr func(addr ssa.Value, id FieldID, fresh bool, depth int)

	followValue = func(v ssa.Value, id FieldID, fresh bool, depth int) {
		if depth > 6 {
			return
		}
		for _, r := range refs(v) {
			switch x := r.(type) {
			case *ssa.MapUpdate:
				if x.Map == v {
					add(r, id, AccWrite, fresh, "map update")
				}
			case *ssa.Lookup:
				if x.X == v {
					add(r, id, AccRead, fresh, "map/string lookup")
				}
			case *ssa.Range:
				add(r, id, AccRead, fresh, "range")
				for _, rr := range refs(x) {
					if _, ok := rr.(*ssa.Next); ok {
						add(rr, id, AccRead, fresh, "range next")
					}
				}
			case *ssa.IndexAddr:
				if x.X == v {
					followAddr(x, id, fresh, depth+1)
				}
			case *ssa.Index:
				if x.X == v {
					add(r, id, AccRead, fresh, "index")
				}
			case *ssa.Slice:
				if x.X == v {
					add(r, id, AccRead, fresh, "slice")
					followValue(x, id, fresh, depth+1)
				}
			case ssa.CallInstruction:
				if b := builtinName(x); b != "" {
					args := x.Common().Args
					switch b {
					case "len", "cap":
						add(r, id, AccRead, fresh, b)
					case "delete", "clear":
						add(r, id, AccWrite, fresh, b)
					case "append":
						add(r, id, AccRead, fresh, "append")
					case "copy":
						if len(args) == 2 && args[0] == v {
							add(r, id, AccWrite, fresh, "copy dst")
						} else {
							add(r, id, AccRead, fresh, "copy src")
						}
					}
					continue
				}
				if _, isGo := r.(*ssa.Go); isGo {
					continue
				}
				if isRefKind(v.Type()) {
					add(r, id, AccCall, fresh, "passed to "+callDesc(x))
				}
			case *ssa.ChangeType:
				followValue(x, id, fresh, depth+1)
			case *ssa.Phi:
				// value flows on; accesses through the phi are attributed too
				followValue(x, id, fresh, depth+1)
			}
		}
	}
	followAddr = func(addr ssa.Value, id FieldID, fresh bool, depth int) {
		if depth > 6 {
			return
		}
		for _, r := range refs(addr) {
			switch x := r.(type) {
			case *ssa.Store:
				if x.Addr == addr {
					add(r, id, AccWrite, fresh, "store")
				}
			case *ssa.UnOp:
				if x.Op == token.MUL {
					if add(r, id, AccRead, fresh, "load") && isRefKind(x.Type()) && depth == 0 {
						out[len(out)-1].Header = true
					}
					followValue(x, id, fresh, depth+1)
				}
			case *ssa.FieldAddr:
				// sub-field of a struct-valued field
				followAddr(x, id, fresh, depth+1)
			case *ssa.IndexAddr:
				followAddr(x, id, fresh, depth+1)
			case ssa.CallInstruction:
				if _, isGo := r.(*ssa.Go); isGo {
					continue
				}
				add(r, id, AccCall, fresh, "address passed to "+callDesc(x))
			}
		}
	}
	allInstrs(fn, func(in ssa.Instruction) {
		// package-level variables: pseudo field {Type: "global", Field: "<pkgpath>.<name>"}
		for _, op := range in.Operands(nil) {
			g, ok := (*op).(*ssa.Global)
			if !ok {
				continue
			}
			id := FieldID{Type: "global", Field: g.Pkg.Pkg.Path() + "." + g.Name()}
			if !want(id) {
				continue
			}
			switch x := in.(type) {
			case *ssa.Store:
				if x.Addr == ssa.Value(g) {
					add(in, id, AccWrite, false, "store")
				}
			case *ssa.UnOp:
				if x.Op == token.MUL && x.X == ssa.Value(g) {
					if add(in, id, AccRead, false, "load") && isRefKind(x.Type()) {
						out[len(out)-1].Header = true
					}
					followValue(x, id, false, 1)
				}
			}
		}
		switch x := in.(type) {
		case *ssa.FieldAddr:
			id := fieldIDOfAddr(x)
			if !want(id) {
				return
			}
			followAddr(x, id, isFreshBase(x.X), 0)
		case *ssa.Field:
			id := fieldIDOfField(x)
			if !want(id) {
				return
			}
			add(in, id, AccRead, false, "field read")
			followValue(x, id, false, 0)
		}
	})
	return out
}

func callDesc(c ssa.CallInstruction) string {
	if obj := calleeObj(c); obj != nil {
		return obj.Name()
	}
	if b := builtinName(c); b != "" {
		return b
	}
	return "dynamic call"
}

// GuardSpec: field Type.Field is guarded by lock Lock.
type GuardSpec struct {
	Field FieldID
	Lock  string // lock identity as produced by lockIdent
	// CallNeedsW: calls on the field's object need the write lock (default: any mode).
	CallNeedsW bool
	// ReadOnlyCalls: callee names that only read (need R even if CallNeedsW).
	ReadOnlyCalls map[string]bool
	// Exempt: function full names exempt from the rule with a reason.
	Exempt map[string]string
}

// CheckGuardedBy applies the guarded-by rule over all module functions and
// returns the number of non-fresh accesses examined.
func CheckGuardedBy(p *Prog, e *LockEngine, r *Report, rule string, specs []GuardSpec) int {
	byField := map[FieldID]*GuardSpec{}
	for i := range specs {
		byField[specs[i].Field] = &specs[i]
	}
	total := 0
	perField := map[FieldID]int{}
	for _, fn := range p.Funcs {
		accs := FieldAccesses(fn, func(id FieldID) bool { return byField[id] != nil })
		if len(accs) == 0 {
			continue
		}
		fname := FuncName(p, fn)
		type agg struct {
			n    int
			bad  []string
			pos  token.Pos
			msgs []string
		}
		per := map[FieldID]*agg{}
		for _, a := range accs {
			spec := byField[a.ID]
			if a.Fresh {
				continue
			}
			if !e.Reachable(a.Instr) {
				continue
			}
			g := per[a.ID]
			if g == nil {
				g = &agg{}
				per[a.ID] = g
			}
			g.n++
			total++
			perField[a.ID]++
			if why, ok := spec.Exempt[fname]; ok {
				g.msgs = append(g.msgs, "exempt: "+why)
				continue
			}
			held := e.At(a.Instr)[spec.Lock]
			need := ModeR
			switch a.Kind {
			case AccWrite:
				need = ModeW
			case AccCall:
				if spec.CallNeedsW {
					need = ModeW
					if ci, ok := a.Instr.(ssa.CallInstruction); ok && spec.ReadOnlyCalls[callDesc(ci)] {
						need = ModeR
					}
				}
			}
			if held < need {
				if !g.pos.IsValid() {
					g.pos = instrPos(a.Instr)
				}
				g.bad = append(g.bad, fmt.Sprintf("%s (%s) at %s needs %s(%s), holds %s", a.Kind, a.What, p.Pos(instrPos(a.Instr)), shortID(spec.Lock), need, held))
			}
		}
		for id, g := range per {
			construct := fname + " -> " + id.String()
			if len(g.bad) > 0 {
				r.Violation(rule, construct, p.Pos(g.pos), fmt.Sprintf("%d of %d accesses to %s are not protected by %s", len(g.bad), g.n, id, shortID(byField[id].Lock)), g.bad...)
			} else {
				r.OK(rule, construct, p.Pos(fn.Pos()), fmt.Sprintf("%d accesses under %s", g.n, shortID(byField[id].Lock)))
			}
		}
	}
	for _, s := range specs {
		if perField[s.Field] == 0 {
			r.Undecide("guarded field %s has no access in the loaded program (anchor moved?)", s.Field)
		}
	}
	return total
}

// sectionIndex computes for every instruction the set of possible numbers of
// acquisitions of lock (any mode) executed before it (capped at 3) — the index
// of the critical section an access belongs to.
func sectionIndex(e *LockEngine, fn *ssa.Function, lock string) map[ssa.Instruction]uint8 {
	acq := e.Acquirers(lock)
	// bitset of possible counts {0,1,2,3+}
	n := len(fn.Blocks)
	in := make([]uint8, n)
	out := make([]uint8, n)
	res := map[ssa.Instruction]uint8{}
	if n == 0 {
		return res
	}
	in[0] = 1
	bump := func(s uint8) uint8 {
		var o uint8
		for i := 0; i < 4; i++ {
			if s&(1<<i) != 0 {
				j := i + 1
				if j > 3 {
					j = 3
				}
				o |= 1 << j
			}
		}
		return o
	}
	changed := true
	for changed {
		changed = false
		for bi, b := range fn.Blocks {
			st := in[bi]
			if st == 0 {
				continue
			}
			for _, instr := range b.Instrs {
				res[instr] = st
				if c, ok := instr.(*ssa.Call); ok {
					if id, kind, ok := e.lockOp(c); ok && id == lock && (kind == opLock || kind == opRLock) {
						st = bump(st)
					} else if cal := staticCallee(c); cal != nil && acq[cal] {
						// the callee runs its own critical section on the same lock;
						// the call itself is recorded as belonging to that section
						st = bump(st)
						res[instr] = st
					}
				}
			}
			if st != out[bi] {
				out[bi] = st
				changed = true
			}
			for _, s := range b.Succs {
				if in[s.Index]|st != in[s.Index] {
					in[s.Index] |= st
					changed = true
				}
			}
		}
	}
	return res
}

// CheckSingleSection: every function accessing the guarded field does so in
// one critical section, or — accepted idiom (double-checked creation) — every
// later section that writes the field first re-reads it under the same
// acquisition (the re-read dominates the write) and all earlier sections are
// read-only.
func CheckSingleSection(p *Prog, e *LockEngine, r *Report, rule string, specs []GuardSpec) {
	byField := map[FieldID]*GuardSpec{}
	for i := range specs {
		byField[specs[i].Field] = &specs[i]
	}
	for _, fn := range p.Funcs {
		accs := FieldAccesses(fn, func(id FieldID) bool { return byField[id] != nil })
		perField := map[FieldID][]Access{}
		for _, a := range accs {
			if a.Fresh || !e.Reachable(a.Instr) {
				continue
			}
			perField[a.ID] = append(perField[a.ID], a)
		}
		// calls to sibling functions that run their own critical section on the
		// guarding lock and touch the field count as accesses in a section of their own
		for i := range specs {
			sp := &specs[i]
			acq := e.Acquirers(sp.Lock)
			allInstrs(fn, func(in ssa.Instruction) {
				call, ok := in.(*ssa.Call)
				if !ok || !e.Reachable(in) {
					return
				}
				cal := staticCallee(call)
				if cal == nil || !acq[cal] || !touchesField(p, cal, sp.Field, map[*ssa.Function]bool{}) {
					return
				}
				if len(perField[sp.Field]) == 0 && !hasOtherSectionCall(e, fn, call, acq) {
					return // a pure wrapper around one sibling call
				}
				perField[sp.Field] = append(perField[sp.Field], Access{Fn: fn, Instr: in, ID: sp.Field, Kind: AccRead, What: "call to " + cal.Name() + " (separate critical section)"})
			})
		}
		for id, as := range perField {
			spec := byField[id]
			fname := FuncName(p, fn)
			construct := fname + " -> " + id.String()
			if _, ok := spec.Exempt[fname]; ok {
				continue
			}
			// accesses in helpers entered with the lock held belong to the caller's section
			if e.Entry(fn)[spec.Lock] != ModeNone {
				r.OK(rule, construct, p.Pos(fn.Pos()), "runs inside the caller's critical section (entry lockset "+e.Entry(fn).String()+")")
				continue
			}
			sec := sectionIndex(e, fn, spec.Lock)
			bySec := map[int][]Access{}
			ambiguous := false
			for _, a := range as {
				bits := sec[a.Instr]
				idx := -1
				for i := 0; i < 4; i++ {
					if bits == 1<<i {
						idx = i
					}
				}
				if idx < 0 {
					ambiguous = true
					continue
				}
				bySec[idx] = append(bySec[idx], a)
			}
			if ambiguous {
				r.Violation(rule, construct, p.Pos(fn.Pos()), "accesses to "+id.String()+" happen after a path-dependent number of lock acquisitions; the method's effect is not one critical section")
				continue
			}
			if len(bySec) <= 1 {
				r.OK(rule, construct, p.Pos(fn.Pos()), fmt.Sprintf("%d accesses in a single critical section", len(as)))
				continue
			}
			// multi-section: apply the double-check idiom
			minSec := 99
			for s := range bySec {
				if s < minSec {
					minSec = s
				}
			}
			var bad []string
			for s, list := range bySec {
				var writes, reads []Access
				for _, a := range list {
					if a.Kind == AccWrite || a.Kind == AccCall {
						writes = append(writes, a)
					} else {
						reads = append(reads, a)
					}
				}
				if s == minSec {
					if len(bySec) > 1 && len(writes) > 0 {
						bad = append(bad, fmt.Sprintf("section %d writes %s and a later section touches it again", s, id))
					}
					continue
				}
				for _, w := range writes {
					ok := false
					for _, rd := range reads {
						if !rd.Header && instrDominates(rd.Instr, w.Instr) {
							ok = true
						}
					}
					if !ok {
						bad = append(bad, fmt.Sprintf("%s at %s in critical section %d is based on what section %d observed (no re-read under this acquisition)", w.What, p.Pos(instrPos(w.Instr)), s, minSec))
					}
				}
				if len(writes) == 0 {
					bad = append(bad, fmt.Sprintf("section %d reads %s again after the lock was released (result combines two observations)", s, id))
				}
			}
			if len(bad) > 0 {
				r.Violation(rule, construct, p.Pos(fn.Pos()), "method effect is split over several critical sections without the double-check idiom", bad...)
			} else {
				r.OK(rule, construct, p.Pos(fn.Pos()), fmt.Sprintf("%d critical sections, double-checked (re-read dominates each later write)", len(bySec)))
			}
		}
	}
}

// prePublication: the instruction cannot execute after a `go` statement of
// the same function (so an object allocated here is not yet shared with a
// goroutine started here).
func prePublication(in ssa.Instruction) bool {
	fn := in.Parent()
	for _, b := range fn.Blocks {
		for i, g := range b.Instrs {
			if _, ok := g.(*ssa.Go); !ok {
				continue
			}
			if b == in.Block() {
				if instrIndex(in) > i {
					return false
				}
				// same block, earlier: reachable again only through a cycle
			}
			for _, s := range b.Succs {
				if reachableFrom(s, nil)[in.Block()] {
					return false
				}
			}
		}
	}
	return true
}

// hasOtherSectionCall: fn contains another call (besides self) to a function
// running its own critical section on the lock.
func hasOtherSectionCall(e *LockEngine, fn *ssa.Function, self *ssa.Call, acq map[*ssa.Function]bool) bool {
	found := false
	allInstrs(fn, func(in ssa.Instruction) {
		if c, ok := in.(*ssa.Call); ok && c != self {
			if cal := staticCallee(c); cal != nil && acq[cal] {
				found = true
			}
		}
	})
	return found
}

// touchesField: fn (or a static callee) accesses field f.
func touchesField(p *Prog, fn *ssa.Function, f FieldID, seen map[*ssa.Function]bool) bool {
	if seen[fn] {
		return false
	}
	seen[fn] = true
	if len(FieldAccesses(fn, func(id FieldID) bool { return id == f })) > 0 {
		return true
	}
	found := false
	allInstrs(fn, func(in ssa.Instruction) {
		if c, ok := in.(*ssa.Call); ok && !found {
			if cal := staticCallee(c); cal != nil && p.funcSet[cal] && touchesField(p, cal, f, seen) {
				found = true
			}
		}
	})
	return found
}
