package main

// Helpers for the C16 (streams) rules: value leaves through phis and local
// result cells with the branch facts known on each incoming edge, tiny linear
// normaliser for integer expressions, error-value facts.

import (
	"go/token"
	"go/types"

	"golang.org/x/tools/go/ssa"
)

// c16Unconv strips conversions that do not change the integer/interface value.
func c16Unconv(v ssa.Value) ssa.Value {
	for {
		switch x := v.(type) {
		case *ssa.Convert:
			v = x.X
		case *ssa.ChangeType:
			v = x.X
		case *ssa.ChangeInterface:
			v = x.X
		default:
			return v
		}
	}
}

// c16IsFieldLoad: v is a load of field id (through a FieldAddr or a Field).
func c16IsFieldLoad(v ssa.Value, id FieldID) bool {
	v = c16Unconv(v)
	if u, ok := v.(*ssa.UnOp); ok && u.Op == token.MUL {
		if fa, ok := u.X.(*ssa.FieldAddr); ok {
			return fieldIDOfAddr(fa) == id
		}
	}
	if f, ok := v.(*ssa.Field); ok {
		return fieldIDOfField(f) == id
	}
	return false
}

// c16FieldStore: in is a store to field id; returns it.
func c16FieldStore(in ssa.Instruction, id FieldID) *ssa.Store {
	if st, ok := in.(*ssa.Store); ok {
		if fa, ok := st.Addr.(*ssa.FieldAddr); ok && fieldIDOfAddr(fa) == id {
			return st
		}
	}
	return nil
}

// c16IsGlobalLoad: v is a load of the package-level variable pkgPath.name.
func c16IsGlobalLoad(v ssa.Value, pkgPath, name string) bool {
	v = c16Unconv(v)
	if u, ok := v.(*ssa.UnOp); ok && u.Op == token.MUL {
		if g, ok := u.X.(*ssa.Global); ok {
			return g.Name() == name && g.Pkg != nil && g.Pkg.Pkg.Path() == pkgPath
		}
	}
	return false
}

// c16EdgeConds returns the branch facts known on the CFG edge from->to:
// those of dominating edges of from, plus from's own branch if it ends in If.
func c16EdgeConds(from, to *ssa.BasicBlock) []DomCond {
	out := append([]DomCond(nil), domConds(from)...)
	if n := len(from.Instrs); n > 0 {
		if ifi, ok := from.Instrs[n-1].(*ssa.If); ok && from.Succs[0] != from.Succs[1] {
			if from.Succs[0] == to {
				out = append(out, DomCond{ifi, true})
			} else if from.Succs[1] == to {
				out = append(out, DomCond{ifi, false})
			}
		}
	}
	return out
}

// c16Leaf is one possible origin of a value at a program point, with the
// branch facts known on the path segment that selected it and the phi values
// it passed through (facts about those apply to the leaf on that path).
type c16Leaf struct {
	Val   ssa.Value
	Conds []DomCond
	Via   []ssa.Value
	Pos   token.Pos
}

// c16Leaves expands v through phis and through loads of local cells (named
// results of functions with defer are Alloc cells) to its origins.
func c16Leaves(v ssa.Value) []c16Leaf {
	var out []c16Leaf
	seen := map[ssa.Value]bool{}
	var walk func(v ssa.Value, conds []DomCond, via []ssa.Value, depth int)
	walk = func(v ssa.Value, conds []DomCond, via []ssa.Value, depth int) {
		if depth > 12 {
			out = append(out, c16Leaf{Val: v, Conds: conds, Via: via})
			return
		}
		switch x := v.(type) {
		case *ssa.Phi:
			if seen[x] {
				return
			}
			seen[x] = true
			for i, e := range x.Edges {
				pred := x.Block().Preds[i]
				nc := append(append([]DomCond(nil), conds...), c16EdgeConds(pred, x.Block())...)
				walk(e, nc, append(append([]ssa.Value(nil), via...), x), depth+1)
			}
			seen[x] = false
			return
		case *ssa.UnOp:
			if cell, ok := x.X.(*ssa.Alloc); ok && x.Op == token.MUL && !cell.Heap {
				if seen[x] {
					return
				}
				seen[x] = true
				for _, st := range c16ReachingStores(cell, x) {
					nc := append(append([]DomCond(nil), conds...), domConds(st.Block())...)
					walk(st.Val, nc, append(append([]ssa.Value(nil), via...), x), depth+1)
				}
				seen[x] = false
				return
			}
		}
		out = append(out, c16Leaf{Val: v, Conds: conds, Via: via})
	}
	walk(v, nil, nil, 0)
	return out
}

// c16ReachingStores: the stores to the local cell that may reach the load.
func c16ReachingStores(cell *ssa.Alloc, load ssa.Instruction) []*ssa.Store {
	var out []*ssa.Store
	seenB := map[*ssa.BasicBlock]bool{}
	var scan func(b *ssa.BasicBlock, from int)
	scan = func(b *ssa.BasicBlock, from int) {
		for i := from; i >= 0; i-- {
			if st, ok := b.Instrs[i].(*ssa.Store); ok && st.Addr == cell {
				out = append(out, st)
				return
			}
		}
		for _, p := range b.Preds {
			if !seenB[p] {
				seenB[p] = true
				scan(p, len(p.Instrs)-1)
			}
		}
	}
	scan(load.Block(), instrIndex(load)-1)
	return out
}

// c16ReturnLeaves: for every reachable return of fn, the leaves of result i,
// each with the facts of the return block added.
type c16Ret struct {
	Ret    *ssa.Return
	Leaves []c16Leaf
}

func c16ReturnLeaves(fn *ssa.Function, i int) []c16Ret {
	var out []c16Ret
	for _, b := range fn.Blocks {
		if len(b.Instrs) == 0 || (len(b.Preds) == 0 && b.Index != 0) {
			continue // unreachable (recover block)
		}
		ret, ok := b.Instrs[len(b.Instrs)-1].(*ssa.Return)
		if !ok || i >= len(ret.Results) {
			continue
		}
		var ls []c16Leaf
		sets := c16CondSets(b, 4)
		for _, lf := range c16Leaves(ret.Results[i]) {
			for _, set := range sets {
				l2 := lf
				l2.Conds = append(append([]DomCond(nil), lf.Conds...), set...)
				if c16Contradictory(l2.Conds) {
					continue // infeasible combination of value origin and path into the return
				}
				ls = append(ls, l2)
			}
		}
		out = append(out, c16Ret{ret, ls})
	}
	return out
}

// c16Lin normalises an integer expression to base+offset where base is
// classified by the callback (e.g. "len", "N", "cnt").
func c16Lin(v ssa.Value, base func(ssa.Value) string) (string, int64, bool) {
	v = c16Unconv(v)
	if b := base(v); b != "" {
		return b, 0, true
	}
	if bo, ok := v.(*ssa.BinOp); ok && (bo.Op == token.ADD || bo.Op == token.SUB) {
		if k, ok := c16IntConst(bo.Y); ok {
			if b, off, ok := c16Lin(bo.X, base); ok {
				if bo.Op == token.ADD {
					return b, off + k, true
				}
				return b, off - k, true
			}
		}
		if k, ok := c16IntConst(bo.X); ok && bo.Op == token.ADD {
			if b, off, ok := c16Lin(bo.Y, base); ok {
				return b, off + k, true
			}
		}
	}
	return "", 0, false
}

func c16IntConst(v ssa.Value) (int64, bool) {
	v = c16Unconv(v)
	if c, ok := v.(*ssa.Const); ok && c.Value != nil {
		if b, ok := c.Type().Underlying().(*types.Basic); ok && b.Info()&types.IsInteger != 0 {
			return c.Int64(), true
		}
	}
	return 0, false
}

// c16Rel is a fact `X - Y op K` or `X op K` (Y == "") between classified bases.
type c16Rel struct {
	X, Y string
	Op   token.Token
	K    int64
}

// c16Rels decodes the integer comparison facts among conds.
func c16Rels(conds []DomCond, base func(ssa.Value) string) []c16Rel {
	var out []c16Rel
	for _, dc := range conds {
		cmp, ok := decodeCond(dc.If.Cond, dc.Branch)
		if !ok {
			continue
		}
		xb, xo, xok := c16Lin(cmp.X, base)
		yb, yo, yok := c16Lin(cmp.Y, base)
		xk, xc := c16IntConst(cmp.X)
		yk, yc := c16IntConst(cmp.Y)
		switch {
		case xok && yok:
			// xb+xo op yb+yo  =>  xb - yb op yo-xo
			out = append(out, c16Rel{xb, yb, cmp.Op, yo - xo})
		case xok && yc:
			out = append(out, c16Rel{xb, "", cmp.Op, yk - xo})
		case yok && xc:
			out = append(out, c16Rel{yb, "", c16Flip(cmp.Op), xk - yo})
		}
	}
	return out
}

func c16Flip(op token.Token) token.Token {
	switch op {
	case token.LSS:
		return token.GTR
	case token.GTR:
		return token.LSS
	case token.LEQ:
		return token.GEQ
	case token.GEQ:
		return token.LEQ
	}
	return op
}

// c16ImpliesLE: the fact `v op K` implies v <= bound.
func (r c16Rel) impliesLE(bound int64) bool {
	switch r.Op {
	case token.LEQ, token.EQL:
		return r.K <= bound
	case token.LSS:
		return r.K-1 <= bound
	}
	return false
}

// impliesGE: the fact implies v >= bound.
func (r c16Rel) impliesGE(bound int64) bool {
	switch r.Op {
	case token.GEQ, token.EQL:
		return r.K >= bound
	case token.GTR:
		return r.K+1 >= bound
	}
	return false
}

// excludes: the fact implies v != k.
func (r c16Rel) excludes(k int64) bool {
	switch r.Op {
	case token.NEQ:
		return r.K == k
	case token.EQL:
		return r.K != k
	}
	return r.impliesLE(k-1) || r.impliesGE(k+1)
}

// c16ErrFacts: what the conds say about error value e (or one of its aliases).
type c16ErrFacts struct {
	NonNil, Nil, NotEOF, IsEOF bool
}

func c16FactsAbout(conds []DomCond, vals []ssa.Value) c16ErrFacts {
	var f c16ErrFacts
	is := func(v ssa.Value) bool {
		v = c16Unconv(v)
		for _, w := range vals {
			if c16Unconv(w) == v {
				return true
			}
		}
		return false
	}
	for _, dc := range conds {
		if cmp, ok := decodeCond(dc.If.Cond, dc.Branch); ok && (cmp.Op == token.EQL || cmp.Op == token.NEQ) {
			x, y := cmp.X, cmp.Y
			if !is(x) {
				x, y = y, x
			}
			if !is(x) {
				continue
			}
			eq := cmp.Op == token.EQL
			switch {
			case isNilConst(y):
				if eq {
					f.Nil, f.NotEOF = true, true
				} else {
					f.NonNil = true
				}
			case c16IsGlobalLoad(y, "io", "EOF"):
				if eq {
					f.IsEOF, f.NonNil = true, true
				} else {
					f.NotEOF = true
				}
			default:
				if _, isGlobal := c16Unconv(y).(*ssa.UnOp); isGlobal && eq {
					f.NonNil = true // equal to some sentinel
				}
			}
			continue
		}
		if call, truth, ok := boolCallCond(dc.If.Cond, dc.Branch); ok && callIs(call, "errors", "", "Is") && len(call.Call.Args) == 2 && is(call.Call.Args[0]) {
			if truth {
				f.NonNil = true
				if c16IsGlobalLoad(call.Call.Args[1], "io", "EOF") {
					f.IsEOF = true
				}
			} else if c16IsGlobalLoad(call.Call.Args[1], "io", "EOF") {
				f.NotEOF = true
			}
		}
	}
	return f
}

// c16InvokeOn: in is a call of method `name` (interface invoke or static) whose
// receiver value satisfies recv.
func c16InvokeOn(in ssa.Instruction, name string, recv func(ssa.Value) bool) (ssa.CallInstruction, bool) {
	ci, ok := in.(ssa.CallInstruction)
	if !ok {
		return nil, false
	}
	cc := ci.Common()
	if cc.IsInvoke() {
		if cc.Method.Name() == name && recv(cc.Value) {
			return ci, true
		}
		return nil, false
	}
	if f := staticCallee(ci); f != nil && f.Name() == name && f.Signature.Recv() != nil && len(cc.Args) > 0 && recv(cc.Args[0]) {
		return ci, true
	}
	return nil, false
}

// c16CallArgs returns the arguments without the receiver.
func c16CallArgs(ci ssa.CallInstruction) []ssa.Value {
	cc := ci.Common()
	if cc.IsInvoke() {
		return cc.Args
	}
	if f := staticCallee(ci); f != nil && f.Signature.Recv() != nil && len(cc.Args) > 0 {
		return cc.Args[1:]
	}
	return cc.Args
}

// c16IsCloserAssertOf: v is the value result of a type assertion to an
// interface with a Close method (io.Closer, io.ReadCloser, ...) of a value
// satisfying src; returns the TypeAssert.
func c16CloserAssert(v ssa.Value) *ssa.TypeAssert {
	v = c16Unconv(v)
	if ex, ok := v.(*ssa.Extract); ok && ex.Index == 0 {
		if ta, ok := ex.Tuple.(*ssa.TypeAssert); ok && ta.CommaOk {
			return ta
		}
	}
	if ta, ok := v.(*ssa.TypeAssert); ok && !ta.CommaOk {
		return ta
	}
	return nil
}

// c16AssertOkEdge: the edge from->to is a branch on the ok result of a
// comma-ok type assertion; returns the assertion and the truth of ok.
func c16AssertOkEdge(from, to *ssa.BasicBlock) (*ssa.TypeAssert, bool, bool) {
	n := len(from.Instrs)
	if n == 0 || from.Succs == nil || len(from.Succs) != 2 || from.Succs[0] == from.Succs[1] {
		return nil, false, false
	}
	ifi, ok := from.Instrs[n-1].(*ssa.If)
	if !ok {
		return nil, false, false
	}
	branch := from.Succs[0] == to
	cond := ifi.Cond
	for {
		if u, ok := cond.(*ssa.UnOp); ok && u.Op == token.NOT {
			cond, branch = u.X, !branch
			continue
		}
		break
	}
	if ex, ok := cond.(*ssa.Extract); ok && ex.Index == 1 {
		if ta, ok := ex.Tuple.(*ssa.TypeAssert); ok && ta.CommaOk {
			return ta, branch, true
		}
	}
	return nil, false, false
}

// c16EdgeCond: the If fact of the edge itself (not the dominating ones).
func c16EdgeCond(from, to *ssa.BasicBlock) (DomCond, bool) {
	n := len(from.Instrs)
	if n == 0 || len(from.Succs) != 2 || from.Succs[0] == from.Succs[1] {
		return DomCond{}, false
	}
	ifi, ok := from.Instrs[n-1].(*ssa.If)
	if !ok {
		return DomCond{}, false
	}
	return DomCond{ifi, from.Succs[0] == to}, true
}

// c16OnCycle: block b lies on a CFG cycle.
func c16OnCycle(b *ssa.BasicBlock) bool {
	for _, s := range b.Succs {
		if reachableFrom(s, nil)[b] {
			return true
		}
	}
	return false
}

// c16CondSets returns, for block b, one set of branch facts per backward path
// prefix into b (joins are split per predecessor, up to depth levels): every
// real path into b satisfies at least one of the sets.
func c16CondSets(b *ssa.BasicBlock, depth int) [][]DomCond {
	if len(b.Preds) <= 1 || depth == 0 {
		return [][]DomCond{domConds(b)}
	}
	var out [][]DomCond
	for _, p := range b.Preds {
		if b.Dominates(p) { // back edge: do not unroll
			out = append(out, domConds(b))
			continue
		}
		var own []DomCond
		if dc, ok := c16EdgeCond(p, b); ok {
			own = append(own, dc)
		}
		for _, set := range c16CondSets(p, depth-1) {
			out = append(out, append(append([]DomCond(nil), set...), own...))
		}
	}
	return out
}

// c16Contradictory: the facts contain both outcomes of one If that is not in a
// loop (inside a loop both outcomes can be true of different iterations).
func c16Contradictory(conds []DomCond) bool {
	seen := map[*ssa.If]bool{}
	val := map[*ssa.If]bool{}
	for _, dc := range conds {
		if seen[dc.If] && val[dc.If] != dc.Branch && !c16OnCycle(dc.If.Block()) {
			return true
		}
		seen[dc.If], val[dc.If] = true, dc.Branch
	}
	return false
}
