package main

// Value-level helpers for the C16 (streams) rules; the graph-level ones are in
// c16graph.go.

import (
	"go/token"
	"go/types"

	"golang.org/x/tools/go/ssa"
)

// c16Unconv strips conversions that do not change the integer/interface value.
func c16Unconv(v ssa.Value) ssa.Value {
	for {
		switch x := v.(type) {
		case *ssa.Convert:
			v = x.X
		case *ssa.ChangeType:
			v = x.X
		case *ssa.ChangeInterface:
			v = x.X
		default:
			return v
		}
	}
}

// c16IsFieldLoad: v is a load of field id (through a FieldAddr or a Field).
func c16IsFieldLoad(v ssa.Value, id FieldID) bool {
	v = c16Unconv(v)
	if u, ok := v.(*ssa.UnOp); ok && u.Op == token.MUL {
		if fa, ok := u.X.(*ssa.FieldAddr); ok {
			return fieldIDOfAddr(fa) == id
		}
	}
	if f, ok := v.(*ssa.Field); ok {
		return fieldIDOfField(f) == id
	}
	return false
}

// c16FieldStore: in is a store to field id; returns it.
func c16FieldStore(in ssa.Instruction, id FieldID) *ssa.Store {
	if st, ok := in.(*ssa.Store); ok {
		if fa, ok := st.Addr.(*ssa.FieldAddr); ok && fieldIDOfAddr(fa) == id {
			return st
		}
	}
	return nil
}

// c16IsGlobalLoad: v is a load of the package-level variable pkgPath.name.
func c16IsGlobalLoad(v ssa.Value, pkgPath, name string) bool {
	v = c16Unconv(v)
	if u, ok := v.(*ssa.UnOp); ok && u.Op == token.MUL {
		if g, ok := u.X.(*ssa.Global); ok {
			return g.Name() == name && g.Pkg != nil && g.Pkg.Pkg.Path() == pkgPath
		}
	}
	return false
}

func c16IntConst(v ssa.Value) (int64, bool) {
	v = c16Unconv(v)
	if c, ok := v.(*ssa.Const); ok && c.Value != nil {
		if b, ok := c.Type().Underlying().(*types.Basic); ok && b.Info()&types.IsInteger != 0 {
			return c.Int64(), true
		}
	}
	return 0, false
}

// c16Rel is a fact `X - Y op K` or `X op K` (Y == "") between classified bases.
type c16Rel struct {
	X, Y string
	Op   token.Token
	K    int64
}

func c16Flip(op token.Token) token.Token {
	switch op {
	case token.LSS:
		return token.GTR
	case token.GTR:
		return token.LSS
	case token.LEQ:
		return token.GEQ
	case token.GEQ:
		return token.LEQ
	}
	return op
}

// impliesLE: the fact `v op K` implies v <= bound.
func (r c16Rel) impliesLE(bound int64) bool {
	switch r.Op {
	case token.LEQ, token.EQL:
		return r.K <= bound
	case token.LSS:
		return r.K-1 <= bound
	}
	return false
}

// impliesGE: the fact implies v >= bound.
func (r c16Rel) impliesGE(bound int64) bool {
	switch r.Op {
	case token.GEQ, token.EQL:
		return r.K >= bound
	case token.GTR:
		return r.K+1 >= bound
	}
	return false
}

// excludes: the fact implies v != k.
func (r c16Rel) excludes(k int64) bool {
	switch r.Op {
	case token.NEQ:
		return r.K == k
	case token.EQL:
		return r.K != k
	}
	return r.impliesLE(k-1) || r.impliesGE(k+1)
}

// c16ErrFacts: what branch facts say about an error value.
type c16ErrFacts struct {
	NonNil, Nil, NotEOF, IsEOF bool
}
