package main

// C18 helper (W3): what happens when a create-type call on a call-invariant
// path meets a leftover of a crashed call, i.e. fails with EEXIST.

import (
	"go/token"

	"golang.org/x/tools/go/ssa"
)

// c18ErrUse classifies one referrer of the error value of a creating call.
//
//	"nil"      comparison with nil
//	"exist"    errors.Is(err, os.ErrExist|fs.ErrExist), os.IsExist(err)        (call returned)
//	"other"    errors.Is(err, <another sentinel>), os.IsNotExist/IsPermission  (call returned)
//	"passive"  returned, wrapped, logged (does not decide control flow)
//	"opaque"   anything else: the handling cannot be classified
func c18ErrUse(errv ssa.Value, ref ssa.Instruction) (string, *ssa.Call) {
	switch x := ref.(type) {
	case *ssa.BinOp:
		if (x.Op == token.EQL || x.Op == token.NEQ) && (isNilConst(x.X) || isNilConst(x.Y)) {
			return "nil", nil
		}
		return "opaque", nil
	case *ssa.Return, *ssa.MakeInterface, *ssa.ChangeInterface, *ssa.DebugRef:
		return "passive", nil
	case *ssa.Store:
		// stored into a varargs array for fmt/log
		if ia, ok := x.Addr.(*ssa.IndexAddr); ok {
			if _, ok := ia.X.(*ssa.Alloc); ok {
				return "passive", nil
			}
		}
		return "opaque", nil
	case *ssa.Call:
		obj := calleeObj(x)
		if obj == nil || obj.Pkg() == nil {
			return "opaque", nil
		}
		switch obj.Pkg().Path() + "." + obj.Name() {
		case "os.IsExist":
			return "exist", x
		case "os.IsNotExist", "os.IsPermission", "os.IsTimeout":
			return "other", x
		case "errors.Is":
			if len(x.Call.Args) == 2 && c18Root(x.Call.Args[0]) == errv {
				if u, ok := x.Call.Args[1].(*ssa.UnOp); ok && u.Op == token.MUL {
					if g, ok := u.X.(*ssa.Global); ok && g.Pkg != nil {
						pk := g.Pkg.Pkg.Path()
						if (pk == "os" || pk == "io/fs") && g.Name() == "ErrExist" {
							return "exist", x
						}
						return "other", x
					}
				}
			}
			return "opaque", nil
		case "fmt.Errorf", "fmt.Sprintf", "fmt.Sprint", "fmt.Println", "fmt.Printf":
			return "passive", nil
		}
		if x.Call.IsInvoke() {
			switch obj.Name() {
			case "Error", "Infof", "Info", "Warnf", "Warn", "Errorf", "Debugf", "Debug":
				return "passive", nil
			}
		}
		return "opaque", nil
	}
	return "opaque", nil
}

// c18Stale is the verdict of c18StaleAnalysis.
type c18Stale struct {
	Opaque     string // non-empty: error handling not classifiable (description)
	Readlink   bool   // the function reads the link back (content comparison not modelled)
	Consumers  int    // renames that take the path as their source
	StaleAtUse bool   // on some path the creation may have failed with "exists" and the path is consumed as it is
	Recreated  bool   // on some path to a consumer the link was created again successfully after a failure
	Where      string // position of the consumer reached with a stale link
}

// c18StaleAnalysis: may-dataflow (over the expanded graph) of the fact S = "o
// may have failed because its path already existed, and the path has not been
// re-created by this call since". S starts after the call, is dropped where
// the error is known nil, known not to be the exists-error, and on the success
// edge of a later creation of the same path with the same content.
func c18StaleAnalysis(g *c18Graph, o *c18Op, ops []*c18Op, bits map[*c18Edge]c18EdgeBits) c18Stale {
	p := g.p
	var out c18Stale
	errv := c18ErrValue(o.Call)
	type test struct {
		call *ssa.Call
		kind string
	}
	var calls []test
	if errv != nil {
		for _, ref := range c18Refs(errv) {
			kind, call := c18ErrUse(errv, ref)
			switch kind {
			case "opaque":
				out.Opaque = "the error of " + o.Fn + " is used at " + p.Pos(instrPos(ref)) + " in a way this check does not classify"
			case "exist", "other":
				calls = append(calls, test{call, kind})
			}
		}
	}
	want := o.Path.String()
	for _, n := range g.nodes {
		if c, ok := n.in.(*ssa.Call); ok && callIs(c, "os", "", "Readlink") {
			out.Readlink = true
		}
	}
	const (
		S = 1 << iota
		Rc
	)
	var recreate uint64
	for _, q := range ops {
		if q.Kind == c18CreateExcl && q.Path.String() == want && q.Aux != nil && o.Aux != nil && q.Aux.String() == o.Aux.String() {
			recreate |= 1 << uint(q.idx)
		}
	}
	own := uint64(1) << uint(o.idx)
	isO := map[*c18Node]bool{}
	for _, n := range o.Nodes {
		isO[n] = true
	}
	ff := &c18Flow{g: g, Must: false,
		Transfer: func(n *c18Node, st uint64) uint64 {
			if isO[n] {
				st |= S
			}
			return st
		},
		Edge: func(e *c18Edge, st uint64) uint64 {
			b := bits[e].succ
			if b&own != 0 {
				return st &^ S // error known nil: the link is ours
			}
			if b&recreate != 0 {
				if st&S != 0 {
					st |= Rc
				}
				return st &^ S
			}
			if ifi, ok := e.from.in.(*ssa.If); ok && e.branch >= 0 && e.from.fr == o.Fr {
				if call, truth, ok := boolCallCond(ifi.Cond, e.branch == 0); ok {
					for _, t := range calls {
						if t.call != call {
							continue
						}
						if t.kind == "exist" && !truth {
							return st &^ S
						}
						if t.kind == "other" && truth {
							return st &^ S
						}
					}
				}
			}
			return st
		}}
	ff.Run()
	for _, q := range ops {
		if q.Kind == c18Rename && q.Aux != nil && q.Aux.String() == want {
			out.Consumers++
			if st, ok := ff.BeforeAll(q.Nodes); ok {
				if st&S != 0 {
					out.StaleAtUse = true
					out.Where = p.Pos(instrPos(q.Call))
				}
				if st&Rc != 0 {
					out.Recreated = true
				}
			}
		}
	}
	return out
}
