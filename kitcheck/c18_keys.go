package main

// C18 helper: other ways of enumerating the file map than `for k, v := range m`:
// a slice that provably holds exactly the keys of the map (collected by a
// complete range loop, or maps.Keys/slices.Collect/slices.Sorted), optionally
// sorted, walked by a complete index/range loop. The element of such a walk
// plays the role of the map key of the iteration.

import (
	"go/token"
	"go/types"

	"golang.org/x/tools/go/ssa"
)

func c18EmptySlice(v ssa.Value) bool {
	switch x := v.(type) {
	case *ssa.Const:
		return x.IsNil()
	case *ssa.MakeSlice:
		k, ok := x.Len.(*ssa.Const)
		return ok && k.Value != nil && k.Int64() == 0
	case *ssa.Slice:
		// []string{} literal: slice of a zero-length array
		if a, ok := x.X.(*ssa.Alloc); ok {
			if arr, ok := a.Type().Underlying().(*types.Pointer).Elem().Underlying().(*types.Array); ok {
				return arr.Len() == 0
			}
		}
	}
	return false
}

// c18LoopBlocks: the blocks of the natural loop headed by h (reachable from h and reaching h).
func c18LoopBlocks(h *ssa.BasicBlock) map[*ssa.BasicBlock]bool {
	out := map[*ssa.BasicBlock]bool{h: true}
	from := map[*ssa.BasicBlock]bool{}
	for _, s := range h.Succs {
		for b := range reachableFrom(s, map[*ssa.BasicBlock]bool{h: true}) {
			from[b] = true
		}
	}
	for b := range from {
		if reachableFrom(b, nil)[h] {
			out[b] = true
		}
	}
	return out
}

// c18OnlyHeaderExits: the loop headed by h is left only from h itself.
func c18OnlyHeaderExits(h *ssa.BasicBlock) bool {
	blocks := c18LoopBlocks(h)
	var after []*ssa.BasicBlock
	for _, s := range h.Succs {
		if !blocks[s] {
			after = append(after, s)
		}
	}
	for b := range blocks {
		if b == h {
			continue
		}
		for _, s := range b.Succs {
			if blocks[s] {
				continue
			}
			// leaving the loop from its body: harmless only if the code after the loop is not reached
			// (a return / panic path)
			r := reachableFrom(s, nil)
			for _, a := range after {
				if r[a] {
					return false
				}
			}
		}
	}
	return true
}

// c18KeysOf: slice value s provably holds exactly the keys of the map it returns.
func c18KeysOf(s ssa.Value) (m ssa.Value, partial bool, ok bool) {
	switch x := s.(type) {
	case *ssa.Call:
		obj := calleeObj(x)
		if obj == nil || obj.Pkg() == nil || len(x.Call.Args) == 0 {
			return nil, false, false
		}
		full := obj.Pkg().Path() + "." + obj.Name()
		switch full {
		case "slices.Sorted", "slices.Collect":
			if in, ok := x.Call.Args[0].(*ssa.Call); ok {
				if o := calleeObj(in); o != nil && o.Pkg() != nil && o.Pkg().Path() == "maps" && o.Name() == "Keys" && len(in.Call.Args) == 1 {
					return in.Call.Args[0], false, true
				}
			}
		case "golang.org/x/exp/maps.Keys":
			return x.Call.Args[0], false, true
		}
	case *ssa.Phi:
		// leaves of the phi web rooted at x: the initial empty slice, append(<web>, key) and the web itself
		// (an iteration that appends nothing)
		web := map[*ssa.Phi]bool{}
		var leaves []ssa.Value
		var walk func(ph *ssa.Phi)
		walk = func(ph *ssa.Phi) {
			if web[ph] {
				return
			}
			web[ph] = true
			for _, e := range ph.Edges {
				if q, ok := e.(*ssa.Phi); ok {
					walk(q)
					continue
				}
				leaves = append(leaves, e)
			}
		}
		walk(x)
		inWeb := func(v ssa.Value) bool {
			q, ok := v.(*ssa.Phi)
			return ok && web[q]
		}
		var nx *ssa.Next
		empty, appended := false, false
		for _, e := range leaves {
			if c18EmptySlice(e) {
				empty = true
				continue
			}
			c, ok := e.(*ssa.Call)
			if !ok || builtinName(c) != "append" || len(c.Call.Args) != 2 || !inWeb(c.Call.Args[0]) {
				return nil, false, false
			}
			els, ok := c18Varargs(c.Call.Args[1])
			if !ok || len(els) != 1 {
				return nil, false, false
			}
			ex, ok := els[0].(*ssa.Extract)
			if !ok || ex.Index != 1 {
				return nil, false, false
			}
			n, ok := ex.Tuple.(*ssa.Next)
			if !ok || n.Block() != x.Block() || (nx != nil && nx != n) {
				return nil, false, false
			}
			nx = n
			appended = true
		}
		if !empty || !appended {
			return nil, false, false
		}
		rg, ok := nx.Iter.(*ssa.Range)
		if !ok {
			return nil, false, false
		}
		if _, isMap := rg.X.Type().Underlying().(*types.Map); !isMap {
			return nil, false, false
		}
		// an iteration that reaches the back edge without appending shows up as the web feeding itself:
		// a phi of the web (other than through an append) on a back edge of the header phi
		for ph := range web {
			for _, e := range ph.Edges {
				if q, ok := e.(*ssa.Phi); ok && q == x && ph != x {
					partial = true // merge that carries the unchanged slice
				}
				if ph == x {
					if q, ok := e.(*ssa.Phi); ok && q != x {
						// header takes a merge of {unchanged, appended}
						for _, e2 := range q.Edges {
							if e2 == ssa.Value(x) {
								partial = true
							}
						}
					}
					if e == ssa.Value(x) {
						partial = true
					}
				}
			}
		}
		// leaving the loop early (break) also yields a subset
		if !c18OnlyHeaderExits(x.Block()) {
			partial = true
		}
		return rg.X, partial, true
	}
	return nil, false, false
}

// c18FullWalk: idx is the element index of a loop that visits every index 0..len(s)-1 of s
// (classic `for i := 0; i < len(s); i++` or the lowering of `for _, x := range s`).
// Returns the If that ends the loop and the branch (0/1) that leaves it.
func c18FullWalk(idx, s ssa.Value) (*ssa.If, int, bool) {
	ifi, exit, partial, ok := c18Walk(idx, s)
	return ifi, exit, ok && !partial
}

// c18Walk is c18FullWalk that also accepts a walk starting after index 0 (partial = true).
func c18Walk(idx, s ssa.Value) (*ssa.If, int, bool, bool) {
	var phi *ssa.Phi
	first := int64(0)
	switch x := idx.(type) {
	case *ssa.Phi:
		phi = x
	case *ssa.BinOp:
		if p, ok := x.X.(*ssa.Phi); ok && x.Op == token.ADD {
			if k, ok := x.Y.(*ssa.Const); ok && k.Value != nil && k.Int64() == 1 {
				phi, first = p, -1
			}
		}
	}
	if phi == nil || len(phi.Edges) < 2 {
		return nil, 0, false, false
	}
	okInit, okStep, late := false, false, false
	for _, e := range phi.Edges {
		if k, ok := e.(*ssa.Const); ok && k.Value != nil && k.Int64() == first {
			okInit = true
		} else if ok && k.Value != nil && k.Int64() > first {
			okInit, late = true, true // starts after the first element
		}
		isStep := false
		if b, ok := e.(*ssa.BinOp); ok && b.Op == token.ADD && b.X == ssa.Value(phi) {
			if k, ok := b.Y.(*ssa.Const); ok && k.Value != nil && k.Int64() == 1 {
				okStep, isStep = true, true
			}
		}
		if _, isConst := e.(*ssa.Const); !isConst && !isStep {
			return nil, 0, false, false // the index is also changed in some other way
		}
	}
	if !okInit || !okStep {
		return nil, 0, false, false
	}
	h := phi.Block()
	ifi, ok := h.Instrs[len(h.Instrs)-1].(*ssa.If)
	if !ok {
		return nil, 0, false, false
	}
	isLen := func(v ssa.Value) bool {
		c, ok := v.(*ssa.Call)
		return ok && builtinName(c) == "len" && len(c.Call.Args) == 1 && c.Call.Args[0] == s
	}
	cmp, ok := decodeCond(ifi.Cond, true)
	if !ok {
		return nil, 0, false, false
	}
	cont := -1 // branch on which the loop continues
	switch {
	case cmp.Op == token.LSS && cmp.X == idx && isLen(cmp.Y), cmp.Op == token.GTR && cmp.Y == idx && isLen(cmp.X):
		cont = 0
	case cmp.Op == token.GEQ && cmp.X == idx && isLen(cmp.Y), cmp.Op == token.LEQ && cmp.Y == idx && isLen(cmp.X):
		cont = 1
	}
	if cont < 0 || !c18OnlyHeaderExits(h) {
		return nil, 0, false, false
	}
	return ifi, 1 - cont, late, true
}

// c18KeyElement: v is `s[i]` of a complete walk over a slice holding the keys of a map: returns that map.
func c18KeyElement(v ssa.Value) (m ssa.Value, ifi *ssa.If, exit int, ok bool) {
	m, ifi, exit, _, ok = c18KeyElementP(v)
	return
}

// c18KeyElementP additionally tells whether the slice may hold only a subset of the keys
// (collected with a filter or an early break).
func c18KeyElementP(v ssa.Value) (m ssa.Value, ifi *ssa.If, exit int, partial bool, ok bool) {
	u, isLoad := v.(*ssa.UnOp)
	if !isLoad || u.Op != token.MUL {
		return nil, nil, 0, false, false
	}
	ia, isIA := u.X.(*ssa.IndexAddr)
	if !isIA {
		return nil, nil, 0, false, false
	}
	m, partial, ok = c18KeysOf(ia.X)
	if !ok {
		return nil, nil, 0, false, false
	}
	var late bool
	ifi, exit, late, ok = c18Walk(ia.Index, ia.X)
	return m, ifi, exit, partial || late, ok
}
