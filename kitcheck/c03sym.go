package main

// c03sym: a path-sensitive abstract interpreter over go/ssa used by the C03
// rules. It never runs repository code: it walks the SSA of a function under a
// *scenario* (algorithm name, lengths of the byte-slice arguments, what the
// key object reports, optionally symbolic contents of one buffer) and
// enumerates the abstract outcomes (returned values / panics) together with
// the primitive operations reached on each path.
//
// Abstract values: known strings / ints / bools, slices with a known length
// (optionally with a known backing store, a constant fill, or symbolic bytes),
// nil, non-nil (with the identity of the package-level variable or function it
// denotes, which is how sentinels and function values are recognised), tuples,
// structs, maps, addresses of locals / fields / elements, interface values
// with their dynamic type. Everything else is Unknown; a branch on an Unknown
// condition forks the path (both outcomes are explored; `x == nil` tests
// refine x on each side). An Unknown that was computed FROM scenario facts by
// an operation the interpreter has no model for is *tainted*: a fork on a
// tainted condition, a call whose target cannot be resolved, a `go` statement
// mark the path imprecise, and rules turn UNDECIDED instead of reporting a
// violation that rests on an imprecise path.
//
// Calls are followed: static calls, closures (with their captured variables),
// bound methods, function values whose target is known on the path (including
// values taken from local or package-level tables), interface calls whose
// dynamic type is known, deferred calls (run at every exit, LIFO). Memory
// (locals whose address is taken, heap objects, backing arrays, maps,
// package-level variables as initialised by the package initialiser) is
// per-path and flows into and out of callees.

import (
	"fmt"
	"go/constant"
	"go/token"
	"go/types"
	"sort"
	"strconv"
	"strings"

	"golang.org/x/tools/go/ssa"
)

type c03Kind uint8

const (
	c03Unknown c03Kind = iota
	c03Str
	c03Int
	c03Bool
	c03Slice    // non-nil slice with length I (-1 = unknown); Ref/Off = backing store and offset, if known
	c03Nil      // nil of any nillable type (a nil slice has length 0)
	c03NonNil   // non-nil pointer / interface / func; G = package-level variable or function it denotes
	c03Tuple    // T
	c03Cell     // address of a local / heap object / package-level variable (Ref)
	c03FieldPtr // address of a struct field or element (Ref+Path if the object is known; F = last field)
	c03Struct   // struct / array value with known members M (field name or "#index" -> value)
	c03MapV     // map with contents in mem[Ref]
	c03Sym      // unknown byte number I of the scenario's symbolic buffer
)

// c03Cmp: an undecided boolean (or 0/1 int) that is the result of comparing
// bytes [Lo,Hi) of the symbolic buffer with the value Val.
type c03Cmp struct {
	Lo, Hi, Val int64
	Neg         bool // the value is true when the bytes DIFFER
	AsInt       bool // 1 = equal, 0 = different (subtle.ConstantTimeCompare)
}

type c03V struct {
	K        c03Kind
	S        string
	I        int64
	B        bool
	Taint    bool
	G        string
	T        []c03V
	Ref      ssa.Value
	Path     []string
	F        FieldID
	M        map[string]c03V
	Off      int64
	Fn       *ssa.Function
	FV       []c03V
	Ty       types.Type
	FillOK   bool  // bytes [TailFrom, len) all equal Fill
	Fill     int64 // (may itself be unknown: FillSym)
	TailFrom int64
	Cmp      *c03Cmp
	Segs     []int64 // Slice built by append: lengths of the concatenated pieces, in order
}

// c03Store is a synthetic backing store (result of append / Clone with known elements).
type c03Store struct{ id int }

var c03StoreSeq int

func c03NewStore() *c03Store                      { c03StoreSeq++; return &c03Store{id: c03StoreSeq} }
func (s *c03Store) Name() string                  { return fmt.Sprintf("store%d", s.id) }
func (s *c03Store) String() string                { return s.Name() }
func (s *c03Store) Type() types.Type              { return types.Typ[types.Invalid] }
func (s *c03Store) Parent() *ssa.Function         { return nil }
func (s *c03Store) Referrers() *[]ssa.Instruction { return nil }
func (s *c03Store) Pos() token.Pos                { return token.NoPos }

func c03RefName(v ssa.Value) string {
	if v == nil {
		return ""
	}
	if g, ok := v.(*ssa.Global); ok {
		return c03GlobalName(g)
	}
	if _, ok := v.(*c03Store); ok {
		return "store"
	}
	if p := v.Parent(); p != nil {
		return p.Name() + "." + v.Name()
	}
	return v.Name()
}

func (v c03V) String() string {
	switch v.K {
	case c03Str:
		return fmt.Sprintf("%q", v.S)
	case c03Int:
		return fmt.Sprintf("%d", v.I)
	case c03Bool:
		return fmt.Sprintf("%v", v.B)
	case c03Slice:
		s := "[]byte(len ?)"
		if v.I >= 0 {
			s = fmt.Sprintf("[]byte(len %d)", v.I)
		}
		if v.Ref != nil {
			s += fmt.Sprintf("@%s+%d", c03RefName(v.Ref), v.Off)
		}
		if v.FillOK {
			s += fmt.Sprintf("fill[%d:]=%d", v.TailFrom, v.Fill)
		}
		if len(v.Segs) > 0 {
			s += fmt.Sprint(v.Segs)
		}
		return s
	case c03Nil:
		return "nil"
	case c03NonNil:
		s := "non-nil"
		if v.G != "" {
			s = v.G
		}
		for _, b := range v.FV {
			s += "[" + b.String() + "]"
		}
		return s
	case c03Tuple:
		var s []string
		for _, e := range v.T {
			s = append(s, e.String())
		}
		return "(" + strings.Join(s, ", ") + ")"
	case c03Cell:
		return "&" + c03RefName(v.Ref)
	case c03FieldPtr:
		if v.Ref != nil {
			return "&" + c03RefName(v.Ref) + "." + strings.Join(v.Path, ".")
		}
		return "&" + v.F.String()
	case c03MapV:
		return "map@" + c03RefName(v.Ref)
	case c03Sym:
		return fmt.Sprintf("byte[%d]", v.I)
	case c03Struct:
		var ks []string
		for k := range v.M {
			ks = append(ks, k)
		}
		sort.Strings(ks)
		var sb strings.Builder
		sb.WriteString("{")
		for _, k := range ks {
			sb.WriteString(k + ":" + v.M[k].String() + " ")
		}
		sb.WriteString("}")
		return sb.String()
	}
	if v.Cmp != nil {
		return fmt.Sprintf("cmp[%d:%d]=%d/%v", v.Cmp.Lo, v.Cmp.Hi, v.Cmp.Val, v.Cmp.Neg)
	}
	if v.Taint {
		return "?!"
	}
	return "?"
}

func c03U() c03V             { return c03V{} }
func c03TaintedU() c03V      { return c03V{Taint: true} }
func c03IntV(i int64) c03V   { return c03V{K: c03Int, I: i} }
func c03StrV(s string) c03V  { return c03V{K: c03Str, S: s} }
func c03BoolV(b bool) c03V   { return c03V{K: c03Bool, B: b} }
func c03SliceV(n int64) c03V { return c03V{K: c03Slice, I: n} }
func c03NilV() c03V          { return c03V{K: c03Nil} }
func c03NonNilV() c03V       { return c03V{K: c03NonNil} }
func c03TupleV(vs ...c03V) c03V {
	return c03V{K: c03Tuple, T: vs}
}

// c03Len: the length of an abstract slice/string value, ok=false if unknown.
func c03Len(v c03V) (int64, bool) {
	switch v.K {
	case c03Str:
		return int64(len(v.S)), true
	case c03Slice:
		if v.I >= 0 {
			return v.I, true
		}
	case c03Nil:
		return 0, true
	}
	return 0, false
}

// c03Event is a primitive operation (modelled external call, or any call into
// the module) reached on a path; also "fork" (operands of an undecided
// comparison), "cmpbytes" (bytes of the symbolic buffer compared on a taken
// branch: lo, hi, value, equal), "readbytes" (bytes of it read: lo, hi).
type c03Event struct {
	Name string // "pkgpath.Func" / "pkgpath.Type.Method"
	Args []c03V
}

type c03Outcome struct {
	Res       []c03V
	Panic     string // non-empty: the path ends in a run-time panic (what, where)
	Explicit  bool   // the panic is an explicit panic(...) statement of the source
	Events    []c03Event
	Imprecise bool
	Pos       token.Pos
	Mem       map[ssa.Value]c03V // memory at the end of the path (objects reachable by the caller)
}

func (o c03Outcome) Res0() c03V {
	if len(o.Res) == 0 {
		return c03U()
	}
	return o.Res[0]
}

func (o *c03Outcome) Has(name string) bool {
	for _, e := range o.Events {
		if e.Name == name {
			return true
		}
	}
	return false
}

// c03Scenario: what the environment (key object, AEAD object) reports in this run.
type c03Scenario struct {
	KeyType   string                                                  // jwk.Key.KeyType(); "" = unknown
	KeyLen    int64                                                   // length of the bytes key.Raw(&[]byte) stores; -1 = Raw outcome unknown
	NonceSize int64                                                   // cipher.AEAD.NonceSize(); -1 unknown
	Overhead  int64                                                   // cipher.AEAD.Overhead(); -1 unknown
	Fields    map[FieldID]c03V                                        // loads of fields of objects the interpreter does not know
	Fail      bool                                                    // authenticating / verifying primitives report failure
	SealPad   bool                                                    // the AEAD pads the plaintext to whole AES blocks before sealing (CBC-HMAC)
	ECCurve   string                                                  // curve of the ECDSA key the key object exports ("P-256", ...); "" = unknown
	RawFails  bool                                                    // jwk key objects refuse to export themselves as the requested Go type (wrong kind of key)
	Leaves    map[string]func(x *c03Exec, args []c03V) (c03V, string) // in-module functions replaced by a model
}

type c03Exec struct {
	p         *Prog
	sc        *c03Scenario
	memo      map[string][]c03Outcome
	active    map[string]bool
	depth     int
	steps     int
	Truncated bool
	Dropped   bool                            // a branch of an undecided test was not explored (consecutive-take limit)
	targs     map[*types.TypeParam]types.Type // type arguments of the generic function being interpreted
}

func newC03Exec(p *Prog, sc *c03Scenario) *c03Exec {
	if sc.Fields == nil {
		sc.Fields = map[FieldID]c03V{}
	}
	return &c03Exec{p: p, sc: sc, memo: map[string][]c03Outcome{}, active: map[string]bool{}}
}

const (
	c03MaxSteps = 600000
	c03MaxPaths = 4000
)

type c03Deferred struct {
	site ssa.CallInstruction
	fnv  c03V
	args []c03V
}

type c03State struct {
	blk, prev *ssa.BasicBlock
	idx       int
	regs      map[ssa.Value]c03V
	mem       map[ssa.Value]c03V
	events    []c03Event
	imprecise bool
	forks     map[*ssa.If][2]int
	defers    []c03Deferred
}

func (s *c03State) clone() *c03State {
	n := &c03State{blk: s.blk, prev: s.prev, idx: s.idx, imprecise: s.imprecise,
		regs: make(map[ssa.Value]c03V, len(s.regs)+8), mem: make(map[ssa.Value]c03V, len(s.mem)+2), forks: make(map[*ssa.If][2]int, len(s.forks)+1)}
	for k, v := range s.regs {
		n.regs[k] = v
	}
	for k, v := range s.mem {
		n.mem[k] = v
	}
	for k, v := range s.forks {
		n.forks[k] = v
	}
	n.events = append([]c03Event(nil), s.events...)
	n.defers = append([]c03Deferred(nil), s.defers...)
	return n
}

// c03Reach collects the memory objects reachable from the given values.
func c03Reach(mem map[ssa.Value]c03V, vals []c03V) map[ssa.Value]c03V {
	out := map[ssa.Value]c03V{}
	var walk func(v c03V)
	walk = func(v c03V) {
		if v.Ref != nil {
			if _, seen := out[v.Ref]; !seen {
				if mv, ok := mem[v.Ref]; ok {
					out[v.Ref] = mv
					walk(mv)
				}
			}
		}
		for _, e := range v.T {
			walk(e)
		}
		for _, e := range v.FV {
			walk(e)
		}
		for _, e := range v.M {
			walk(e)
		}
	}
	for _, v := range vals {
		walk(v)
	}
	return out
}

func c03MemString(mem map[ssa.Value]c03V) string {
	var ks []string
	for k, v := range mem {
		ks = append(ks, c03RefName(k)+"="+v.String())
	}
	sort.Strings(ks)
	return strings.Join(ks, ";")
}

func c03Key(fn *ssa.Function, args, fv []c03V, mem map[ssa.Value]c03V) string {
	var sb strings.Builder
	sb.WriteString(fn.String())
	for _, a := range args {
		sb.WriteString("|")
		sb.WriteString(a.String())
		if a.Ty != nil {
			sb.WriteString(":" + a.Ty.String())
		}
	}
	for _, a := range fv {
		sb.WriteString("^")
		sb.WriteString(a.String())
	}
	sb.WriteString("#")
	sb.WriteString(c03MemString(mem))
	return sb.String()
}

func (x *c03Exec) targsKey() string {
	if len(x.targs) == 0 {
		return ""
	}
	var l []string
	for k, v := range x.targs {
		l = append(l, k.String()+"="+v.String())
	}
	sort.Strings(l)
	return "<" + strings.Join(l, ",") + ">"
}

// rtype resolves a type parameter of the generic function being interpreted to its type argument.
func (x *c03Exec) rtype(t types.Type) types.Type {
	for i := 0; i < 4; i++ {
		tp, ok := t.(*types.TypeParam)
		if !ok {
			break
		}
		a, ok := x.targs[tp]
		if !ok {
			break
		}
		t = a
	}
	if pt, ok := t.(*types.Pointer); ok {
		if e := x.rtype(pt.Elem()); e != pt.Elem() {
			return types.NewPointer(e)
		}
	}
	return t
}

// Run enumerates the abstract outcomes of fn called with args.
func (x *c03Exec) Run(fn *ssa.Function, args []c03V) []c03Outcome {
	return x.RunWith(fn, args, nil, nil)
}

// RunWith: like Run, with the values of the free variables (closures) and an
// initial memory (objects the arguments point to).
func (x *c03Exec) RunWith(fn *ssa.Function, args, fv []c03V, mem map[ssa.Value]c03V) []c03Outcome {
	if len(fn.Blocks) == 0 {
		return []c03Outcome{{Res: []c03V{c03U()}}}
	}
	key := c03Key(fn, args, fv, mem) + x.targsKey()
	if o, ok := x.memo[key]; ok {
		return o
	}
	if x.active[key] || x.depth > 16 {
		x.Truncated = true
		return nil
	}
	x.active[key] = true
	x.depth++
	defer func() { x.depth--; delete(x.active, key) }()

	st := &c03State{blk: fn.Blocks[0], regs: map[ssa.Value]c03V{}, mem: map[ssa.Value]c03V{}, forks: map[*ssa.If][2]int{}}
	for k, v := range mem {
		st.mem[k] = v
	}
	for i, pa := range fn.Params {
		if i < len(args) {
			st.regs[pa] = args[i]
		}
	}
	for i, f := range fn.FreeVars {
		if i < len(fv) {
			st.regs[f] = fv[i]
		}
	}
	var outs []c03Outcome
	work := []*c03State{st}
	paths := 0
	for len(work) > 0 {
		s := work[len(work)-1]
		work = work[:len(work)-1]
		paths++
		if paths > c03MaxPaths || x.steps > c03MaxSteps {
			x.Truncated = true
			break
		}
		more, o := x.runPath(fn, s)
		work = append(work, more...)
		outs = append(outs, o...)
	}
	outs = c03Dedup(outs)
	x.memo[key] = outs
	return outs
}

// c03Dedup merges outcomes that return the same abstract values and memory
// (their event lists are united): the caller continues identically after them.
func c03Dedup(outs []c03Outcome) []c03Outcome {
	idx := map[string]int{}
	var res []c03Outcome
	for _, o := range outs {
		k := fmt.Sprintf("%v|%s|%v|%v|%s", o.Res, o.Panic, o.Imprecise, o.Pos, c03MemString(c03Reach(o.Mem, o.Res)))
		if j, ok := idx[k]; ok {
			have := map[string]bool{}
			for _, ev := range res[j].Events {
				have[ev.Name+fmt.Sprint(ev.Args)] = true
			}
			merged := res[j].Events
			for _, ev := range o.Events {
				if kk := ev.Name + fmt.Sprint(ev.Args); !have[kk] {
					have[kk] = true
					merged = append(merged[:len(merged):len(merged)], ev)
				}
			}
			res[j].Events = merged
			continue
		}
		idx[k] = len(res)
		res = append(res, o)
	}
	return res
}

func (x *c03Exec) outcome(s *c03State, pos token.Pos) c03Outcome {
	return c03Outcome{Events: s.events, Imprecise: s.imprecise, Pos: pos, Mem: s.mem}
}

func (x *c03Exec) panicOutcome(s *c03State, msg string, in ssa.Instruction) c03Outcome {
	o := x.outcome(s, instrPos(in))
	o.Panic = msg + " at " + x.p.Pos(instrPos(in))
	return o
}

// runPath advances one path until it ends (return/panic) or forks.
func (x *c03Exec) runPath(fn *ssa.Function, s *c03State) ([]*c03State, []c03Outcome) {
	for {
		if s.idx >= len(s.blk.Instrs) {
			return nil, nil // malformed block
		}
		in := s.blk.Instrs[s.idx]
		x.steps++
		if x.steps > c03MaxSteps {
			x.Truncated = true
			return nil, nil
		}
		switch i := in.(type) {
		case *ssa.Return:
			o := x.outcome(s, i.Pos())
			for _, r := range i.Results {
				o.Res = append(o.Res, x.eval(s, r))
			}
			return nil, []c03Outcome{o}
		case *ssa.Panic:
			o := x.panicOutcome(s, "explicit panic", i)
			o.Panic = "explicit panic at " + x.p.Pos(instrPos(i))
			o.Explicit = true
			return nil, []c03Outcome{o}
		case *ssa.Jump:
			s.prev, s.blk, s.idx = s.blk, s.blk.Succs[0], 0
			continue
		case *ssa.If:
			c := x.eval(s, i.Cond)
			if c.K == c03Bool {
				k := 1
				if c.B {
					k = 0
				}
				// a concretely decided test (typically the header of a loop with a known trip
				// count) re-arms the undecided tests it dominates: the consecutive-take limit is
				// only there to bound loops whose own test is undecided
				scc := c03SCC(fn)
				me := scc[i.Block().Index]
				exitTest := scc[s.blk.Succs[0].Index] != me || scc[s.blk.Succs[1].Index] != me
				for f := range s.forks {
					if f == i {
						continue
					}
					// ... also when the decided test is the exit test of the (possibly rotated) loop the
					// undecided test sits in
					if i.Block().Dominates(f.Block()) || (exitTest && f.Parent() == fn && scc[f.Block().Index] == me) {
						delete(s.forks, f)
					}
				}
				s.prev, s.blk, s.idx = s.blk, s.blk.Succs[k], 0
				continue
			}
			var next []*c03State
			cnt := s.forks[i]
			for k := 0; k < 2; k++ {
				if cnt[k] >= 2 {
					x.Dropped = true
					continue // loop with an unknown trip count: 0, 1 and 2 consecutive iterations are explored
				}
				n := s.clone()
				c2 := cnt
				c2[k]++
				c2[1-k] = 0 // consecutive takes: leaving a loop re-arms it for the next entry
				n.forks[i] = c2
				if c.Taint {
					n.imprecise = true
				}
				if c.Cmp != nil && !c.Cmp.AsInt {
					equal := (k == 0) != c.Cmp.Neg
					n.events = append(n.events, c03Event{Name: "cmpbytes", Args: []c03V{c03IntV(c.Cmp.Lo), c03IntV(c.Cmp.Hi), c03IntV(c.Cmp.Val), c03BoolV(equal)}})
				} else if bo, ok := i.Cond.(*ssa.BinOp); ok && cnt[0]+cnt[1] == 0 {
					// what an undecided comparison compares (lets rules see whether a scenario value reaches a test)
					n.events = append(n.events, c03Event{Name: "fork", Args: []c03V{x.eval(s, bo.X), x.eval(s, bo.Y)}})
				}
				x.refine(n, i.Cond, k == 0)
				n.prev, n.blk, n.idx = s.blk, s.blk.Succs[k], 0
				next = append(next, n)
			}
			return next, nil
		case *ssa.Call:
			cc := i.Common()
			fnv, args := x.callOperands(s, cc)
			next, out, cont := x.call(s, i, fnv, args, i, s.idx+1)
			if !cont {
				return next, out
			}
		case *ssa.Defer:
			fnv, args := x.callOperands(s, i.Common())
			s.defers = append(s.defers, c03Deferred{site: i, fnv: fnv, args: args})
		case *ssa.RunDefers:
			if n := len(s.defers); n > 0 {
				d := s.defers[n-1]
				s.defers = s.defers[:n-1]
				// stay on the RunDefers instruction until the stack is empty
				next, out, cont := x.call(s, d.site, d.fnv, d.args, nil, s.idx)
				if !cont {
					return next, out
				}
				continue
			}
		case *ssa.Go:
			s.imprecise = true
		default:
			if msg := x.step(s, in); msg != "" {
				return nil, []c03Outcome{x.panicOutcome(s, msg, in)}
			}
		}
		s.idx++
	}
}

var c03SCCCache = map[*ssa.Function][]int{}

// c03SCC numbers the strongly connected components of fn's CFG (Tarjan); blocks of one loop share a number.
func c03SCC(fn *ssa.Function) []int {
	if r, ok := c03SCCCache[fn]; ok {
		return r
	}
	n := len(fn.Blocks)
	index, low, comp := make([]int, n), make([]int, n), make([]int, n)
	on := make([]bool, n)
	for k := range index {
		index[k], comp[k] = -1, -1
	}
	var stack []int
	next, ncomp := 0, 0
	var visit func(v int)
	visit = func(v int) {
		index[v], low[v] = next, next
		next++
		stack = append(stack, v)
		on[v] = true
		for _, sb := range fn.Blocks[v].Succs {
			w := sb.Index
			if index[w] < 0 {
				visit(w)
				if low[w] < low[v] {
					low[v] = low[w]
				}
			} else if on[w] && index[w] < low[v] {
				low[v] = index[w]
			}
		}
		if low[v] == index[v] {
			for {
				w := stack[len(stack)-1]
				stack = stack[:len(stack)-1]
				on[w] = false
				comp[w] = ncomp
				if w == v {
					break
				}
			}
			ncomp++
		}
	}
	for v := 0; v < n; v++ {
		if index[v] < 0 {
			visit(v)
		}
	}
	c03SCCCache[fn] = comp
	return comp
}

// refine records what a taken branch says about the operands of its condition.
func (x *c03Exec) refine(s *c03State, cond ssa.Value, branch bool) {
	for {
		u, ok := cond.(*ssa.UnOp)
		if !ok || u.Op != token.NOT {
			break
		}
		cond, branch = u.X, !branch
	}
	if _, isConst := cond.(*ssa.Const); !isConst {
		s.regs[cond] = c03BoolV(branch)
	}
	bo, ok := cond.(*ssa.BinOp)
	if !ok || (bo.Op != token.EQL && bo.Op != token.NEQ) {
		return
	}
	isNil := branch == (bo.Op == token.EQL)
	for _, pair := range [][2]ssa.Value{{bo.X, bo.Y}, {bo.Y, bo.X}} {
		if isNilConst(pair[1]) {
			if _, isConst := pair[0].(*ssa.Const); isConst {
				continue
			}
			if cur := x.eval(s, pair[0]); cur.K == c03Unknown {
				if isNil {
					s.regs[pair[0]] = c03NilV()
				} else {
					s.regs[pair[0]] = c03NonNilV()
				}
			}
		}
	}
}

func (x *c03Exec) eval(s *c03State, v ssa.Value) c03V {
	switch c := v.(type) {
	case *ssa.Const:
		if c.IsNil() {
			return c03NilV()
		}
		if c.Value == nil {
			return c03ZeroOf(x.rtype(c.Type()))
		}
		switch c.Value.Kind() {
		case constant.String:
			return c03StrV(constant.StringVal(c.Value))
		case constant.Int:
			if n, ok := constant.Int64Val(c.Value); ok {
				return c03IntV(n)
			}
		case constant.Bool:
			return c03BoolV(constant.BoolVal(c.Value))
		}
		return c03U()
	case *ssa.Function:
		return c03V{K: c03NonNil, G: "func:" + c.String(), Fn: c}
	case *ssa.Global:
		return c03V{K: c03Cell, Ref: c}
	}
	if r, ok := s.regs[v]; ok {
		return r
	}
	return c03U()
}

func c03GlobalName(g *ssa.Global) string {
	if g.Pkg != nil {
		return g.Pkg.Pkg.Path() + "." + g.Name()
	}
	return g.Name()
}

// ---- package-level variables ----------------------------------------------------

type c03InitInfo struct {
	mem map[ssa.Value]c03V
	ok  bool
}

var c03InitCache = map[*ssa.Package]*c03InitInfo{}
var c03StoreCount = map[*Prog]map[*ssa.Global]int{}

// globalValue: the value a package-level variable has after package
// initialisation, provided no function other than the initialiser stores to
// it. Interface/pointer-typed variables (the error sentinels) are non-nil
// objects identified by their name.
func (x *c03Exec) globalValue(s *c03State, g *ssa.Global) c03V {
	if g.Name() == "init$guard" {
		return c03BoolV(false)
	}
	elem := g.Type().Underlying().(*types.Pointer).Elem()
	switch elem.Underlying().(type) {
	case *types.Interface, *types.Pointer:
		return c03V{K: c03NonNil, G: c03GlobalName(g)}
	}
	if g.Pkg == nil || !strings.HasPrefix(g.Pkg.Pkg.Path(), x.p.ModPath) {
		return c03U()
	}
	cnt := c03StoreCount[x.p]
	if cnt == nil {
		cnt = map[*ssa.Global]int{}
		for _, fn := range x.p.Funcs {
			if fn.Name() == "init" && fn.Parent() == nil {
				continue
			}
			allInstrs(fn, func(in ssa.Instruction) {
				if st, ok := in.(*ssa.Store); ok {
					if gg, ok := st.Addr.(*ssa.Global); ok {
						cnt[gg]++
					}
				}
				// address taken: may be written through the pointer
				if c, ok := in.(ssa.CallInstruction); ok {
					for _, a := range c.Common().Args {
						if gg, ok := a.(*ssa.Global); ok {
							cnt[gg]++
						}
					}
				}
			})
		}
		c03StoreCount[x.p] = cnt
	}
	if cnt[g] > 0 {
		return c03U()
	}
	info := c03InitCache[g.Pkg]
	if info == nil {
		info = &c03InitInfo{}
		c03InitCache[g.Pkg] = info
		if init := g.Pkg.Func("init"); init != nil && len(init.Blocks) > 0 {
			ix := newC03Exec(x.p, &c03Scenario{KeyLen: -1, NonceSize: -1, Overhead: -1})
			outs := ix.Run(init, nil)
			if len(outs) == 1 && outs[0].Panic == "" && !ix.Truncated {
				info.mem, info.ok = outs[0].Mem, true
			}
		}
	}
	if !info.ok {
		return c03U()
	}
	v, ok := info.mem[g]
	if !ok {
		return c03ZeroOf(elem)
	}
	// bring the objects the value refers to (backing arrays, maps) into this path's memory
	for k, mv := range c03Reach(info.mem, []c03V{v}) {
		if _, have := s.mem[k]; !have {
			s.mem[k] = mv
		}
	}
	return v
}

func c03ZeroOf(t types.Type) c03V {
	switch u := t.Underlying().(type) {
	case *types.Slice, *types.Pointer, *types.Interface, *types.Map, *types.Chan, *types.Signature:
		return c03NilV()
	case *types.Struct:
		m := map[string]c03V{}
		for k := 0; k < u.NumFields(); k++ {
			m[u.Field(k).Name()] = c03ZeroOf(u.Field(k).Type())
		}
		return c03V{K: c03Struct, M: m}
	case *types.Array:
		return c03V{K: c03Struct, M: map[string]c03V{}}
	case *types.Basic:
		switch {
		case u.Info()&types.IsString != 0:
			return c03StrV("")
		case u.Info()&types.IsInteger != 0:
			return c03IntV(0)
		case u.Info()&types.IsBoolean != 0:
			return c03BoolV(false)
		}
	}
	return c03U()
}

// ---- memory paths -----------------------------------------------------------------

func c03GetPath(v c03V, path []string) (c03V, bool) {
	for _, p := range path {
		if v.K != c03Struct {
			return c03U(), false
		}
		e, ok := v.M[p]
		if !ok {
			return c03U(), false
		}
		v = e
	}
	return v, true
}

func c03SetPath(v c03V, path []string, val c03V) c03V {
	if len(path) == 0 {
		return val
	}
	nm := map[string]c03V{}
	if v.K == c03Struct {
		for k, e := range v.M {
			nm[k] = e
		}
	}
	if path[0] == "#?" {
		// store through an unknown index: every element becomes unknown
		for k := range nm {
			if strings.HasPrefix(k, "#") && k != "#sym" {
				delete(nm, k)
			}
		}
		return c03V{K: c03Struct, M: nm}
	}
	nm[path[0]] = c03SetPath(nm[path[0]], path[1:], val)
	return c03V{K: c03Struct, M: nm}
}

func c03ExtPath(path []string, e string) []string {
	return append(append(make([]string, 0, len(path)+1), path...), e)
}

// havocElems forgets the element values of a backing store (it was written by code the interpreter does not follow).
func (s *c03State) havocElems(ref ssa.Value) {
	cur, ok := s.mem[ref]
	if !ok || cur.K != c03Struct {
		return
	}
	nm := map[string]c03V{}
	for k, e := range cur.M {
		if !strings.HasPrefix(k, "#") || k == "#sym" {
			nm[k] = e
		}
	}
	s.mem[ref] = c03V{K: c03Struct, M: nm}
}

func (x *c03Exec) load(s *c03State, a c03V, at ssa.Instruction) (c03V, string) {
	switch a.K {
	case c03Cell:
		if v, ok := s.mem[a.Ref]; ok {
			return v, ""
		}
		if g, ok := a.Ref.(*ssa.Global); ok {
			v := x.globalValue(s, g)
			return v, ""
		}
		return c03U(), ""
	case c03FieldPtr:
		if a.Ref != nil {
			base, ok := s.mem[a.Ref]
			if !ok {
				if g, isG := a.Ref.(*ssa.Global); isG {
					base = x.globalValue(s, g)
				}
			}
			if v, ok := c03GetPath(base, a.Path); ok {
				return v, ""
			}
			if base.K == c03Struct && len(a.Path) == 1 && strings.HasPrefix(a.Path[0], "#") && a.Path[0] != "#?" {
				if _, sym := base.M["#sym"]; sym {
					n, _ := strconv.ParseInt(a.Path[0][1:], 10, 64)
					s.events = append(s.events, c03Event{Name: "readbytes", Args: []c03V{c03IntV(n), c03IntV(n + 1)}})
					return c03V{K: c03Sym, I: n}, ""
				}
			}
			return c03U(), ""
		}
		if fv, ok := x.sc.Fields[a.F]; ok {
			return fv, ""
		}
		return c03U(), ""
	case c03Nil:
		return c03U(), "nil pointer dereference"
	}
	return c03U(), ""
}

// step executes a non-control, non-call instruction; returns a panic message or "".
func (x *c03Exec) step(s *c03State, in ssa.Instruction) string {
	switch i := in.(type) {
	case *ssa.Alloc:
		s.regs[i] = c03V{K: c03Cell, Ref: i}
		s.mem[i] = c03ZeroOf(x.rtype(i.Type().Underlying().(*types.Pointer).Elem()))
	case *ssa.Store:
		a := x.eval(s, i.Addr)
		switch {
		case a.K == c03Cell:
			s.mem[a.Ref] = x.eval(s, i.Val)
		case a.K == c03FieldPtr && a.Ref != nil:
			s.mem[a.Ref] = c03SetPath(s.mem[a.Ref], a.Path, x.eval(s, i.Val))
		}
	case *ssa.Phi:
		val := c03U()
		for k, p := range i.Block().Preds {
			if p == s.prev && k < len(i.Edges) {
				val = x.eval(s, i.Edges[k])
			}
		}
		s.regs[i] = val
	case *ssa.UnOp:
		xv := x.eval(s, i.X)
		switch i.Op {
		case token.MUL:
			v, msg := x.load(s, xv, i)
			if msg != "" {
				return msg
			}
			s.regs[i] = v
		case token.NOT:
			switch {
			case xv.K == c03Bool:
				s.regs[i] = c03BoolV(!xv.B)
			case xv.Cmp != nil:
				c := *xv.Cmp
				c.Neg = !c.Neg
				s.regs[i] = c03V{Cmp: &c, Taint: xv.Taint}
			default:
				s.regs[i] = c03V{Taint: xv.Taint}
			}
		case token.SUB:
			if xv.K == c03Int {
				s.regs[i] = c03IntV(-xv.I)
			} else {
				s.regs[i] = c03V{Taint: xv.Taint}
			}
		default:
			s.regs[i] = c03V{Taint: xv.Taint}
		}
	case *ssa.BinOp:
		v, msg := c03BinOp(i.Op, x.eval(s, i.X), x.eval(s, i.Y))
		if msg != "" {
			return msg
		}
		if v.K == c03Int {
			v.I = c03Truncate(v.I, i.Type())
		}
		s.regs[i] = v
	case *ssa.Slice:
		return x.slice(s, i)
	case *ssa.MakeSlice:
		n := x.eval(s, i.Len)
		if n.K == c03Int {
			if n.I < 0 {
				return fmt.Sprintf("make([]T, %d): len out of range", n.I)
			}
			s.regs[i] = c03V{K: c03Slice, I: n.I, Ref: i}
			s.mem[i] = c03V{K: c03Struct, M: map[string]c03V{}}
		} else {
			s.regs[i] = c03V{K: c03Slice, I: -1, Taint: n.Taint}
		}
	case *ssa.Convert:
		xv := x.eval(s, i.X)
		switch {
		case xv.K == c03Int:
			if c03IntWidth(i.Type()) > 0 {
				xv.I = c03Truncate(xv.I, i.Type())
				s.regs[i] = xv
			} else if b, ok := i.Type().Underlying().(*types.Basic); ok && b.Info()&types.IsString != 0 {
				s.regs[i] = c03TaintedU()
			} else {
				s.regs[i] = xv
			}
		case xv.K == c03Nil:
			s.regs[i] = xv
		case xv.K == c03Sym:
			if c03IntWidth(i.Type()) >= 8 {
				s.regs[i] = xv
			} else {
				s.regs[i] = c03U()
			}
		case xv.K == c03Str:
			if b, ok := i.Type().Underlying().(*types.Basic); ok && b.Info()&types.IsString != 0 {
				s.regs[i] = xv
			} else {
				s.regs[i] = c03SliceV(int64(len(xv.S)))
			}
		case xv.K == c03Slice:
			// []byte -> string of the same length (contents unknown) or named slice type
			if _, ok := i.Type().Underlying().(*types.Slice); ok {
				s.regs[i] = xv
			} else {
				s.regs[i] = c03V{Taint: xv.Taint}
			}
		default:
			s.regs[i] = c03V{Taint: xv.Taint}
		}
	case *ssa.ChangeType:
		s.regs[i] = x.eval(s, i.X)
	case *ssa.ChangeInterface:
		s.regs[i] = x.eval(s, i.X)
	case *ssa.MakeInterface:
		xv := x.eval(s, i.X)
		switch xv.K {
		case c03Unknown:
			if _, isPtr := i.X.Type().Underlying().(*types.Pointer); isPtr {
				xv = c03U()
			} else {
				xv = c03NonNilV()
			}
		case c03Nil:
			// a typed nil pointer in an interface is not the nil interface
			if _, isIface := i.X.Type().Underlying().(*types.Interface); !isIface {
				xv = c03NonNilV()
			}
		}
		xv.Ty = x.rtype(i.X.Type())
		s.regs[i] = xv
	case *ssa.SliceToArrayPointer:
		s.regs[i] = c03U()
	case *ssa.Extract:
		t := x.eval(s, i.Tuple)
		if t.K == c03Tuple && i.Index < len(t.T) {
			s.regs[i] = t.T[i.Index]
		} else {
			s.regs[i] = c03V{Taint: t.Taint}
		}
	case *ssa.FieldAddr:
		fid := fieldIDOfAddr(i)
		fp := c03V{K: c03FieldPtr, F: fid}
		switch b := x.eval(s, i.X); {
		case b.K == c03Cell:
			fp.Ref, fp.Path = b.Ref, []string{fid.Field}
		case b.K == c03FieldPtr && b.Ref != nil:
			fp.Ref, fp.Path = b.Ref, c03ExtPath(b.Path, fid.Field)
		case b.K == c03Nil:
			return "nil pointer dereference"
		}
		s.regs[i] = fp
	case *ssa.Field:
		if sv := x.eval(s, i.X); sv.K == c03Struct {
			if fv, ok := sv.M[fieldIDOfField(i).Field]; ok {
				s.regs[i] = fv
			} else {
				s.regs[i] = c03U()
			}
		} else if fv, ok := x.sc.Fields[fieldIDOfField(i)]; ok {
			s.regs[i] = fv
		} else {
			s.regs[i] = c03U()
		}
	case *ssa.IndexAddr:
		xv, iv := x.eval(s, i.X), x.eval(s, i.Index)
		n, okN := c03Len(xv)
		if pt, ok := i.X.Type().Underlying().(*types.Pointer); ok {
			if at, ok := pt.Elem().Underlying().(*types.Array); ok {
				n, okN = at.Len(), true
			}
		}
		if okN && iv.K == c03Int && (iv.I < 0 || iv.I >= n) {
			return fmt.Sprintf("index out of range [%d] with length %d", iv.I, n)
		}
		key := "#?"
		res := c03V{K: c03FieldPtr}
		switch {
		case xv.K == c03Cell:
			if iv.K == c03Int {
				key = fmt.Sprintf("#%d", iv.I)
			}
			res.Ref, res.Path = xv.Ref, []string{key}
		case xv.K == c03FieldPtr && xv.Ref != nil:
			if iv.K == c03Int {
				key = fmt.Sprintf("#%d", iv.I)
			}
			res.Ref, res.Path = xv.Ref, c03ExtPath(xv.Path, key)
		case xv.K == c03Slice && xv.Ref != nil:
			if iv.K == c03Int {
				key = fmt.Sprintf("#%d", xv.Off+iv.I)
			}
			res.Ref, res.Path = xv.Ref, []string{key}
		default:
			res = c03U()
		}
		s.regs[i] = res
	case *ssa.Index:
		xv, iv := x.eval(s, i.X), x.eval(s, i.Index)
		if n, ok := c03Len(xv); ok && iv.K == c03Int && (iv.I < 0 || iv.I >= n) {
			return fmt.Sprintf("index out of range [%d] with length %d", iv.I, n)
		}
		if xv.K == c03Struct && iv.K == c03Int {
			if e, ok := xv.M[fmt.Sprintf("#%d", iv.I)]; ok {
				s.regs[i] = e
				break
			}
		}
		if xv.K == c03Str && iv.K == c03Int {
			s.regs[i] = c03IntV(int64(xv.S[iv.I]))
			break
		}
		s.regs[i] = c03U()
	case *ssa.MakeMap:
		s.regs[i] = c03V{K: c03MapV, Ref: i}
		s.mem[i] = c03V{K: c03Struct, M: map[string]c03V{}}
	case *ssa.MapUpdate:
		mv, kv := x.eval(s, i.Map), x.eval(s, i.Key)
		if mv.K == c03MapV {
			if k, ok := c03MapKey(kv); ok {
				s.mem[mv.Ref] = c03SetPath(s.mem[mv.Ref], []string{k}, x.eval(s, i.Value))
			} else {
				s.mem[mv.Ref] = c03SetPath(s.mem[mv.Ref], []string{"#opaque"}, c03BoolV(true))
			}
		}
	case *ssa.Lookup:
		xv, kv := x.eval(s, i.X), x.eval(s, i.Index)
		var res c03V
		found, decided := false, false
		if xv.K == c03Str && kv.K == c03Int && !i.CommaOk {
			if kv.I < 0 || kv.I >= int64(len(xv.S)) {
				return fmt.Sprintf("index out of range [%d] with length %d", kv.I, len(xv.S))
			}
			s.regs[i] = c03IntV(int64(xv.S[kv.I]))
			break
		}
		if xv.K == c03MapV || xv.K == c03Nil {
			if k, ok := c03MapKey(kv); ok {
				cont := s.mem[xv.Ref]
				if _, opaque := cont.M["#opaque"]; !opaque || xv.K == c03Nil {
					decided = true
					if e, ok := cont.M[k]; ok && xv.K == c03MapV {
						res, found = e, true
					} else if mt, ok := i.X.Type().Underlying().(*types.Map); ok {
						res = c03ZeroOf(mt.Elem())
					}
				}
			}
		}
		if !decided {
			res = c03V{Taint: kv.K == c03Str || kv.K == c03Int || kv.Taint}
			if i.CommaOk {
				s.regs[i] = c03TupleV(res, c03V{Taint: res.Taint})
			} else {
				s.regs[i] = res
			}
			break
		}
		if i.CommaOk {
			s.regs[i] = c03TupleV(res, c03BoolV(found))
		} else {
			s.regs[i] = res
		}
	case *ssa.TypeAssert:
		xv := x.eval(s, i.X)
		ok, decided := false, false
		if xv.Ty != nil {
			if it, isIface := i.AssertedType.Underlying().(*types.Interface); isIface {
				ok, decided = types.Implements(xv.Ty, it), true
			} else {
				ok, decided = types.Identical(xv.Ty, i.AssertedType), true
			}
		} else if xv.K == c03Nil {
			ok, decided = false, true
		}
		switch {
		case decided && i.CommaOk:
			if ok {
				s.regs[i] = c03TupleV(xv, c03BoolV(true))
			} else {
				s.regs[i] = c03TupleV(c03ZeroOf(i.AssertedType), c03BoolV(false))
			}
		case decided && ok:
			s.regs[i] = xv
		case decided:
			return "interface conversion: type assertion fails"
		case i.CommaOk:
			s.regs[i] = c03TupleV(c03U(), c03U())
		default:
			s.regs[i] = c03U()
		}
	case *ssa.MakeClosure:
		fn, _ := i.Fn.(*ssa.Function)
		v := c03V{K: c03NonNil, G: "func:" + i.Fn.String(), Fn: fn}
		for _, b := range i.Bindings {
			v.FV = append(v.FV, x.eval(s, b))
		}
		s.regs[i] = v
	case *ssa.MakeChan:
		s.regs[i] = c03NonNilV()
	case *ssa.DebugRef, *ssa.Send:
		// no effect on the tracked values
	default:
		if v, ok := in.(ssa.Value); ok {
			s.regs[v] = c03U()
		}
	}
	return ""
}

func c03MapKey(k c03V) (string, bool) {
	switch k.K {
	case c03Str:
		return "s:" + k.S, true
	case c03Int:
		return fmt.Sprintf("i:%d", k.I), true
	case c03Bool:
		return fmt.Sprintf("b:%v", k.B), true
	}
	return "", false
}

// c03Truncate wraps n to the width and signedness of the integer type t.
func c03Truncate(n int64, t types.Type) int64 {
	b, ok := t.Underlying().(*types.Basic)
	if !ok {
		return n
	}
	switch b.Kind() {
	case types.Uint8:
		return int64(uint8(n))
	case types.Int8:
		return int64(int8(n))
	case types.Uint16:
		return int64(uint16(n))
	case types.Int16:
		return int64(int16(n))
	case types.Uint32:
		return int64(uint32(n))
	case types.Int32:
		return int64(int32(n))
	}
	return n
}

func (x *c03Exec) slice(s *c03State, i *ssa.Slice) string {
	xv := x.eval(s, i.X)
	lo, hi := c03IntV(0), c03U()
	if i.Low != nil {
		lo = x.eval(s, i.Low)
	}
	n, okN := c03Len(xv)
	isArr := false
	if pt, ok := i.X.Type().Underlying().(*types.Pointer); ok {
		if at, ok := pt.Elem().Underlying().(*types.Array); ok {
			n, okN, isArr = at.Len(), true, true
		}
	}
	if i.High != nil {
		hi = x.eval(s, i.High)
	} else if okN {
		hi = c03IntV(n)
	}
	if xv.K == c03Str {
		if lo.K == c03Int && hi.K == c03Int {
			if lo.I < 0 || hi.I > int64(len(xv.S)) || lo.I > hi.I {
				return fmt.Sprintf("slice bounds out of range [%d:%d] of string %q", lo.I, hi.I, xv.S)
			}
			s.regs[i] = c03StrV(xv.S[lo.I:hi.I])
			return ""
		}
		s.regs[i] = c03TaintedU()
		return ""
	}
	if lo.K == c03Int && lo.I < 0 {
		return fmt.Sprintf("slice bounds out of range [%d:]", lo.I)
	}
	if hi.K == c03Int && hi.I < 0 {
		return fmt.Sprintf("slice bounds out of range [:%d]", hi.I)
	}
	if lo.K == c03Int && hi.K == c03Int {
		if lo.I > hi.I {
			return fmt.Sprintf("slice bounds out of range [%d:%d]", lo.I, hi.I)
		}
		if isArr && hi.I > n {
			return fmt.Sprintf("slice bounds out of range [:%d] with array length %d", hi.I, n)
		}
		// for slices the upper bound is the capacity, which is not tracked
		res := c03SliceV(hi.I - lo.I)
		switch {
		case isArr && xv.K == c03Cell:
			res.Ref, res.Off = xv.Ref, lo.I
		case xv.K == c03Slice && xv.Ref != nil:
			res.Ref, res.Off = xv.Ref, xv.Off+lo.I
		}
		if xv.K == c03Slice && xv.FillOK && lo.I >= xv.TailFrom && okN && hi.I <= n {
			res.FillOK, res.Fill, res.TailFrom = true, xv.Fill, 0
		} else if xv.K == c03Slice && xv.FillOK && lo.I == 0 && okN && hi.I <= n && hi.I > xv.TailFrom {
			res.FillOK, res.Fill, res.TailFrom = true, xv.Fill, xv.TailFrom
		}
		s.regs[i] = res
		return ""
	}
	s.regs[i] = c03V{K: c03Slice, I: -1, Taint: lo.Taint || hi.Taint || xv.Taint}
	return ""
}

func c03BinOp(op token.Token, a, b c03V) (c03V, string) {
	taint := a.Taint || b.Taint
	if op == token.EQL || op == token.NEQ {
		// a byte of the symbolic buffer compared with a known value
		for _, pr := range [][2]c03V{{a, b}, {b, a}} {
			if pr[0].K == c03Sym && pr[1].K == c03Int {
				return c03V{Cmp: &c03Cmp{Lo: pr[0].I, Hi: pr[0].I + 1, Val: pr[1].I, Neg: op == token.NEQ}}, ""
			}
			if pr[0].Cmp != nil && pr[0].Cmp.AsInt && pr[1].K == c03Int && (pr[1].I == 0 || pr[1].I == 1) {
				c := *pr[0].Cmp
				c.AsInt = false
				if (pr[1].I == 1) != (op == token.EQL) {
					c.Neg = !c.Neg
				}
				return c03V{Cmp: &c}, ""
			}
			if pr[0].Cmp != nil && !pr[0].Cmp.AsInt && pr[1].K == c03Bool {
				c := *pr[0].Cmp
				if pr[1].B != (op == token.EQL) {
					c.Neg = !c.Neg
				}
				return c03V{Cmp: &c}, ""
			}
		}
	}
	if a.K == c03Int && b.K == c03Int {
		switch op {
		case token.ADD:
			return c03IntV(a.I + b.I), ""
		case token.SUB:
			return c03IntV(a.I - b.I), ""
		case token.MUL:
			return c03IntV(a.I * b.I), ""
		case token.QUO:
			if b.I == 0 {
				return c03U(), "integer divide by zero"
			}
			return c03IntV(a.I / b.I), ""
		case token.REM:
			if b.I == 0 {
				return c03U(), "integer divide by zero"
			}
			return c03IntV(a.I % b.I), ""
		case token.SHL:
			if b.I >= 0 && b.I < 63 {
				return c03IntV(a.I << uint(b.I)), ""
			}
		case token.SHR:
			if b.I >= 0 && b.I < 63 {
				return c03IntV(a.I >> uint(b.I)), ""
			}
		case token.AND:
			return c03IntV(a.I & b.I), ""
		case token.OR:
			return c03IntV(a.I | b.I), ""
		case token.XOR:
			return c03IntV(a.I ^ b.I), ""
		case token.EQL:
			return c03BoolV(a.I == b.I), ""
		case token.NEQ:
			return c03BoolV(a.I != b.I), ""
		case token.LSS:
			return c03BoolV(a.I < b.I), ""
		case token.LEQ:
			return c03BoolV(a.I <= b.I), ""
		case token.GTR:
			return c03BoolV(a.I > b.I), ""
		case token.GEQ:
			return c03BoolV(a.I >= b.I), ""
		}
		return c03TaintedU(), ""
	}
	if a.K == c03Str && b.K == c03Str {
		switch op {
		case token.ADD:
			return c03StrV(a.S + b.S), ""
		case token.EQL:
			return c03BoolV(a.S == b.S), ""
		case token.NEQ:
			return c03BoolV(a.S != b.S), ""
		case token.LSS:
			return c03BoolV(a.S < b.S), ""
		case token.GTR:
			return c03BoolV(a.S > b.S), ""
		}
		return c03TaintedU(), ""
	}
	if a.K == c03Bool && b.K == c03Bool {
		switch op {
		case token.EQL:
			return c03BoolV(a.B == b.B), ""
		case token.NEQ:
			return c03BoolV(a.B != b.B), ""
		case token.AND:
			return c03BoolV(a.B && b.B), ""
		case token.OR:
			return c03BoolV(a.B || b.B), ""
		}
	}
	if op == token.EQL || op == token.NEQ {
		nilness := func(v c03V) int { // 1 nil, 2 non-nil, 0 unknown
			switch v.K {
			case c03Nil:
				return 1
			case c03NonNil, c03Cell, c03FieldPtr, c03Struct, c03Slice, c03MapV, c03Int, c03Str, c03Bool, c03Sym:
				return 2 // (scalars and structs only meet nil when boxed in an interface)
			}
			return 0
		}
		na, nb := nilness(a), nilness(b)
		if na == 1 && nb == 1 {
			return c03BoolV(op == token.EQL), ""
		}
		if (na == 1 && nb == 2) || (na == 2 && nb == 1) {
			return c03BoolV(op == token.NEQ), ""
		}
		if a.K == c03NonNil && b.K == c03NonNil && a.G != "" && b.G != "" {
			return c03BoolV((a.G == b.G) == (op == token.EQL)), ""
		}
	}
	// a known string/int compared or combined with an unknown of the same kind:
	// content-independent facts cannot decide it, but it is not an imprecision
	// of the interpreter either (the other side is genuinely free)
	return c03V{Taint: taint}, ""
}

// c03FuncName gives "pkgpath.[Recv.]Name" for a source function, "" for synthetic wrappers and closures.
func c03FuncName(fn *ssa.Function) string {
	if fn == nil || fn.Synthetic != "" && !strings.HasPrefix(fn.Synthetic, "instance of") && !strings.HasPrefix(fn.Synthetic, "package init") {
		return ""
	}
	obj, ok := fn.Object().(*types.Func)
	if !ok {
		return ""
	}
	return c03ObjName(obj)
}

func c03ObjName(obj *types.Func) string {
	pkg := ""
	if obj.Pkg() != nil {
		pkg = obj.Pkg().Path()
	}
	sig := obj.Type().(*types.Signature)
	if sig.Recv() != nil {
		return pkg + "." + typeBaseName(sig.Recv().Type()) + "." + obj.Name()
	}
	return pkg + "." + obj.Name()
}

// c03CalleeName gives "pkgpath.[Recv.]Name" for a call, "" if unresolvable.
func c03CalleeName(c ssa.CallInstruction) string {
	obj := calleeObj(c)
	if obj == nil {
		return ""
	}
	return c03ObjName(obj)
}

func (x *c03Exec) runnable(fn *ssa.Function) bool {
	if fn == nil || len(fn.Blocks) == 0 {
		return false
	}
	if x.p.InModule(fn) {
		return true
	}
	return strings.Contains(fn.Synthetic, "wrapper") || strings.Contains(fn.Synthetic, "thunk")
}

// callOperands evaluates the function value (not for invokes / builtins) and the arguments of a call.
func (x *c03Exec) callOperands(s *c03State, cc *ssa.CallCommon) (c03V, []c03V) {
	var fnv c03V
	var args []c03V
	if cc.IsInvoke() {
		args = append(args, x.eval(s, cc.Value))
	} else if _, isB := cc.Value.(*ssa.Builtin); !isB {
		fnv = x.eval(s, cc.Value)
	}
	for _, a := range cc.Args {
		args = append(args, x.eval(s, a))
	}
	return fnv, args
}

// call handles a call (or a deferred call being run). res = the register that
// receives the result (nil: none). cont=true: the result was bound and the path
// continues; otherwise (next, out) are the successor states (positioned at
// instruction contIdx of the current block) / the outcomes.
func (x *c03Exec) call(s *c03State, site ssa.CallInstruction, fnv c03V, args []c03V, res ssa.Value, contIdx int) (next []*c03State, out []c03Outcome, cont bool) {
	cc := site.Common()
	bind := func(st *c03State, v c03V) {
		if res != nil {
			st.regs[res] = v
		}
	}
	panicOut := func(msg string) []c03Outcome {
		return []c03Outcome{x.panicOutcome(s, msg, site)}
	}
	if b, ok := cc.Value.(*ssa.Builtin); ok && !cc.IsInvoke() {
		v, msg := x.builtin(s, b.Name(), args)
		if msg != "" {
			return nil, panicOut(msg), false
		}
		bind(s, v)
		return nil, nil, true
	}
	// resolve the target
	var callee, raw *ssa.Function
	var fv []c03V
	name := ""
	moduleIface := false
	if cc.IsInvoke() {
		name = c03ObjName(cc.Method)
		if cc.Method.Pkg() != nil && strings.HasPrefix(cc.Method.Pkg().Path(), x.p.ModPath) {
			moduleIface = true
		}
	} else {
		callee = staticCallee(site)
		raw = cc.StaticCallee()
		if callee != nil {
			fv = fnv.FV
		} else if fnv.Fn != nil {
			callee, fv, raw = origin(fnv.Fn), fnv.FV, fnv.Fn
		}
		if callee == nil {
			// the target of the call is not known on this path
			s.imprecise = true
			s.events = append(s.events, c03Event{Name: "opaque-call", Args: args})
			x.havocArgs(s, args)
			x.bindUnknown(s, cc, res, true)
			return nil, nil, true
		}
		name = c03FuncName(callee)
	}
	if name == "sync.Once.Do" && len(args) == 2 && args[1].Fn != nil {
		// lazily initialised state: the function runs (the first call is the one that matters for what it sets up)
		callee, fv, raw, args, name = origin(args[1].Fn), args[1].FV, args[1].Fn, nil, c03FuncName(origin(args[1].Fn))
	}
	if name != "" {
		s.events = append(s.events, c03Event{Name: name, Args: args})
	}
	// in-module function replaced by a model for this scenario
	if lf, ok := x.sc.Leaves[name]; ok && name != "" {
		v, msg := lf(x, args)
		if msg != "" {
			return nil, panicOut(msg), false
		}
		bind(s, v)
		return nil, nil, true
	}
	if name != "" {
		if v, msg, ok := x.model(s, name, args); ok {
			if msg != "" {
				return nil, panicOut(msg), false
			}
			bind(s, v)
			return nil, nil, true
		}
	}
	if cc.IsInvoke() && moduleIface && len(args) > 0 && args[0].Ty == nil && args[0].K != c03Nil {
		// an interface declared in the module with a single implementation in the module: that one
		if it, ok := cc.Value.Type().Underlying().(*types.Interface); ok {
			if t := x.soleImplementation(it); t != nil {
				args[0].Ty = t
			}
		}
	}
	if cc.IsInvoke() && len(args) > 0 && args[0].Ty != nil {
		if m := x.p.SSA.LookupMethod(args[0].Ty, cc.Method.Pkg(), cc.Method.Name()); m != nil && x.runnable(m) {
			callee = origin(m)
			if n2 := c03FuncName(callee); n2 != "" && n2 != name {
				s.events = append(s.events, c03Event{Name: n2, Args: args})
			}
		}
	}
	if x.runnable(callee) {
		saved := x.targs
		if raw != nil && len(raw.TypeArgs()) > 0 && callee.TypeParams() != nil && callee.TypeParams().Len() == len(raw.TypeArgs()) {
			nt := map[*types.TypeParam]types.Type{}
			for k, ta := range raw.TypeArgs() {
				nt[callee.TypeParams().At(k)] = x.rtype(ta)
			}
			x.targs = nt
		} else if callee.Parent() == nil {
			x.targs = nil // closures keep the type arguments of the function they are nested in
		}
		outs := x.RunWith(callee, args, fv, c03Reach(s.mem, append(append([]c03V(nil), args...), fv...)))
		x.targs = saved
		for _, o := range outs {
			if o.Panic != "" {
				po := o
				po.Events = append(append([]c03Event(nil), s.events...), o.Events...)
				po.Imprecise = po.Imprecise || s.imprecise
				out = append(out, po)
				continue
			}
			n := s.clone()
			n.events = append(n.events, o.Events...)
			n.imprecise = n.imprecise || o.Imprecise
			for k, v := range o.Mem {
				n.mem[k] = v
			}
			if len(o.Res) == 1 {
				bind(n, o.Res[0])
			} else {
				bind(n, c03TupleV(o.Res...))
			}
			n.idx = contIdx
			next = append(next, n)
		}
		return next, out, false
	}
	// unmodelled external call / interface call whose implementation is unknown
	if cc.IsInvoke() && moduleIface {
		s.imprecise = true // the implementation is code of the module that was not followed
	}
	x.havocArgs(s, args)
	taint := false
	if !strings.HasPrefix(name, "crypto/") && !strings.HasPrefix(name, "golang.org/x/crypto/") {
		for _, a := range args {
			if a.K == c03Str || a.Taint {
				taint = true
			}
		}
	}
	x.bindUnknown(s, cc, res, taint)
	return nil, nil, true
}

var c03SoleImpl = map[*Prog]map[string]types.Type{}

// soleImplementation: the only type declared in the module (T or *T) that implements it, or nil.
func (x *c03Exec) soleImplementation(it *types.Interface) types.Type {
	if it.NumMethods() == 0 {
		return nil
	}
	cache := c03SoleImpl[x.p]
	if cache == nil {
		cache = map[string]types.Type{}
		c03SoleImpl[x.p] = cache
	}
	key := it.String()
	if t, ok := cache[key]; ok {
		return t
	}
	var found []types.Type
	for _, pkg := range x.p.Pkgs {
		if !strings.HasPrefix(pkg.PkgPath, x.p.ModPath) {
			continue
		}
		sc := pkg.Types.Scope()
		names := sc.Names()
		sort.Strings(names)
		for _, n := range names {
			tn, ok := sc.Lookup(n).(*types.TypeName)
			if !ok || tn.IsAlias() {
				continue
			}
			nt, ok := tn.Type().(*types.Named)
			if !ok || nt.TypeParams().Len() > 0 {
				continue
			}
			if _, isIface := nt.Underlying().(*types.Interface); isIface {
				continue
			}
			if types.Implements(nt, it) {
				found = append(found, nt)
			} else if pt := types.NewPointer(nt); types.Implements(pt, it) {
				found = append(found, pt)
			}
		}
	}
	var res types.Type
	if len(found) == 1 {
		res = found[0]
	}
	cache[key] = res
	return res
}

func (x *c03Exec) havocArgs(s *c03State, args []c03V) {
	for _, a := range args {
		switch {
		case a.K == c03Cell && a.Ref != nil:
			if _, isG := a.Ref.(*ssa.Global); !isG {
				s.mem[a.Ref] = c03U()
			}
		case a.K == c03FieldPtr && a.Ref != nil:
			s.mem[a.Ref] = c03SetPath(s.mem[a.Ref], a.Path, c03U())
		case a.K == c03Slice && a.Ref != nil:
			if cur, ok := s.mem[a.Ref]; ok && cur.K == c03Struct {
				if _, sym := cur.M["#sym"]; sym {
					if n, ok := c03Len(a); ok {
						s.events = append(s.events, c03Event{Name: "readbytes", Args: []c03V{c03IntV(a.Off), c03IntV(a.Off + n), c03BoolV(true)}})
					}
					continue
				}
			}
			s.havocElems(a.Ref)
		}
	}
}

func (x *c03Exec) bindUnknown(s *c03State, cc *ssa.CallCommon, res ssa.Value, taint bool) {
	if res == nil {
		return
	}
	r := cc.Signature().Results()
	switch r.Len() {
	case 0:
		s.regs[res] = c03U()
	case 1:
		s.regs[res] = c03V{Taint: taint}
	default:
		t := make([]c03V, r.Len())
		for k := range t {
			t[k] = c03V{Taint: taint}
		}
		s.regs[res] = c03TupleV(t...)
	}
}

// symRange: v is a slice of the scenario's symbolic buffer: its byte range.
func (x *c03Exec) symRange(s *c03State, v c03V) (lo, hi int64, ok bool) {
	if v.K != c03Slice || v.Ref == nil || v.I < 0 {
		return 0, 0, false
	}
	cur, have := s.mem[v.Ref]
	if !have || cur.K != c03Struct {
		return 0, 0, false
	}
	if _, sym := cur.M["#sym"]; !sym {
		return 0, 0, false
	}
	return v.Off, v.Off + v.I, true
}

// symCompare: one operand is a range of the symbolic buffer, the other a slice
// filled with one known value: the result is an undecided comparison of those
// bytes. Any other use of a range of the symbolic buffer is recorded as a read.
func (x *c03Exec) symCompare(s *c03State, a, b c03V, asInt bool) (c03V, bool) {
	for _, pr := range [][2]c03V{{a, b}, {b, a}} {
		lo, hi, ok := x.symRange(s, pr[0])
		if !ok {
			continue
		}
		o := pr[1]
		if o.K == c03Slice && o.FillOK && o.TailFrom == 0 && o.I == hi-lo {
			return c03V{Cmp: &c03Cmp{Lo: lo, Hi: hi, Val: o.Fill, AsInt: asInt}}, true
		}
		s.events = append(s.events, c03Event{Name: "readbytes", Args: []c03V{c03IntV(lo), c03IntV(hi), c03BoolV(true)}})
	}
	return c03U(), false
}

// elemsOf returns the known elements of a slice backed by a known store.
func (x *c03Exec) elemsOf(s *c03State, v c03V) ([]c03V, bool) {
	if v.K == c03Nil {
		return nil, true
	}
	if v.K != c03Slice || v.Ref == nil || v.I < 0 {
		return nil, false
	}
	cur := s.mem[v.Ref]
	var out []c03V
	for k := int64(0); k < v.I; k++ {
		e, ok := c03GetPath(cur, []string{fmt.Sprintf("#%d", v.Off+k)})
		if !ok {
			return nil, false
		}
		out = append(out, e)
	}
	return out, true
}

func (x *c03Exec) builtin(s *c03State, name string, args []c03V) (c03V, string) {
	switch name {
	case "len":
		if len(args) == 1 {
			if n, ok := c03Len(args[0]); ok {
				return c03IntV(n), ""
			}
			return c03V{Taint: args[0].Taint}, ""
		}
	case "cap":
		return c03U(), ""
	case "append":
		if len(args) == 2 {
			a, okA := c03Len(args[0])
			b, okB := c03Len(args[1])
			if okA && okB {
				r := c03SliceV(a + b)
				for _, part := range args {
					if len(part.Segs) > 0 {
						r.Segs = append(r.Segs[:len(r.Segs):len(r.Segs)], part.Segs...)
					} else if n, _ := c03Len(part); n > 0 {
						r.Segs = append(r.Segs[:len(r.Segs):len(r.Segs)], n)
					}
				}
				if e0, ok0 := x.elemsOf(s, args[0]); ok0 {
					if e1, ok1 := x.elemsOf(s, args[1]); ok1 && len(e0)+len(e1) > 0 {
						// both operands have known elements: so has the result (in a fresh store)
						m := map[string]c03V{}
						for k, e := range append(append([]c03V(nil), e0...), e1...) {
							m[fmt.Sprintf("#%d", k)] = e
						}
						key := c03NewStore()
						s.mem[key] = c03V{K: c03Struct, M: m}
						r.Ref = key
					}
				}
				if args[1].FillOK && args[1].TailFrom == 0 {
					r.FillOK, r.Fill, r.TailFrom = true, args[1].Fill, a
				}
				return r, ""
			}
			return c03V{K: c03Slice, I: -1, Taint: args[0].Taint || args[1].Taint}, ""
		}
		if len(args) == 1 {
			return args[0], ""
		}
	case "copy":
		if len(args) == 2 && args[0].K == c03Slice && args[0].Ref != nil {
			s.havocElems(args[0].Ref)
		}
		if len(args) == 2 {
			a, okA := c03Len(args[0])
			b, okB := c03Len(args[1])
			if okA && okB {
				if b < a {
					a = b
				}
				return c03IntV(a), ""
			}
		}
		return c03U(), ""
	case "clear":
		if len(args) == 1 && args[0].Ref != nil {
			if args[0].K == c03MapV {
				s.mem[args[0].Ref] = c03V{K: c03Struct, M: map[string]c03V{}}
			} else {
				s.havocElems(args[0].Ref)
			}
		}
		return c03U(), ""
	case "min", "max":
		if len(args) >= 1 {
			best, ok := args[0], args[0].K == c03Int
			for _, a := range args[1:] {
				if a.K != c03Int {
					ok = false
					break
				}
				if (name == "min") == (a.I < best.I) {
					best = a
				}
			}
			if ok {
				return best, ""
			}
		}
	}
	return c03U(), ""
}

func c03KnownLen(v c03V) int64 {
	if n, ok := c03Len(v); ok {
		return n
	}
	return -1
}

// model: abstract behaviour of the standard-library / third-party functions
// the crypto packages build on. Returns ok=false if there is no model.
// Documented contracts relied on are listed in r.Assumptions by the caller.
func (x *c03Exec) model(s *c03State, name string, args []c03V) (c03V, string, bool) {
	arg := func(k int) c03V {
		if k < len(args) {
			return args[k]
		}
		return c03U()
	}
	failErr := func() c03V { return c03NonNilV() }
	switch name {
	case "crypto/aes.NewCipher":
		if k := c03KnownLen(arg(0)); k >= 0 {
			if k == 16 || k == 24 || k == 32 {
				return c03TupleV(c03NonNilV(), c03NilV()), "", true
			}
			return c03TupleV(c03NilV(), c03NonNilV()), "", true
		}
		return c03TupleV(c03U(), c03U()), "", true
	case "crypto/cipher.NewGCM":
		return c03TupleV(c03NonNilV(), c03NilV()), "", true
	case "crypto/cipher.NewCBCEncrypter", "crypto/cipher.NewCBCDecrypter":
		if k := c03KnownLen(arg(1)); k >= 0 && k != 16 {
			return c03U(), fmt.Sprintf("%s panics: IV length %d must equal the block size 16", name, k), true
		}
		return c03NonNilV(), "", true
	case "crypto/cipher.BlockMode.CryptBlocks":
		d, sr := c03KnownLen(arg(1)), c03KnownLen(arg(2))
		if sr >= 0 && sr%16 != 0 {
			return c03U(), fmt.Sprintf("BlockMode.CryptBlocks panics: input of %d bytes is not a whole number of blocks", sr), true
		}
		if sr >= 0 && d >= 0 && d < sr {
			return c03U(), fmt.Sprintf("BlockMode.CryptBlocks panics: output (%d bytes) smaller than input (%d bytes)", d, sr), true
		}
		return c03U(), "", true
	case "crypto/cipher.Block.Encrypt", "crypto/cipher.Block.Decrypt":
		for k := 1; k <= 2; k++ {
			if n := c03KnownLen(arg(k)); n >= 0 && n < 16 {
				return c03U(), fmt.Sprintf("%s panics: buffer of %d bytes is shorter than one block", name, n), true
			}
		}
		return c03U(), "", true
	case "crypto/cipher.Block.BlockSize":
		return c03IntV(16), "", true
	case "crypto/cipher.AEAD.NonceSize":
		if x.sc.NonceSize >= 0 {
			return c03IntV(x.sc.NonceSize), "", true
		}
		return c03U(), "", true
	case "crypto/cipher.AEAD.Overhead":
		if x.sc.Overhead >= 0 {
			return c03IntV(x.sc.Overhead), "", true
		}
		return c03U(), "", true
	case "crypto/cipher.AEAD.Seal", "crypto/cipher.AEAD.Open":
		if k := c03KnownLen(arg(2)); k >= 0 && x.sc.NonceSize >= 0 && k != x.sc.NonceSize {
			return c03U(), fmt.Sprintf("%s panics: nonce of %d bytes given to an AEAD whose nonce size is %d", name, k, x.sc.NonceSize), true
		}
		if strings.HasSuffix(name, "Seal") {
			d, m := c03KnownLen(arg(1)), c03KnownLen(arg(3))
			if d >= 0 && m >= 0 && x.sc.Overhead >= 0 {
				if x.sc.SealPad {
					m += 16 - m%16
				}
				r := c03SliceV(d + m + x.sc.Overhead)
				r.Ref, r.Off = arg(1).Ref, arg(1).Off // appended to dst: shares its storage when the capacity allows
				return r, "", true
			}
			r := c03SliceV(-1)
			r.Ref, r.Off = arg(1).Ref, arg(1).Off
			return r, "", true
		}
		if x.sc.Fail {
			return c03TupleV(c03NilV(), failErr()), "", true
		}
		r := c03SliceV(-1)
		r.Ref, r.Off = arg(1).Ref, arg(1).Off
		return c03TupleV(r, c03U()), "", true
	case "golang.org/x/crypto/chacha20poly1305.New", "golang.org/x/crypto/chacha20poly1305.NewX":
		if k := c03KnownLen(arg(0)); k >= 0 {
			if k == 32 {
				return c03TupleV(c03NonNilV(), c03NilV()), "", true
			}
			return c03TupleV(c03NilV(), c03NonNilV()), "", true
		}
		return c03TupleV(c03U(), c03U()), "", true
	case "errors.New":
		return c03NonNilV(), "", true
	case "fmt.Errorf":
		// %w keeps the identity of the wrapped sentinel as far as errors.Is is concerned
		if f := arg(0); f.K == c03Str && strings.Count(f.S, "%w") == 1 {
			if es, ok := x.elemsOf(s, arg(1)); ok {
				for _, e := range es {
					if e.K == c03NonNil && e.G != "" && !strings.HasPrefix(e.G, "func:") && !strings.HasPrefix(e.G, "hash:") {
						return c03V{K: c03NonNil, G: e.G}, "", true
					}
				}
			}
		}
		return c03NonNilV(), "", true
	case "errors.Is":
		a, b := arg(0), arg(1)
		if a.K == c03Nil {
			return c03BoolV(false), "", true
		}
		if a.K == c03NonNil && b.K == c03NonNil && a.G != "" && a.G == b.G {
			return c03BoolV(true), "", true
		}
		return c03U(), "", true
	case "crypto/hmac.Equal", "bytes.Equal", "crypto/subtle.ConstantTimeCompare", "slices.Equal":
		asInt := name == "crypto/subtle.ConstantTimeCompare"
		no := c03BoolV(false)
		if asInt {
			no = c03IntV(0)
		}
		a, b := c03KnownLen(arg(0)), c03KnownLen(arg(1))
		if x.sc.Fail || (a >= 0 && b >= 0 && a != b) {
			return no, "", true
		}
		if v, ok := x.symCompare(s, arg(0), arg(1), asInt); ok {
			return v, "", true
		}
		return c03U(), "", true
	case "bytes.HasSuffix", "bytes.HasPrefix":
		if lo, hi, ok := x.symRange(s, arg(0)); ok {
			if m := c03KnownLen(arg(1)); m >= 0 {
				if m > hi-lo {
					return c03BoolV(false), "", true
				}
				part := arg(0)
				if name == "bytes.HasSuffix" {
					part.Off, part.I = hi-m, m
				} else {
					part.I = m
				}
				if v, ok := x.symCompare(s, part, arg(1), false); ok {
					return v, "", true
				}
			}
		}
		return c03U(), "", true
	case "bytes.Repeat":
		a := c03KnownLen(arg(0))
		if n := arg(1); a >= 0 && n.K == c03Int {
			if n.I < 0 {
				return c03U(), "bytes.Repeat panics: negative count", true
			}
			r := c03SliceV(a * n.I)
			if a == 1 {
				if es, ok := x.elemsOf(s, arg(0)); ok && len(es) == 1 && es[0].K == c03Int {
					r.FillOK, r.Fill = true, es[0].I
				}
			}
			return r, "", true
		}
		return c03SliceV(-1), "", true
	case "crypto.Hash.New":
		if h := arg(0); h.K == c03Int && (h.I <= 0 || h.I > 19) {
			return c03U(), fmt.Sprintf("crypto.Hash(%d).New panics: requested hash function is unavailable", h.I), true
		}
		if h := arg(0); h.K == c03Int {
			return c03V{K: c03NonNil, G: fmt.Sprintf("hash:%d", h.I)}, "", true
		}
		return c03NonNilV(), "", true
	case "crypto.Hash.Size":
		if h := arg(0); h.K == c03Int {
			if n, ok := map[int64]int64{2: 16, 3: 20, 4: 28, 5: 32, 6: 48, 7: 64}[h.I]; ok {
				return c03IntV(n), "", true
			}
		}
		return c03U(), "", true
	case "crypto/sha1.New":
		return c03V{K: c03NonNil, G: "hash:3"}, "", true
	case "crypto/sha256.New224":
		return c03V{K: c03NonNil, G: "hash:4"}, "", true
	case "crypto/sha256.New":
		return c03V{K: c03NonNil, G: "hash:5"}, "", true
	case "crypto/sha512.New384":
		return c03V{K: c03NonNil, G: "hash:6"}, "", true
	case "crypto/sha512.New":
		return c03V{K: c03NonNil, G: "hash:7"}, "", true
	case "crypto/hmac.New":
		return c03NonNilV(), "", true
	case "crypto/rsa.DecryptPKCS1v15", "crypto/rsa.DecryptOAEP":
		if x.sc.Fail {
			return c03TupleV(c03NilV(), failErr()), "", true
		}
		return c03TupleV(c03SliceV(-1), c03U()), "", true
	case "crypto/rsa.EncryptPKCS1v15", "crypto/rsa.EncryptOAEP", "crypto/rsa.SignPKCS1v15", "crypto/rsa.SignPSS", "crypto/ecdsa.SignASN1":
		return c03TupleV(c03SliceV(-1), c03U()), "", true
	case "crypto/ed25519.Sign":
		return c03SliceV(64), "", true
	case "crypto/rsa.VerifyPKCS1v15", "crypto/rsa.VerifyPSS":
		if x.sc.Fail {
			return c03V{K: c03NonNil, G: "crypto/rsa.ErrVerification"}, "", true
		}
		return c03U(), "", true
	case "crypto/ecdsa.VerifyASN1", "crypto/ed25519.Verify":
		if x.sc.Fail {
			return c03BoolV(false), "", true
		}
		return c03U(), "", true
	case "github.com/lestrrat-go/jwx/v2/jwk.Key.KeyType":
		if x.sc.KeyType != "" {
			return c03StrV(x.sc.KeyType), "", true
		}
		return c03U(), "", true
	case "github.com/lestrrat-go/jwx/v2/jwk.Key.Raw":
		if x.sc.RawFails {
			return c03NonNilV(), "", true
		}
		if c := arg(1); c.K == c03Cell {
			if _, isSlice := c.Ref.Type().Underlying().(*types.Pointer).Elem().Underlying().(*types.Slice); isSlice {
				if x.sc.KeyLen >= 0 {
					s.mem[c.Ref] = c03SliceV(x.sc.KeyLen)
					return c03NilV(), "", true
				}
				s.mem[c.Ref] = c03SliceV(-1)
			} else {
				s.mem[c.Ref] = c03U() // the key object fills in the caller's struct
				if x.sc.ECCurve != "" {
					// an ECDSA key on a known curve: the exported struct carries that curve
					et := ""
					if pt, ok := c.Ref.Type().Underlying().(*types.Pointer); ok {
						et = x.rtype(pt.Elem()).String()
					}
					curve := c03V{K: c03NonNil, G: "curve:" + x.sc.ECCurve}
					switch et {
					case "crypto/ecdsa.PublicKey":
						s.mem[c.Ref] = c03V{K: c03Struct, M: map[string]c03V{"Curve": curve}}
						return c03NilV(), "", true
					case "crypto/ecdsa.PrivateKey":
						s.mem[c.Ref] = c03V{K: c03Struct, M: map[string]c03V{"PublicKey": {K: c03Struct, M: map[string]c03V{"Curve": curve}}}}
						return c03NilV(), "", true
					}
				}
			}
		}
		return c03U(), "", true
	case "crypto/elliptic.P224", "crypto/elliptic.P256", "crypto/elliptic.P384", "crypto/elliptic.P521":
		return c03V{K: c03NonNil, G: "curve:P-" + name[len(name)-3:]}, "", true
	case "crypto/elliptic.Curve.Params":
		if r := arg(0); strings.HasPrefix(r.G, "curve:") {
			cn := strings.TrimPrefix(r.G, "curve:")
			var bits int64
			fmt.Sscanf(cn, "P-%d", &bits)
			st := c03NewStore()
			s.mem[st] = c03V{K: c03Struct, M: map[string]c03V{"Name": c03StrV(cn), "BitSize": c03IntV(bits)}}
			return c03V{K: c03Cell, Ref: st}, "", true
		}
		return c03U(), "", true
	case "github.com/lestrrat-go/jwx/v2/jwa.EllipticCurveAlgorithm.String":
		if a := arg(0); a.K == c03Str {
			return a, "", true
		}
		return c03U(), "", true
	case "github.com/lestrrat-go/jwx/v2/jwk.ECDSAPrivateKey.Crv", "github.com/lestrrat-go/jwx/v2/jwk.ECDSAPublicKey.Crv":
		if x.sc.ECCurve != "" {
			return c03StrV(x.sc.ECCurve), "", true
		}
		return c03U(), "", true
	case "crypto/rsa.PrivateKey.Decrypt", "crypto/rsa.PrivateKey.Sign", "crypto/ecdsa.PrivateKey.Sign", "crypto/ed25519.PrivateKey.Sign":
		// crypto.Decrypter / crypto.Signer forms of the package-level primitives: re-expressed as the
		// canonical primitive event so that the rules see one vocabulary
		opts := arg(3)
		ty := ""
		if opts.Ty != nil {
			ty = opts.Ty.String()
		}
		var om map[string]c03V
		if opts.K == c03Cell {
			if st, ok := s.mem[opts.Ref]; ok && st.K == c03Struct {
				om = st.M
			}
		}
		hashOf := func(v c03V) c03V {
			if v.K == c03Int {
				return c03V{K: c03NonNil, G: fmt.Sprintf("hash:%d", v.I)}
			}
			return c03U()
		}
		canon := func(n string, a ...c03V) {
			// the original event is kept under a neutral name: the call is understood
			if k := len(s.events) - 1; k >= 0 && s.events[k].Name == name {
				s.events[k].Name = "as:" + name
			}
			s.events = append(s.events, c03Event{Name: n, Args: a})
		}
		switch {
		case name == "crypto/rsa.PrivateKey.Decrypt" && (opts.K == c03Nil || ty == "*crypto/rsa.PKCS1v15DecryptOptions"):
			canon("crypto/rsa.DecryptPKCS1v15", arg(1), arg(0), arg(2))
		case name == "crypto/rsa.PrivateKey.Decrypt" && ty == "*crypto/rsa.OAEPOptions" && om != nil:
			canon("crypto/rsa.DecryptOAEP", hashOf(om["Hash"]), arg(1), arg(0), arg(2), om["Label"])
		case name == "crypto/rsa.PrivateKey.Sign" && ty == "crypto.Hash":
			canon("crypto/rsa.SignPKCS1v15", arg(1), arg(0), c03V{K: opts.K, I: opts.I}, arg(2))
		case name == "crypto/rsa.PrivateKey.Sign" && ty == "*crypto/rsa.PSSOptions" && om != nil:
			canon("crypto/rsa.SignPSS", arg(1), arg(0), om["Hash"], arg(2), opts)
		case name == "crypto/ecdsa.PrivateKey.Sign":
			canon("crypto/ecdsa.SignASN1", arg(1), arg(0), arg(2))
		case name == "crypto/ed25519.PrivateKey.Sign" && (ty == "crypto.Hash" && opts.K == c03Int && opts.I == 0 || ty == "*crypto/ed25519.Options" && om != nil && om["Hash"].K == c03Int && om["Hash"].I == 0):
			canon("crypto/ed25519.Sign", arg(0), arg(2))
			return c03TupleV(c03SliceV(64), c03U()), "", true
		default:
			return c03U(), "", false
		}
		if name == "crypto/rsa.PrivateKey.Decrypt" && x.sc.Fail {
			return c03TupleV(c03NilV(), c03NonNilV()), "", true
		}
		return c03TupleV(c03SliceV(-1), c03U()), "", true
	case "crypto/cipher.NewGCMWithNonceSize", "crypto/cipher.NewGCMWithTagSize":
		want := int64(12)
		if strings.HasSuffix(name, "TagSize") {
			want = 16
		}
		if n := arg(1); n.K == c03Int && n.I == want {
			if k := len(s.events) - 1; k >= 0 && s.events[k].Name == name {
				s.events[k].Name = "as:" + name
			}
			s.events = append(s.events, c03Event{Name: "crypto/cipher.NewGCM", Args: args[:1]})
			return c03TupleV(c03NonNilV(), c03NilV()), "", true
		}
		return c03U(), "", false
	case "bytes.Clone", "slices.Clone":
		if a := arg(0); a.K == c03Slice || a.K == c03Nil {
			r := a
			r.Ref, r.Off = nil, 0
			if es, ok := x.elemsOf(s, a); ok && a.K == c03Slice {
				// a copy with the same known elements
				m := map[string]c03V{}
				for k, e := range es {
					m[fmt.Sprintf("#%d", k)] = e
				}
				key := c03NewStore()
				s.mem[key] = c03V{K: c03Struct, M: m}
				r.Ref = key
			}
			return r, "", true
		}
		return c03U(), "", true
	case "slices.Concat":
		// variadic: one argument, the slice of slices
		if es, ok := x.elemsOf(s, arg(0)); ok {
			var n int64
			for _, e := range es {
				k, ok := c03Len(e)
				if !ok {
					return c03SliceV(-1), "", true
				}
				n += k
			}
			return c03SliceV(n), "", true
		}
		return c03SliceV(-1), "", true
	case "slices.Contains", "slices.Index":
		if es, ok := x.elemsOf(s, arg(0)); ok {
			v := arg(1)
			allKnown := v.K == c03Str || v.K == c03Int
			idx := int64(-1)
			for k, e := range es {
				if e.K != v.K {
					allKnown = false
					break
				}
				if idx < 0 && ((v.K == c03Str && e.S == v.S) || (v.K == c03Int && e.I == v.I)) {
					idx = int64(k)
				}
			}
			if allKnown {
				if name == "slices.Contains" {
					return c03BoolV(idx >= 0), "", true
				}
				return c03IntV(idx), "", true
			}
		}
		return c03TaintedU(), "", true
	case "strings.TrimPrefix", "strings.TrimSuffix", "strings.ToUpper", "strings.ToLower", "strings.TrimSpace":
		a, b := arg(0), arg(1)
		if a.K == c03Str && (b.K == c03Str || len(args) == 1) {
			switch name {
			case "strings.TrimPrefix":
				return c03StrV(strings.TrimPrefix(a.S, b.S)), "", true
			case "strings.TrimSuffix":
				return c03StrV(strings.TrimSuffix(a.S, b.S)), "", true
			case "strings.ToUpper":
				return c03StrV(strings.ToUpper(a.S)), "", true
			case "strings.ToLower":
				return c03StrV(strings.ToLower(a.S)), "", true
			default:
				return c03StrV(strings.TrimSpace(a.S)), "", true
			}
		}
		return c03TaintedU(), "", true
	case "strings.Index", "strings.LastIndex":
		a, b := arg(0), arg(1)
		if a.K == c03Str && b.K == c03Str {
			if name == "strings.Index" {
				return c03IntV(int64(strings.Index(a.S, b.S))), "", true
			}
			return c03IntV(int64(strings.LastIndex(a.S, b.S))), "", true
		}
		return c03TaintedU(), "", true
	case "strings.Cut":
		a, b := arg(0), arg(1)
		if a.K == c03Str && b.K == c03Str {
			x1, x2, ok := strings.Cut(a.S, b.S)
			return c03TupleV(c03StrV(x1), c03StrV(x2), c03BoolV(ok)), "", true
		}
		return c03TupleV(c03TaintedU(), c03TaintedU(), c03TaintedU()), "", true
	case "bytes.Buffer.Write", "bytes.Buffer.WriteString", "bytes.Buffer.WriteByte", "bytes.Buffer.Bytes", "bytes.Buffer.Len", "bytes.Buffer.Grow", "bytes.Buffer.Reset", "bytes.NewBuffer":
		// a bytes.Buffer used as an append-only accumulator: its length and the pieces written
		if name == "bytes.NewBuffer" {
			st := c03NewStore()
			n, ok := c03Len(arg(0))
			if !ok {
				return c03U(), "", false
			}
			acc := c03SliceV(n)
			if n > 0 {
				acc.Segs = []int64{n}
			}
			s.mem[st] = c03V{K: c03Struct, M: map[string]c03V{"#acc": acc}}
			return c03V{K: c03Cell, Ref: st}, "", true
		}
		recv := arg(0)
		if recv.K != c03Cell || recv.Ref == nil {
			return c03U(), "", false
		}
		cur := s.mem[recv.Ref]
		acc, have := c03SliceV(0), false
		if cur.K == c03Struct {
			acc, have = cur.M["#acc"], true
			if acc.K != c03Slice {
				acc = c03SliceV(0)
				if _, touched := cur.M["#touched"]; touched {
					have = false
				}
			}
		}
		if !have {
			return c03U(), "", false
		}
		put := func(a c03V) { s.mem[recv.Ref] = c03SetPath(cur, []string{"#acc"}, a) }
		switch name {
		case "bytes.Buffer.Write", "bytes.Buffer.WriteString", "bytes.Buffer.WriteByte":
			n := int64(1)
			if name != "bytes.Buffer.WriteByte" {
				k, ok := c03Len(arg(1))
				if !ok {
					s.mem[recv.Ref] = c03SetPath(cur, []string{"#touched"}, c03BoolV(true))
					s.mem[recv.Ref] = c03SetPath(s.mem[recv.Ref], []string{"#acc"}, c03U())
					return c03TupleV(c03U(), c03NilV()), "", true
				}
				n = k
			}
			acc.I += n
			if n > 0 {
				if segs := arg(1).Segs; len(segs) > 0 && name == "bytes.Buffer.Write" {
					acc.Segs = append(acc.Segs[:len(acc.Segs):len(acc.Segs)], segs...)
				} else {
					acc.Segs = append(acc.Segs[:len(acc.Segs):len(acc.Segs)], n)
				}
			}
			put(acc)
			if name == "bytes.Buffer.WriteByte" {
				return c03NilV(), "", true
			}
			return c03TupleV(c03IntV(n), c03NilV()), "", true
		case "bytes.Buffer.Bytes":
			return acc, "", true
		case "bytes.Buffer.Len":
			return c03IntV(acc.I), "", true
		case "bytes.Buffer.Reset":
			put(c03SliceV(0))
			return c03U(), "", true
		}
		return c03U(), "", true // Grow
	case "encoding/binary.bigEndian.AppendUint64", "encoding/binary.bigEndian.AppendUint32", "encoding/binary.bigEndian.AppendUint16",
		"encoding/binary.littleEndian.AppendUint64", "encoding/binary.littleEndian.AppendUint32", "encoding/binary.littleEndian.AppendUint16":
		w := int64(8)
		switch {
		case strings.HasSuffix(name, "32"):
			w = 4
		case strings.HasSuffix(name, "16"):
			w = 2
		}
		if n, ok := c03Len(arg(1)); ok {
			r := c03SliceV(n + w)
			for _, part := range []c03V{arg(1)} {
				if len(part.Segs) > 0 {
					r.Segs = append(r.Segs, part.Segs...)
				} else if n > 0 {
					r.Segs = append(r.Segs, n)
				}
			}
			r.Segs = append(r.Segs, w)
			return r, "", true
		}
		return c03SliceV(-1), "", true
	case "crypto/subtle.XORBytes":
		a, b := c03KnownLen(arg(1)), c03KnownLen(arg(2))
		if a >= 0 && b >= 0 {
			if b < a {
				a = b
			}
			if d := c03KnownLen(arg(0)); d >= 0 && d < a {
				return c03U(), "subtle.XORBytes panics: dst too short", true
			}
			return c03IntV(a), "", true
		}
		return c03U(), "", true
	case "slices.Grow", "bytes.TrimSpace":
		if name == "slices.Grow" {
			return arg(0), "", true
		}
		return c03U(), "", false
	case "strings.Repeat":
		if a, n := arg(0), arg(1); a.K == c03Str && n.K == c03Int && n.I >= 0 && n.I < 1024 {
			return c03StrV(strings.Repeat(a.S, int(n.I))), "", true
		}
		return c03TaintedU(), "", true
	case "cmp.Or":
		// first non-zero element of the variadic list
		if es, ok := x.elemsOf(s, arg(0)); ok {
			for _, e := range es {
				switch e.K {
				case c03Int:
					if e.I != 0 {
						return e, "", true
					}
				case c03Str:
					if e.S != "" {
						return e, "", true
					}
				default:
					return c03V{Taint: true}, "", true
				}
			}
			if len(es) > 0 {
				return es[len(es)-1], "", true
			}
		}
		return c03TaintedU(), "", true
	case "strconv.Atoi":
		if a := arg(0); a.K == c03Str {
			if n, err := strconv.Atoi(a.S); err == nil {
				return c03TupleV(c03IntV(int64(n)), c03NilV()), "", true
			}
			return c03TupleV(c03IntV(0), c03NonNilV()), "", true
		}
		return c03TupleV(c03TaintedU(), c03TaintedU()), "", true
	case "strings.HasPrefix", "strings.HasSuffix", "strings.Contains", "strings.EqualFold":
		a, b := arg(0), arg(1)
		if a.K == c03Str && b.K == c03Str {
			switch name {
			case "strings.HasPrefix":
				return c03BoolV(strings.HasPrefix(a.S, b.S)), "", true
			case "strings.HasSuffix":
				return c03BoolV(strings.HasSuffix(a.S, b.S)), "", true
			case "strings.Contains":
				return c03BoolV(strings.Contains(a.S, b.S)), "", true
			default:
				return c03BoolV(strings.EqualFold(a.S, b.S)), "", true
			}
		}
		return c03TaintedU(), "", true
	}
	if x.sc.RawFails && strings.HasPrefix(name, "github.com/lestrrat-go/jwx/v2/jwk.") && strings.HasSuffix(name, ".Raw") {
		return c03NonNilV(), "", true
	}
	return c03U(), "", false
}

// c03EventNames returns the sorted set of event names of an outcome list.
func c03EventNames(outs []c03Outcome) []string {
	set := map[string]bool{}
	for _, o := range outs {
		for _, e := range o.Events {
			set[e.Name] = true
		}
	}
	var l []string
	for n := range set {
		l = append(l, n)
	}
	sort.Strings(l)
	return l
}
