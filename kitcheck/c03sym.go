package main

// c03sym: a small path-sensitive abstract interpreter over go/ssa used by the
// C03 rules. It never runs repository code: it walks the SSA of a function
// under a *scenario* (algorithm name, lengths of the byte-slice arguments,
// what the key object reports, values of a few struct fields) and enumerates
// the abstract outcomes (returned values / panics) together with the
// primitive operations reached on each path.
//
// Abstract values: known strings / ints / bools, slices with a known length,
// nil, non-nil (with the identity of the package-level variable it was loaded
// from, which is how sentinels are recognised), tuples, addresses of locals
// and of struct fields. Everything else is Unknown; a branch on an Unknown
// condition forks the path (both outcomes are explored; `x == nil` tests
// refine x on each side). An Unknown that was computed FROM scenario facts by
// an operation the interpreter has no model for is *tainted*: a fork on a
// tainted condition marks the path imprecise, and rules that need "all
// outcomes" turn UNDECIDED instead of reporting a violation that rests on an
// imprecise path.

import (
	"fmt"
	"go/constant"
	"go/token"
	"go/types"
	"sort"
	"strconv"
	"strings"

	"golang.org/x/tools/go/ssa"
)

type c03Kind uint8

const (
	c03Unknown c03Kind = iota
	c03Str
	c03Int
	c03Bool
	c03Slice    // non-nil slice / array pointer with length I (-1 = unknown length)
	c03Nil      // nil of any nillable type (a nil slice has length 0)
	c03NonNil   // non-nil pointer / interface / func; G = package-level variable it was loaded from
	c03Tuple    // T
	c03Cell     // address of a local (Ref)
	c03FieldPtr // address of a struct field (F); Ref = the local struct it belongs to, if known
	c03Struct   // struct value with known fields M (field name -> value)
)

type c03V struct {
	K     c03Kind
	S     string
	I     int64
	B     bool
	Taint bool
	G     string
	T     []c03V
	Ref   *ssa.Alloc
	F     FieldID
	M     map[string]c03V
}

func (v c03V) String() string {
	switch v.K {
	case c03Str:
		return fmt.Sprintf("%q", v.S)
	case c03Int:
		return fmt.Sprintf("%d", v.I)
	case c03Bool:
		return fmt.Sprintf("%v", v.B)
	case c03Slice:
		if v.I < 0 {
			return "[]byte(len ?)"
		}
		return fmt.Sprintf("[]byte(len %d)", v.I)
	case c03Nil:
		return "nil"
	case c03NonNil:
		if v.G != "" {
			return v.G
		}
		return "non-nil"
	case c03Tuple:
		var s []string
		for _, e := range v.T {
			s = append(s, e.String())
		}
		return "(" + strings.Join(s, ", ") + ")"
	case c03Cell:
		return "&local"
	case c03FieldPtr:
		return "&" + v.F.String()
	case c03Struct:
		var ks []string
		for k := range v.M {
			ks = append(ks, k)
		}
		sort.Strings(ks)
		var sb strings.Builder
		sb.WriteString("{")
		for _, k := range ks {
			sb.WriteString(k + ":" + v.M[k].String() + " ")
		}
		sb.WriteString("}")
		return sb.String()
	}
	if v.Taint {
		return "?!"
	}
	return "?"
}

func c03U() c03V             { return c03V{} }
func c03TaintedU() c03V      { return c03V{Taint: true} }
func c03IntV(i int64) c03V   { return c03V{K: c03Int, I: i} }
func c03StrV(s string) c03V  { return c03V{K: c03Str, S: s} }
func c03BoolV(b bool) c03V   { return c03V{K: c03Bool, B: b} }
func c03SliceV(n int64) c03V { return c03V{K: c03Slice, I: n} }
func c03NilV() c03V          { return c03V{K: c03Nil} }
func c03NonNilV() c03V       { return c03V{K: c03NonNil} }
func c03TupleV(vs ...c03V) c03V {
	return c03V{K: c03Tuple, T: vs}
}

// c03Len: the length of an abstract slice/string value, ok=false if unknown.
func c03Len(v c03V) (int64, bool) {
	switch v.K {
	case c03Str:
		return int64(len(v.S)), true
	case c03Slice:
		if v.I >= 0 {
			return v.I, true
		}
	case c03Nil:
		return 0, true
	}
	return 0, false
}

// c03Event is a primitive operation (modelled external call, or any call into
// the module) reached on a path.
type c03Event struct {
	Name string // "pkgpath.Func" / "pkgpath.Type.Method"
	Args []c03V
}

type c03Outcome struct {
	Res       []c03V
	Panic     string // non-empty: the path ends in a run-time panic (what, where)
	Explicit  bool   // the panic is an explicit panic(...) statement of the source
	Events    []c03Event
	Imprecise bool
	Pos       token.Pos
}

func (o c03Outcome) Res0() c03V {
	if len(o.Res) == 0 {
		return c03U()
	}
	return o.Res[0]
}

func (o *c03Outcome) Has(name string) bool {
	for _, e := range o.Events {
		if e.Name == name {
			return true
		}
	}
	return false
}

// c03Scenario: what the environment (key object, AEAD object, struct fields)
// reports in this run.
type c03Scenario struct {
	KeyType   string                                                  // jwk.Key.KeyType(); "" = unknown
	KeyLen    int64                                                   // length of the bytes key.Raw(&[]byte) stores; -1 = Raw outcome unknown
	NonceSize int64                                                   // cipher.AEAD.NonceSize(); -1 unknown
	Overhead  int64                                                   // cipher.AEAD.Overhead(); -1 unknown
	Fields    map[FieldID]c03V                                        // loads of struct fields
	Fail      bool                                                    // authenticating / verifying primitives report failure
	SealPad   bool                                                    // the AEAD pads the plaintext to whole AES blocks before sealing (CBC-HMAC)
	RawFails  bool                                                    // jwk key objects refuse to export themselves as the requested Go type (wrong kind of key)
	Leaves    map[string]func(x *c03Exec, args []c03V) (c03V, string) // in-module functions replaced by a model
}

type c03Exec struct {
	p         *Prog
	sc        *c03Scenario
	memo      map[string][]c03Outcome
	active    map[string]bool
	depth     int
	steps     int
	Truncated bool
}

func newC03Exec(p *Prog, sc *c03Scenario) *c03Exec {
	return &c03Exec{p: p, sc: sc, memo: map[string][]c03Outcome{}, active: map[string]bool{}}
}

const (
	c03MaxSteps = 400000
	c03MaxPaths = 4000
)

type c03State struct {
	blk, prev *ssa.BasicBlock
	idx       int
	regs      map[ssa.Value]c03V
	mem       map[*ssa.Alloc]c03V
	events    []c03Event
	imprecise bool
	forks     map[*ssa.If][2]int
}

func (s *c03State) clone() *c03State {
	n := &c03State{blk: s.blk, prev: s.prev, idx: s.idx, imprecise: s.imprecise,
		regs: make(map[ssa.Value]c03V, len(s.regs)+8), mem: make(map[*ssa.Alloc]c03V, len(s.mem)+2), forks: make(map[*ssa.If][2]int, len(s.forks)+1)}
	for k, v := range s.regs {
		n.regs[k] = v
	}
	for k, v := range s.mem {
		n.mem[k] = v
	}
	for k, v := range s.forks {
		n.forks[k] = v
	}
	n.events = append([]c03Event(nil), s.events...)
	return n
}

func c03Key(fn *ssa.Function, args []c03V) string {
	var sb strings.Builder
	sb.WriteString(fn.String())
	for _, a := range args {
		sb.WriteString("|")
		sb.WriteString(a.String())
		if a.K == c03Cell {
			sb.WriteString(fmt.Sprintf("%p", a.Ref))
		}
	}
	return sb.String()
}

// Run enumerates the abstract outcomes of fn called with args.
func (x *c03Exec) Run(fn *ssa.Function, args []c03V) []c03Outcome {
	if len(fn.Blocks) == 0 {
		return []c03Outcome{{Res: []c03V{c03U()}}}
	}
	key := c03Key(fn, args)
	if o, ok := x.memo[key]; ok {
		return o
	}
	if x.active[key] || x.depth > 14 {
		x.Truncated = true
		return nil
	}
	x.active[key] = true
	x.depth++
	defer func() { x.depth--; delete(x.active, key) }()

	st := &c03State{blk: fn.Blocks[0], regs: map[ssa.Value]c03V{}, mem: map[*ssa.Alloc]c03V{}, forks: map[*ssa.If][2]int{}}
	for i, pa := range fn.Params {
		if i < len(args) {
			st.regs[pa] = args[i]
		}
	}
	var outs []c03Outcome
	work := []*c03State{st}
	paths := 0
	for len(work) > 0 {
		s := work[len(work)-1]
		work = work[:len(work)-1]
		paths++
		if paths > c03MaxPaths || x.steps > c03MaxSteps {
			x.Truncated = true
			break
		}
		more, o := x.runPath(fn, s)
		work = append(work, more...)
		outs = append(outs, o...)
	}
	outs = c03Dedup(outs)
	x.memo[key] = outs
	return outs
}

// c03Dedup merges outcomes that return the same abstract values (their event
// lists are united): the caller continues identically after them.
func c03Dedup(outs []c03Outcome) []c03Outcome {
	idx := map[string]int{}
	var res []c03Outcome
	for _, o := range outs {
		k := fmt.Sprintf("%v|%s|%v|%v", o.Res, o.Panic, o.Imprecise, o.Pos)
		if j, ok := idx[k]; ok {
			have := map[string]bool{}
			for _, ev := range res[j].Events {
				have[ev.Name+fmt.Sprint(ev.Args)] = true
			}
			merged := res[j].Events
			for _, ev := range o.Events {
				if kk := ev.Name + fmt.Sprint(ev.Args); !have[kk] {
					have[kk] = true
					merged = append(merged[:len(merged):len(merged)], ev)
				}
			}
			res[j].Events = merged
			continue
		}
		idx[k] = len(res)
		res = append(res, o)
	}
	return res
}

// runPath advances one path until it ends (return/panic) or forks.
func (x *c03Exec) runPath(fn *ssa.Function, s *c03State) ([]*c03State, []c03Outcome) {
	for {
		if s.idx >= len(s.blk.Instrs) {
			return nil, nil // malformed block
		}
		in := s.blk.Instrs[s.idx]
		x.steps++
		if x.steps > c03MaxSteps {
			x.Truncated = true
			return nil, nil
		}
		switch i := in.(type) {
		case *ssa.Return:
			o := c03Outcome{Events: s.events, Imprecise: s.imprecise, Pos: i.Pos()}
			for _, r := range i.Results {
				o.Res = append(o.Res, x.eval(s, r))
			}
			return nil, []c03Outcome{o}
		case *ssa.Panic:
			return nil, []c03Outcome{{Panic: "explicit panic at " + x.p.Pos(instrPos(i)), Explicit: true, Events: s.events, Imprecise: s.imprecise, Pos: instrPos(i)}}
		case *ssa.Jump:
			s.prev, s.blk, s.idx = s.blk, s.blk.Succs[0], 0
			continue
		case *ssa.If:
			c := x.eval(s, i.Cond)
			if c.K == c03Bool {
				k := 1
				if c.B {
					k = 0
				}
				// a concretely decided test (typically the header of a loop with a known trip
				// count) re-arms the undecided tests it dominates: the consecutive-take limit is
				// only there to bound loops whose own test is undecided
				for f := range s.forks {
					if f != i && i.Block().Dominates(f.Block()) {
						delete(s.forks, f)
					}
				}
				s.prev, s.blk, s.idx = s.blk, s.blk.Succs[k], 0
				continue
			}
			var next []*c03State
			cnt := s.forks[i]
			for k := 0; k < 2; k++ {
				if cnt[k] >= 2 {
					continue // loop with an unknown trip count: 0, 1 and 2 consecutive iterations are explored
				}
				n := s.clone()
				c2 := cnt
				c2[k]++
				c2[1-k] = 0 // consecutive takes: leaving a loop re-arms it for the next entry
				n.forks[i] = c2
				if c.Taint {
					n.imprecise = true
				}
				if bo, ok := i.Cond.(*ssa.BinOp); ok && cnt[0]+cnt[1] == 0 {
					// what an undecided comparison compares (lets rules see whether a scenario value reaches a test)
					n.events = append(n.events, c03Event{Name: "fork", Args: []c03V{x.eval(s, bo.X), x.eval(s, bo.Y)}})
				}
				x.refine(n, i.Cond, k == 0)
				n.prev, n.blk, n.idx = s.blk, s.blk.Succs[k], 0
				next = append(next, n)
			}
			return next, nil
		case *ssa.Call:
			next, out, cont := x.call(fn, s, i)
			if !cont {
				return next, out
			}
		default:
			if msg := x.step(s, in); msg != "" {
				return nil, []c03Outcome{{Panic: msg + " at " + x.p.Pos(instrPos(in)), Events: s.events, Imprecise: s.imprecise, Pos: instrPos(in)}}
			}
		}
		s.idx++
	}
}

// refine records what a taken branch says about the operands of its condition.
func (x *c03Exec) refine(s *c03State, cond ssa.Value, branch bool) {
	for {
		u, ok := cond.(*ssa.UnOp)
		if !ok || u.Op != token.NOT {
			break
		}
		cond, branch = u.X, !branch
	}
	if _, isConst := cond.(*ssa.Const); !isConst {
		s.regs[cond] = c03BoolV(branch)
	}
	bo, ok := cond.(*ssa.BinOp)
	if !ok || (bo.Op != token.EQL && bo.Op != token.NEQ) {
		return
	}
	isNil := branch == (bo.Op == token.EQL)
	for _, pair := range [][2]ssa.Value{{bo.X, bo.Y}, {bo.Y, bo.X}} {
		if isNilConst(pair[1]) {
			if _, isConst := pair[0].(*ssa.Const); isConst {
				continue
			}
			if cur := x.eval(s, pair[0]); cur.K == c03Unknown {
				if isNil {
					s.regs[pair[0]] = c03NilV()
				} else {
					s.regs[pair[0]] = c03NonNilV()
				}
			}
		}
	}
}

func (x *c03Exec) eval(s *c03State, v ssa.Value) c03V {
	switch c := v.(type) {
	case *ssa.Const:
		if c.IsNil() {
			return c03NilV()
		}
		if c.Value == nil {
			return c03U()
		}
		switch c.Value.Kind() {
		case constant.String:
			return c03StrV(constant.StringVal(c.Value))
		case constant.Int:
			if n, ok := constant.Int64Val(c.Value); ok {
				return c03IntV(n)
			}
		case constant.Bool:
			return c03BoolV(constant.BoolVal(c.Value))
		}
		return c03U()
	case *ssa.Function:
		return c03V{K: c03NonNil, G: "func:" + c.String()}
	case *ssa.Global:
		return c03V{K: c03NonNil, G: "&" + c03GlobalName(c)}
	}
	if r, ok := s.regs[v]; ok {
		return r
	}
	return c03U()
}

// globalSliceLen: length of a package-level slice variable that is stored to
// exactly once in the whole module, by its package initialiser, from a slice
// of a fixed-size array (composite literal); -1 otherwise.
func (x *c03Exec) globalSliceLen(g *ssa.Global) int64 {
	n, stores := int64(-1), 0
	for _, fn := range x.p.Funcs {
		allInstrs(fn, func(in ssa.Instruction) {
			st, ok := in.(*ssa.Store)
			if !ok || st.Addr != ssa.Value(g) {
				return
			}
			stores++
			if fn.Name() != "init" || fn.Parent() != nil {
				stores++ // reassigned at run time: unknown
				return
			}
			if sl, ok := st.Val.(*ssa.Slice); ok && sl.Low == nil && sl.High == nil {
				if pt, ok := sl.X.Type().Underlying().(*types.Pointer); ok {
					if at, ok := pt.Elem().Underlying().(*types.Array); ok {
						n = at.Len()
					}
				}
			}
		})
	}
	if stores != 1 {
		return -1
	}
	return n
}

func c03GlobalName(g *ssa.Global) string {
	if g.Pkg != nil {
		return g.Pkg.Pkg.Path() + "." + g.Name()
	}
	return g.Name()
}

func c03ZeroOf(t types.Type) c03V {
	switch u := t.Underlying().(type) {
	case *types.Slice, *types.Pointer, *types.Interface, *types.Map, *types.Chan, *types.Signature:
		return c03NilV()
	case *types.Struct:
		m := map[string]c03V{}
		for k := 0; k < u.NumFields(); k++ {
			m[u.Field(k).Name()] = c03ZeroOf(u.Field(k).Type())
		}
		return c03V{K: c03Struct, M: m}
	case *types.Basic:
		switch {
		case u.Info()&types.IsString != 0:
			return c03StrV("")
		case u.Info()&types.IsInteger != 0:
			return c03IntV(0)
		case u.Info()&types.IsBoolean != 0:
			return c03BoolV(false)
		}
	}
	return c03U()
}

// step executes a non-control, non-call instruction; returns a panic message or "".
func (x *c03Exec) step(s *c03State, in ssa.Instruction) string {
	switch i := in.(type) {
	case *ssa.Alloc:
		s.regs[i] = c03V{K: c03Cell, Ref: i}
		s.mem[i] = c03ZeroOf(i.Type().Underlying().(*types.Pointer).Elem())
	case *ssa.Store:
		a := x.eval(s, i.Addr)
		if a.K == c03Cell {
			s.mem[a.Ref] = x.eval(s, i.Val)
		}
		if a.K == c03FieldPtr && a.Ref != nil {
			cur := s.mem[a.Ref]
			nm := map[string]c03V{}
			if cur.K == c03Struct {
				for k, v := range cur.M {
					nm[k] = v
				}
			}
			nm[a.F.Field] = x.eval(s, i.Val)
			s.mem[a.Ref] = c03V{K: c03Struct, M: nm}
		}
	case *ssa.Phi:
		val := c03U()
		for k, p := range i.Block().Preds {
			if p == s.prev && k < len(i.Edges) {
				val = x.eval(s, i.Edges[k])
			}
		}
		s.regs[i] = val
	case *ssa.UnOp:
		xv := x.eval(s, i.X)
		switch i.Op {
		case token.MUL:
			switch xv.K {
			case c03Cell:
				s.regs[i] = s.mem[xv.Ref]
			case c03FieldPtr:
				if xv.Ref != nil {
					if st := s.mem[xv.Ref]; st.K == c03Struct {
						if fv, ok := st.M[xv.F.Field]; ok {
							s.regs[i] = fv
							break
						}
					}
					s.regs[i] = c03U()
				} else if fv, ok := x.sc.Fields[xv.F]; ok {
					s.regs[i] = fv
				} else {
					s.regs[i] = c03U()
				}
			case c03NonNil:
				if strings.HasPrefix(xv.G, "&") {
					// load of a package-level variable: interface/pointer-typed ones are
					// assumed non-nil and never reassigned (sentinels)
					switch i.Type().Underlying().(type) {
					case *types.Interface, *types.Pointer:
						s.regs[i] = c03V{K: c03NonNil, G: xv.G[1:]}
					case *types.Slice:
						// package-level slice initialised once from a literal and never reassigned
						if g, ok := i.X.(*ssa.Global); ok {
							if n := x.globalSliceLen(g); n >= 0 {
								s.regs[i] = c03SliceV(n)
								break
							}
						}
						s.regs[i] = c03U()
					default:
						s.regs[i] = c03U()
					}
				} else {
					s.regs[i] = c03U()
				}
			case c03Nil:
				return "nil pointer dereference"
			default:
				s.regs[i] = c03U()
			}
		case token.NOT:
			if xv.K == c03Bool {
				s.regs[i] = c03BoolV(!xv.B)
			} else {
				s.regs[i] = c03V{Taint: xv.Taint}
			}
		case token.SUB:
			if xv.K == c03Int {
				s.regs[i] = c03IntV(-xv.I)
			} else {
				s.regs[i] = c03V{Taint: xv.Taint}
			}
		default:
			s.regs[i] = c03V{Taint: xv.Taint}
		}
	case *ssa.BinOp:
		v, msg := c03BinOp(i.Op, x.eval(s, i.X), x.eval(s, i.Y))
		if msg != "" {
			return msg
		}
		s.regs[i] = v
	case *ssa.Slice:
		return x.slice(s, i)
	case *ssa.MakeSlice:
		n := x.eval(s, i.Len)
		if n.K == c03Int {
			if n.I < 0 {
				return fmt.Sprintf("make([]T, %d): len out of range", n.I)
			}
			s.regs[i] = c03SliceV(n.I)
		} else {
			s.regs[i] = c03V{K: c03Slice, I: -1, Taint: n.Taint}
		}
	case *ssa.Convert:
		xv := x.eval(s, i.X)
		if xv.K == c03Int || xv.K == c03Nil {
			s.regs[i] = xv
		} else if xv.K == c03Str {
			if b, ok := i.Type().Underlying().(*types.Basic); ok && b.Info()&types.IsString != 0 {
				s.regs[i] = xv
			} else {
				s.regs[i] = c03SliceV(int64(len(xv.S)))
			}
		} else {
			s.regs[i] = c03V{Taint: xv.Taint}
		}
	case *ssa.ChangeType:
		s.regs[i] = x.eval(s, i.X)
	case *ssa.ChangeInterface:
		s.regs[i] = x.eval(s, i.X)
	case *ssa.MakeInterface:
		xv := x.eval(s, i.X)
		switch xv.K {
		case c03Cell, c03NonNil, c03FieldPtr:
			s.regs[i] = xv
		case c03Unknown:
			if _, isPtr := i.X.Type().Underlying().(*types.Pointer); isPtr {
				s.regs[i] = c03U()
			} else {
				s.regs[i] = c03NonNilV()
			}
		default:
			s.regs[i] = c03NonNilV() // an interface holding a value is not nil
		}
	case *ssa.SliceToArrayPointer:
		s.regs[i] = c03U()
	case *ssa.Extract:
		t := x.eval(s, i.Tuple)
		if t.K == c03Tuple && i.Index < len(t.T) {
			s.regs[i] = t.T[i.Index]
		} else {
			s.regs[i] = c03V{Taint: t.Taint}
		}
	case *ssa.FieldAddr:
		fp := c03V{K: c03FieldPtr, F: fieldIDOfAddr(i)}
		if b := x.eval(s, i.X); b.K == c03Cell {
			if _, isStruct := b.Ref.Type().Underlying().(*types.Pointer).Elem().Underlying().(*types.Struct); isStruct {
				fp.Ref = b.Ref
			}
		}
		s.regs[i] = fp
	case *ssa.Field:
		if sv := x.eval(s, i.X); sv.K == c03Struct {
			if fv, ok := sv.M[fieldIDOfField(i).Field]; ok {
				s.regs[i] = fv
			} else {
				s.regs[i] = c03U()
			}
		} else if fv, ok := x.sc.Fields[fieldIDOfField(i)]; ok {
			s.regs[i] = fv
		} else {
			s.regs[i] = c03U()
		}
	case *ssa.IndexAddr:
		xv, iv := x.eval(s, i.X), x.eval(s, i.Index)
		n, okN := c03Len(xv)
		if pt, ok := i.X.Type().Underlying().(*types.Pointer); ok {
			if at, ok := pt.Elem().Underlying().(*types.Array); ok {
				n, okN = at.Len(), true
			}
		}
		if okN && iv.K == c03Int && (iv.I < 0 || iv.I >= n) {
			return fmt.Sprintf("index out of range [%d] with length %d", iv.I, n)
		}
		s.regs[i] = c03U()
	case *ssa.Index:
		xv, iv := x.eval(s, i.X), x.eval(s, i.Index)
		if n, ok := c03Len(xv); ok && iv.K == c03Int && (iv.I < 0 || iv.I >= n) {
			return fmt.Sprintf("index out of range [%d] with length %d", iv.I, n)
		}
		s.regs[i] = c03U()
	case *ssa.Lookup:
		kv := x.eval(s, i.Index)
		s.regs[i] = c03V{Taint: kv.K == c03Str || kv.K == c03Int || kv.Taint}
	case *ssa.TypeAssert:
		if i.CommaOk {
			s.regs[i] = c03TupleV(c03U(), c03U())
		} else {
			s.regs[i] = c03U()
		}
	case *ssa.MakeClosure:
		g := "func:" + i.Fn.String()
		for _, b := range i.Bindings {
			g += "[" + x.eval(s, b).String() + "]"
		}
		s.regs[i] = c03V{K: c03NonNil, G: g}
	case *ssa.MakeMap, *ssa.MakeChan:
		s.regs[i.(ssa.Value)] = c03NonNilV()
	case *ssa.DebugRef, *ssa.RunDefers, *ssa.Defer, *ssa.Go, *ssa.Send, *ssa.MapUpdate:
		// no effect on the tracked values
	default:
		if v, ok := in.(ssa.Value); ok {
			s.regs[v] = c03U()
		}
	}
	return ""
}

func (x *c03Exec) slice(s *c03State, i *ssa.Slice) string {
	xv := x.eval(s, i.X)
	lo, hi := c03IntV(0), c03U()
	if i.Low != nil {
		lo = x.eval(s, i.Low)
	}
	n, okN := c03Len(xv)
	isArr := false
	if pt, ok := i.X.Type().Underlying().(*types.Pointer); ok {
		if at, ok := pt.Elem().Underlying().(*types.Array); ok {
			n, okN, isArr = at.Len(), true, true
		}
	}
	if i.High != nil {
		hi = x.eval(s, i.High)
	} else if okN {
		hi = c03IntV(n)
	}
	if xv.K == c03Str {
		if lo.K == c03Int && hi.K == c03Int {
			if lo.I < 0 || hi.I > int64(len(xv.S)) || lo.I > hi.I {
				return fmt.Sprintf("slice bounds out of range [%d:%d] of string %q", lo.I, hi.I, xv.S)
			}
			s.regs[i] = c03StrV(xv.S[lo.I:hi.I])
			return ""
		}
		s.regs[i] = c03TaintedU()
		return ""
	}
	if lo.K == c03Int && lo.I < 0 {
		return fmt.Sprintf("slice bounds out of range [%d:]", lo.I)
	}
	if hi.K == c03Int && hi.I < 0 {
		return fmt.Sprintf("slice bounds out of range [:%d]", hi.I)
	}
	if lo.K == c03Int && hi.K == c03Int {
		if lo.I > hi.I {
			return fmt.Sprintf("slice bounds out of range [%d:%d]", lo.I, hi.I)
		}
		if isArr && hi.I > n {
			return fmt.Sprintf("slice bounds out of range [:%d] with array length %d", hi.I, n)
		}
		// for slices the upper bound is the capacity, which is not tracked
		s.regs[i] = c03SliceV(hi.I - lo.I)
		return ""
	}
	s.regs[i] = c03V{K: c03Slice, I: -1, Taint: lo.Taint || hi.Taint || xv.Taint}
	return ""
}

func c03BinOp(op token.Token, a, b c03V) (c03V, string) {
	taint := a.Taint || b.Taint
	if a.K == c03Int && b.K == c03Int {
		switch op {
		case token.ADD:
			return c03IntV(a.I + b.I), ""
		case token.SUB:
			return c03IntV(a.I - b.I), ""
		case token.MUL:
			return c03IntV(a.I * b.I), ""
		case token.QUO:
			if b.I == 0 {
				return c03U(), "integer divide by zero"
			}
			return c03IntV(a.I / b.I), ""
		case token.REM:
			if b.I == 0 {
				return c03U(), "integer divide by zero"
			}
			return c03IntV(a.I % b.I), ""
		case token.SHL:
			if b.I >= 0 && b.I < 63 {
				return c03IntV(a.I << uint(b.I)), ""
			}
		case token.SHR:
			if b.I >= 0 && b.I < 63 {
				return c03IntV(a.I >> uint(b.I)), ""
			}
		case token.AND:
			return c03IntV(a.I & b.I), ""
		case token.OR:
			return c03IntV(a.I | b.I), ""
		case token.XOR:
			return c03IntV(a.I ^ b.I), ""
		case token.EQL:
			return c03BoolV(a.I == b.I), ""
		case token.NEQ:
			return c03BoolV(a.I != b.I), ""
		case token.LSS:
			return c03BoolV(a.I < b.I), ""
		case token.LEQ:
			return c03BoolV(a.I <= b.I), ""
		case token.GTR:
			return c03BoolV(a.I > b.I), ""
		case token.GEQ:
			return c03BoolV(a.I >= b.I), ""
		}
		return c03TaintedU(), ""
	}
	if a.K == c03Str && b.K == c03Str {
		switch op {
		case token.ADD:
			return c03StrV(a.S + b.S), ""
		case token.EQL:
			return c03BoolV(a.S == b.S), ""
		case token.NEQ:
			return c03BoolV(a.S != b.S), ""
		case token.LSS:
			return c03BoolV(a.S < b.S), ""
		case token.GTR:
			return c03BoolV(a.S > b.S), ""
		}
		return c03TaintedU(), ""
	}
	if a.K == c03Bool && b.K == c03Bool {
		switch op {
		case token.EQL:
			return c03BoolV(a.B == b.B), ""
		case token.NEQ:
			return c03BoolV(a.B != b.B), ""
		case token.AND:
			return c03BoolV(a.B && b.B), ""
		case token.OR:
			return c03BoolV(a.B || b.B), ""
		}
	}
	if op == token.EQL || op == token.NEQ {
		nilness := func(v c03V) int { // 1 nil, 2 non-nil, 0 unknown
			switch v.K {
			case c03Nil:
				return 1
			case c03NonNil, c03Cell, c03FieldPtr:
				return 2
			}
			return 0
		}
		na, nb := nilness(a), nilness(b)
		if na == 1 && nb == 1 {
			return c03BoolV(op == token.EQL), ""
		}
		if (na == 1 && nb == 2) || (na == 2 && nb == 1) {
			return c03BoolV(op == token.NEQ), ""
		}
		if a.K == c03NonNil && b.K == c03NonNil && a.G != "" && b.G != "" {
			return c03BoolV((a.G == b.G) == (op == token.EQL)), ""
		}
	}
	// a known string/int compared or combined with an unknown of the same kind:
	// content-independent facts cannot decide it, but it is not an imprecision
	// of the interpreter either (the other side is genuinely free)
	return c03V{Taint: taint}, ""
}

// c03CalleeName gives "pkgpath.[Recv.]Name" for a call, "" if unresolvable.
func c03CalleeName(c ssa.CallInstruction) string {
	obj := calleeObj(c)
	if obj == nil {
		return ""
	}
	pkg := ""
	if obj.Pkg() != nil {
		pkg = obj.Pkg().Path()
	}
	sig := obj.Type().(*types.Signature)
	if sig.Recv() != nil {
		return pkg + "." + typeBaseName(sig.Recv().Type()) + "." + obj.Name()
	}
	return pkg + "." + obj.Name()
}

// call handles a call instruction. cont=true: the value was bound and the
// path continues at the next instruction; otherwise (next, out) are the
// successor states / the outcome.
func (x *c03Exec) call(fn *ssa.Function, s *c03State, i *ssa.Call) (next []*c03State, out []c03Outcome, cont bool) {
	cc := i.Common()
	var args []c03V
	if cc.IsInvoke() {
		args = append(args, x.eval(s, cc.Value))
	}
	for _, a := range cc.Args {
		args = append(args, x.eval(s, a))
	}
	panicOut := func(msg string) []c03Outcome {
		return []c03Outcome{{Panic: msg + " at " + x.p.Pos(instrPos(i)), Events: s.events, Imprecise: s.imprecise, Pos: instrPos(i)}}
	}
	if b := builtinName(i); b != "" {
		v, msg := x.builtin(b, args)
		if msg != "" {
			return nil, panicOut(msg), false
		}
		s.regs[i] = v
		return nil, nil, true
	}
	name := c03CalleeName(i)
	if name != "" {
		s.events = append(s.events, c03Event{Name: name, Args: args})
	}
	// a local whose address is handed to a call may be written by the callee
	for _, a := range args {
		if (a.K == c03Cell || a.K == c03FieldPtr) && a.Ref != nil {
			s.mem[a.Ref] = c03U()
		}
	}
	// in-module function replaced by a model for this scenario
	if lf, ok := x.sc.Leaves[name]; ok {
		v, msg := lf(x, args)
		if msg != "" {
			return nil, panicOut(msg), false
		}
		s.regs[i] = v
		return nil, nil, true
	}
	if v, msg, ok := x.model(s, i, name, args); ok {
		if msg != "" {
			return nil, panicOut(msg), false
		}
		s.regs[i] = v
		return nil, nil, true
	}
	callee := staticCallee(i)
	if callee != nil && x.p.InModule(callee) && len(callee.Blocks) > 0 {
		outs := x.Run(callee, args)
		for _, o := range outs {
			if o.Panic != "" {
				po := o
				po.Events = append(append([]c03Event(nil), s.events...), o.Events...)
				po.Imprecise = po.Imprecise || s.imprecise
				out = append(out, po)
				continue
			}
			n := s.clone()
			n.events = append(n.events, o.Events...)
			n.imprecise = n.imprecise || o.Imprecise
			if len(o.Res) == 1 {
				n.regs[i] = o.Res[0]
			} else {
				n.regs[i] = c03TupleV(o.Res...)
			}
			n.idx = s.idx + 1
			next = append(next, n)
		}
		return next, out, false
	}
	// unmodelled external / dynamic call
	taint := false
	if !strings.HasPrefix(name, "crypto/") && !strings.HasPrefix(name, "golang.org/x/crypto/") {
		for _, a := range args {
			if a.K == c03Str || a.Taint {
				taint = true
			}
		}
	}
	res := cc.Signature().Results()
	switch res.Len() {
	case 0:
		s.regs[i] = c03U()
	case 1:
		s.regs[i] = c03V{Taint: taint}
	default:
		t := make([]c03V, res.Len())
		for k := range t {
			t[k] = c03V{Taint: taint}
		}
		s.regs[i] = c03TupleV(t...)
	}
	return nil, nil, true
}

func (x *c03Exec) builtin(name string, args []c03V) (c03V, string) {
	switch name {
	case "len":
		if len(args) == 1 {
			if n, ok := c03Len(args[0]); ok {
				return c03IntV(n), ""
			}
			return c03V{Taint: args[0].Taint}, ""
		}
	case "cap":
		return c03U(), ""
	case "append":
		if len(args) == 2 {
			a, okA := c03Len(args[0])
			b, okB := c03Len(args[1])
			if okA && okB {
				return c03SliceV(a + b), ""
			}
			return c03V{K: c03Slice, I: -1, Taint: args[0].Taint || args[1].Taint}, ""
		}
		if len(args) == 1 {
			return args[0], ""
		}
	case "copy":
		if len(args) == 2 {
			a, okA := c03Len(args[0])
			b, okB := c03Len(args[1])
			if okA && okB {
				if b < a {
					a = b
				}
				return c03IntV(a), ""
			}
		}
		return c03U(), ""
	case "min", "max":
		if len(args) == 2 && args[0].K == c03Int && args[1].K == c03Int {
			a, b := args[0].I, args[1].I
			if (name == "min") == (a < b) {
				return c03IntV(a), ""
			}
			return c03IntV(b), ""
		}
	}
	return c03U(), ""
}

func c03KnownLen(v c03V) int64 {
	if n, ok := c03Len(v); ok {
		return n
	}
	return -1
}

// model: abstract behaviour of the standard-library / third-party functions
// the crypto packages build on. Returns ok=false if there is no model.
// Documented contracts relied on are listed in r.Assumptions by the caller.
func (x *c03Exec) model(s *c03State, i *ssa.Call, name string, args []c03V) (c03V, string, bool) {
	arg := func(k int) c03V {
		if k < len(args) {
			return args[k]
		}
		return c03U()
	}
	failErr := func() c03V { return c03NonNilV() }
	switch name {
	case "crypto/aes.NewCipher":
		if k := c03KnownLen(arg(0)); k >= 0 {
			if k == 16 || k == 24 || k == 32 {
				return c03TupleV(c03NonNilV(), c03NilV()), "", true
			}
			return c03TupleV(c03NilV(), c03NonNilV()), "", true
		}
		return c03TupleV(c03U(), c03U()), "", true
	case "crypto/cipher.NewGCM":
		return c03TupleV(c03NonNilV(), c03NilV()), "", true
	case "crypto/cipher.NewCBCEncrypter", "crypto/cipher.NewCBCDecrypter":
		if k := c03KnownLen(arg(1)); k >= 0 && k != 16 {
			return c03U(), fmt.Sprintf("%s panics: IV length %d must equal the block size 16", name, k), true
		}
		return c03NonNilV(), "", true
	case "crypto/cipher.BlockMode.CryptBlocks":
		d, sr := c03KnownLen(arg(1)), c03KnownLen(arg(2))
		if sr >= 0 && sr%16 != 0 {
			return c03U(), fmt.Sprintf("BlockMode.CryptBlocks panics: input of %d bytes is not a whole number of blocks", sr), true
		}
		if sr >= 0 && d >= 0 && d < sr {
			return c03U(), fmt.Sprintf("BlockMode.CryptBlocks panics: output (%d bytes) smaller than input (%d bytes)", d, sr), true
		}
		return c03U(), "", true
	case "crypto/cipher.Block.Encrypt", "crypto/cipher.Block.Decrypt":
		for k := 1; k <= 2; k++ {
			if n := c03KnownLen(arg(k)); n >= 0 && n < 16 {
				return c03U(), fmt.Sprintf("%s panics: buffer of %d bytes is shorter than one block", name, n), true
			}
		}
		return c03U(), "", true
	case "crypto/cipher.Block.BlockSize":
		return c03IntV(16), "", true
	case "crypto/cipher.AEAD.NonceSize":
		if x.sc.NonceSize >= 0 {
			return c03IntV(x.sc.NonceSize), "", true
		}
		return c03U(), "", true
	case "crypto/cipher.AEAD.Overhead":
		if x.sc.Overhead >= 0 {
			return c03IntV(x.sc.Overhead), "", true
		}
		return c03U(), "", true
	case "crypto/cipher.AEAD.Seal", "crypto/cipher.AEAD.Open":
		if k := c03KnownLen(arg(2)); k >= 0 && x.sc.NonceSize >= 0 && k != x.sc.NonceSize {
			return c03U(), fmt.Sprintf("%s panics: nonce of %d bytes given to an AEAD whose nonce size is %d", name, k, x.sc.NonceSize), true
		}
		if strings.HasSuffix(name, "Seal") {
			d, m := c03KnownLen(arg(1)), c03KnownLen(arg(3))
			if d >= 0 && m >= 0 && x.sc.Overhead >= 0 {
				if x.sc.SealPad {
					m += 16 - m%16
				}
				return c03SliceV(d + m + x.sc.Overhead), "", true
			}
			return c03SliceV(-1), "", true
		}
		if x.sc.Fail {
			return c03TupleV(c03NilV(), failErr()), "", true
		}
		return c03TupleV(c03SliceV(-1), c03U()), "", true
	case "golang.org/x/crypto/chacha20poly1305.New", "golang.org/x/crypto/chacha20poly1305.NewX":
		if k := c03KnownLen(arg(0)); k >= 0 {
			if k == 32 {
				return c03TupleV(c03NonNilV(), c03NilV()), "", true
			}
			return c03TupleV(c03NilV(), c03NonNilV()), "", true
		}
		return c03TupleV(c03U(), c03U()), "", true
	case "errors.New", "fmt.Errorf":
		return c03NonNilV(), "", true
	case "errors.Is":
		a, b := arg(0), arg(1)
		if a.K == c03Nil {
			return c03BoolV(false), "", true
		}
		if a.K == c03NonNil && b.K == c03NonNil && a.G != "" && a.G == b.G {
			return c03BoolV(true), "", true
		}
		return c03U(), "", true
	case "crypto/hmac.Equal":
		a, b := c03KnownLen(arg(0)), c03KnownLen(arg(1))
		if x.sc.Fail || (a >= 0 && b >= 0 && a != b) {
			return c03BoolV(false), "", true
		}
		return c03U(), "", true
	case "crypto/subtle.ConstantTimeCompare":
		a, b := c03KnownLen(arg(0)), c03KnownLen(arg(1))
		if x.sc.Fail || (a >= 0 && b >= 0 && a != b) {
			return c03IntV(0), "", true
		}
		return c03U(), "", true
	case "bytes.Equal":
		a, b := c03KnownLen(arg(0)), c03KnownLen(arg(1))
		if x.sc.Fail || (a >= 0 && b >= 0 && a != b) {
			return c03BoolV(false), "", true
		}
		return c03U(), "", true
	case "bytes.Repeat":
		a := c03KnownLen(arg(0))
		if n := arg(1); a >= 0 && n.K == c03Int {
			if n.I < 0 {
				return c03U(), "bytes.Repeat panics: negative count", true
			}
			return c03SliceV(a * n.I), "", true
		}
		return c03SliceV(-1), "", true
	case "crypto.Hash.New":
		if h := arg(0); h.K == c03Int && (h.I <= 0 || h.I > 19) {
			return c03U(), fmt.Sprintf("crypto.Hash(%d).New panics: requested hash function is unavailable", h.I), true
		}
		return c03NonNilV(), "", true
	case "crypto/hmac.New":
		return c03NonNilV(), "", true
	case "crypto/rsa.DecryptPKCS1v15", "crypto/rsa.DecryptOAEP":
		if x.sc.Fail {
			return c03TupleV(c03NilV(), failErr()), "", true
		}
		return c03TupleV(c03SliceV(-1), c03U()), "", true
	case "crypto/rsa.EncryptPKCS1v15", "crypto/rsa.EncryptOAEP", "crypto/rsa.SignPKCS1v15", "crypto/rsa.SignPSS", "crypto/ecdsa.SignASN1":
		return c03TupleV(c03SliceV(-1), c03U()), "", true
	case "crypto/ed25519.Sign":
		return c03SliceV(64), "", true
	case "crypto/rsa.VerifyPKCS1v15", "crypto/rsa.VerifyPSS":
		if x.sc.Fail {
			return c03V{K: c03NonNil, G: "crypto/rsa.ErrVerification"}, "", true
		}
		return c03U(), "", true
	case "crypto/ecdsa.VerifyASN1", "crypto/ed25519.Verify":
		if x.sc.Fail {
			return c03BoolV(false), "", true
		}
		return c03U(), "", true
	case "github.com/lestrrat-go/jwx/v2/jwk.Key.KeyType":
		if x.sc.KeyType != "" {
			return c03StrV(x.sc.KeyType), "", true
		}
		return c03U(), "", true
	case "github.com/lestrrat-go/jwx/v2/jwk.Key.Raw":
		if x.sc.RawFails {
			return c03NonNilV(), "", true
		}
		if c := arg(1); c.K == c03Cell {
			if _, isSlice := c.Ref.Type().Underlying().(*types.Pointer).Elem().Underlying().(*types.Slice); isSlice {
				if x.sc.KeyLen >= 0 {
					s.mem[c.Ref] = c03SliceV(x.sc.KeyLen)
					return c03NilV(), "", true
				}
				s.mem[c.Ref] = c03SliceV(-1)
			}
		}
		return c03U(), "", true
	case "strconv.Atoi":
		if a := arg(0); a.K == c03Str {
			if n, err := strconv.Atoi(a.S); err == nil {
				return c03TupleV(c03IntV(int64(n)), c03NilV()), "", true
			}
			return c03TupleV(c03IntV(0), c03NonNilV()), "", true
		}
		return c03TupleV(c03TaintedU(), c03TaintedU()), "", true
	case "strings.HasPrefix", "strings.HasSuffix", "strings.Contains", "strings.EqualFold":
		a, b := arg(0), arg(1)
		if a.K == c03Str && b.K == c03Str {
			switch name {
			case "strings.HasPrefix":
				return c03BoolV(strings.HasPrefix(a.S, b.S)), "", true
			case "strings.HasSuffix":
				return c03BoolV(strings.HasSuffix(a.S, b.S)), "", true
			case "strings.Contains":
				return c03BoolV(strings.Contains(a.S, b.S)), "", true
			default:
				return c03BoolV(strings.EqualFold(a.S, b.S)), "", true
			}
		}
		return c03TaintedU(), "", true
	}
	if x.sc.RawFails && strings.HasPrefix(name, "github.com/lestrrat-go/jwx/v2/jwk.") && strings.HasSuffix(name, ".Raw") {
		return c03NonNilV(), "", true
	}
	return c03U(), "", false
}

// c03EventNames returns the sorted set of event names of an outcome list.
func c03EventNames(outs []c03Outcome) []string {
	set := map[string]bool{}
	for _, o := range outs {
		for _, e := range o.Events {
			set[e.Name] = true
		}
	}
	var l []string
	for n := range set {
		l = append(l, n)
	}
	sort.Strings(l)
	return l
}
