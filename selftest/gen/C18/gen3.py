exec(open('gen.py').read().split('# r81 rename')[0])
exec(open('gen2.py').read().split("on_r('c18-r91-ext.diff'")[0].split("R91=")[1].split('\n',1)[1])
STEPS='''
	populate := func() error {
		if err := os.MkdirAll(d.base, os.ModePerm); err != nil {
			return err
		}
		if err := os.MkdirAll(newDir, os.ModePerm); err != nil {
			return err
		}
		for file, b := range files {
			if err := os.WriteFile(filepath.Join(newDir, file), b, os.ModePerm); err != nil {
				return err
			}
			d.log.Infof("Written file %s", file)
		}
		return nil
	}
	publish := func() error {
		staging := d.target + ".new"
		if err := os.Remove(staging); err != nil && !errors.Is(err, os.ErrNotExist) {
			return err
		}
		if err := os.Symlink(newDir, staging); err != nil {
			return err
		}
		return os.Rename(staging, d.target)
	}
	dropOld := func() error {
		if d.prev == nil {
			return nil
		}
		return os.RemoveAll(*d.prev)
	}
'''
whole('c18-r61-steps-slice-of-closures.sh','REFACTOR: the three phases are closures walked in order through a literal slice',
HEAD+STRUCT+'''
func (d *Dir) Write(files map[string][]byte) error {
	newDir := filepath.Join(d.base, fmt.Sprintf("%d-%s", time.Now().UTC().UnixNano(), d.targetDir))
'''+STEPS+'''
	for _, step := range []func() error{populate, publish, dropOld} {
		if err := step(); err != nil {
			return err
		}
	}
	d.prev = &newDir
	return nil
}
''')
LOCKED_HEAD=HEAD.replace('	"path/filepath"\n','	"path/filepath"\n	"sync"\n')
LSTRUCT=STRUCT.replace('	prev *string\n}','	prev *string\n\n	mu sync.Mutex\n}')
BODY='''		newDir := filepath.Join(d.base, fmt.Sprintf("%d-%s", time.Now().UTC().UnixNano(), d.targetDir))
		if err := os.MkdirAll(d.base, os.ModePerm); err != nil {
			return err
		}
		if err := os.MkdirAll(newDir, os.ModePerm); err != nil {
			return err
		}
		for file, b := range files {
			if err := os.WriteFile(filepath.Join(newDir, file), b, os.ModePerm); err != nil {
				return err
			}
			d.log.Infof("Written file %s", file)
		}
		if err := os.Remove(d.target + ".new"); err != nil && !errors.Is(err, os.ErrNotExist) {
			return err
		}
		if err := os.Symlink(newDir, d.target+".new"); err != nil {
			return err
		}
		if err := os.Rename(d.target+".new", d.target); err != nil {
			return err
		}
		if d.prev != nil {
			if err := os.RemoveAll(*d.prev); err != nil {
				return err
			}
		}
		d.prev = &newDir
		return nil
'''
whole('c18-r62-callback-with-lock.sh','REFACTOR: the whole body runs as a callback of a locking helper (withLock(func() error {...}))',
LOCKED_HEAD+LSTRUCT+'''
func (d *Dir) withLock(f func() error) error {
	d.mu.Lock()
	defer d.mu.Unlock()
	return f()
}

func (d *Dir) Write(files map[string][]byte) error {
	return d.withLock(func() error {
'''+BODY+'''	})
}
''')
whole('c18-r63-substructs.sh','REFACTOR: path fields grouped into a nested struct, previous version kept as a nested value+flag struct read through an accessor',
HEAD+'''
type paths struct {
	base   string
	target string
	leaf   string
}

type published struct {
	dir string
	set bool
}

// Dir atomically writes files to a given directory.
type Dir struct {
	log  logger.Logger
	p    paths
	last published
}

func New(opts Options) *Dir {
	return &Dir{
		log: opts.Log,
		p: paths{
			base:   filepath.Dir(opts.Target),
			target: opts.Target,
			leaf:   filepath.Base(opts.Target),
		},
	}
}

func (d *Dir) previous() (string, bool) { return d.last.dir, d.last.set }

func (d *Dir) Write(files map[string][]byte) error {
	newDir := filepath.Join(d.p.base, fmt.Sprintf("%d-%s", time.Now().UTC().UnixNano(), d.p.leaf))

	if err := os.MkdirAll(d.p.base, os.ModePerm); err != nil {
		return err
	}
	if err := os.MkdirAll(newDir, os.ModePerm); err != nil {
		return err
	}
	for file, b := range files {
		if err := os.WriteFile(filepath.Join(newDir, file), b, os.ModePerm); err != nil {
			return err
		}
		d.log.Infof("Written file %s", file)
	}
	if err := os.Remove(d.p.target + ".new"); err != nil && !errors.Is(err, os.ErrNotExist) {
		return err
	}
	if err := os.Symlink(newDir, d.p.target+".new"); err != nil {
		return err
	}
	if err := os.Rename(d.p.target+".new", d.p.target); err != nil {
		return err
	}
	if old, ok := d.previous(); ok {
		if err := os.RemoveAll(old); err != nil {
			return err
		}
	}
	d.last.dir, d.last.set = newDir, true
	return nil
}
''')
whole('c18-r64-literal-loops-func-aliases.sh','REFACTOR: directories made and stale paths removed by loops over literal slices; os functions through local aliases; temporaries',
HEAD+STRUCT+'''
func (d *Dir) Write(files map[string][]byte) error {
	stamp := time.Now().UTC().UnixNano()
	newDir := filepath.Join(d.base, fmt.Sprintf("%d-%s", stamp, d.targetDir))
	tmpLink := d.target + ".new"
	mkdir, link, swap := os.MkdirAll, os.Symlink, os.Rename

	dirs := []string{d.base, newDir}
	for i := 0; i < len(dirs); i++ {
		if err := mkdir(dirs[i], os.ModePerm); err != nil {
			return err
		}
	}
	for file, b := range files {
		if err := os.WriteFile(filepath.Join(newDir, file), b, os.ModePerm); err != nil {
			return err
		}
		d.log.Infof("Written file %s", file)
	}
	for _, stale := range []string{tmpLink} {
		if err := os.Remove(stale); err != nil && !errors.Is(err, os.ErrNotExist) {
			return err
		}
	}
	if err := link(newDir, tmpLink); err != nil {
		return err
	}
	if err := swap(tmpLink, d.target); err != nil {
		return err
	}
	old := d.prev
	if old != nil {
		if err := os.RemoveAll(*old); err != nil {
			return err
		}
	}
	d.prev = &newDir
	return nil
}
''')
whole('c18-r65-steps-as-methods-in-slice.sh','REFACTOR: phases are methods taking the version dir, run through a literal slice of bound closures; prev through accessor',
HEAD+STRUCT+'''
func (d *Dir) previous() *string { return d.prev }

func (d *Dir) fill(dir string, files map[string][]byte) error {
	for _, mk := range []string{d.base, dir} {
		if err := os.MkdirAll(mk, os.ModePerm); err != nil {
			return err
		}
	}
	for file, b := range files {
		if err := os.WriteFile(filepath.Join(dir, file), b, os.ModePerm); err != nil {
			return err
		}
		d.log.Infof("Written file %s", file)
	}
	return nil
}

func (d *Dir) swapIn(dir string) error {
	staging := d.target + ".new"
	switch err := os.Remove(staging); {
	case err == nil, errors.Is(err, os.ErrNotExist):
	default:
		return err
	}
	if err := os.Symlink(dir, staging); err != nil {
		return err
	}
	return os.Rename(staging, d.target)
}

func (d *Dir) Write(files map[string][]byte) error {
	newDir := filepath.Join(d.base, fmt.Sprintf("%d-%s", time.Now().UTC().UnixNano(), d.targetDir))
	steps := []func() error{
		func() error { return d.fill(newDir, files) },
		func() error { return d.swapIn(newDir) },
		func() error {
			if p := d.previous(); p != nil {
				return os.RemoveAll(*p)
			}
			return nil
		},
	}
	for _, step := range steps {
		if err := step(); err != nil {
			return err
		}
	}
	d.prev = &newDir
	return nil
}
''')
# mutants on the new shapes
on_r('c18-r61-steps-slice-of-closures.sh','c18-m61-steps-slice-wrong-order.sh','slice-of-closures shape; publish listed before populate',
 [('[]func() error{populate, publish, dropOld}','[]func() error{publish, populate, dropOld}',1)])
on_r('c18-r63-substructs.sh','c18-m62-substruct-flag-never-set.sh','nested value+flag shape; the flag is never set: old versions accumulate',
 [('	d.last.dir, d.last.set = newDir, true\n','	d.last.dir = newDir\n',1)])
on_r('c18-r74-ext2.diff','c18-m63-literal-loop-misses-version-dir.sh','mkdir loop over a literal slice that no longer contains the version directory',
 [('[]string{d.base, newDir}','[]string{d.base}',1)])
on_r('c18-r62-callback-with-lock.sh','c18-m64-callback-error-dropped.sh','callback-with-lock shape; the locking helper drops the callback\'s error',
 [('	return f()\n','	f()\n	return nil\n',1)])
on_r('c18-r61-steps-slice-of-closures.sh','c18-m65-steps-slice-skips-last.sh','slice-of-closures shape; the walk stops before the last step (previous version never removed)',
 [('	for _, step := range []func() error{populate, publish, dropOld} {\n		if err := step(); err != nil {','	steps := []func() error{populate, publish, dropOld}\n	for i := 0; i < len(steps)-1; i++ {\n		step := steps[i]\n		if err := step(); err != nil {',1)])
