exec(open('gen.py').read().split('# r81 rename')[0])
exec(open('gen2.py').read().split("on_r('c18-r91-ext.diff'")[0].split("R91=")[1].split('\n',1)[1])
def files(name, desc, fmap):
    body='#!/bin/bash\n# '+desc+'\nset -e\n'
    for path, content in fmap.items():
        body+="python3 - <<'PYEOF'\nimport os\nf='"+path+"'\nhead=''\nif os.path.exists(f):\n    s=open(f).read(); head=s[:s.index('package dir')]\nelse:\n    s=open('concurrency/dir/dir.go').read(); head=s[:s.index('package dir')]\nopen(f,'w').write(head+'''"+content+"''')\nPYEOF\n"
    body+='gofmt -l concurrency/dir\n'
    open(OUT+name,'w').write(body); os.chmod(OUT+name,0o755)

def on_rf(path, base_script, name, desc, repls):
    on_r(base_script, name, desc, repls)
    b=open(OUT+name).read().replace("f='concurrency/dir/dir.go'","f='"+path+"'")
    open(OUT+name,'w').write(b)

# r51 combination tidy-up
whole('c18-r51-combo-tidy.sh','REFACTOR (combination): fields renamed, ensureDirs/writeAll/activate helpers, inverted guards, switch on the error, staged link in a local',
HEAD+'''
// Dir atomically writes files to a given directory.
type Dir struct {
	lg   logger.Logger
	root string
	dest string
	name string
	last *string
}

func New(opts Options) *Dir {
	return &Dir{lg: opts.Log, root: filepath.Dir(opts.Target), dest: opts.Target, name: filepath.Base(opts.Target)}
}

func (d *Dir) ensureDirs(dirs ...string) error {
	for _, dir := range dirs {
		if err := os.MkdirAll(dir, os.ModePerm); err != nil {
			return err
		}
	}
	return nil
}

func (d *Dir) writeAll(into string, files map[string][]byte) error {
	for name, data := range files {
		err := os.WriteFile(filepath.Join(into, name), data, os.ModePerm)
		if err == nil {
			d.lg.Infof("Written file %s", name)
			continue
		}
		return err
	}
	return nil
}

func (d *Dir) activate(version string) error {
	staged := d.dest + ".new"
	switch err := os.Remove(staged); {
	case err == nil, errors.Is(err, os.ErrNotExist):
	default:
		return err
	}
	if err := os.Symlink(version, staged); err != nil {
		return err
	}
	d.lg.Infof("Syslink %s to %s", version, staged)
	if err := os.Rename(staged, d.dest); err == nil {
		d.lg.Infof("Atomic write to %s", d.dest)
		return nil
	} else {
		return err
	}
}

func (d *Dir) Write(files map[string][]byte) error {
	version := filepath.Join(d.root, fmt.Sprintf("%d-%s", time.Now().UTC().UnixNano(), d.name))
	if err := d.ensureDirs(d.root, version); err != nil {
		return err
	}
	if err := d.writeAll(version, files); err != nil {
		return err
	}
	if err := d.activate(version); err != nil {
		return err
	}
	if d.last == nil {
		d.last = &version
		return nil
	}
	if err := os.RemoveAll(*d.last); err != nil {
		return err
	}
	d.last = &version
	return nil
}
''')
# r52 pointer sub-struct, cached locals, parameters instead of captures
whole('c18-r52-pointer-substruct-locals-params.sh','REFACTOR (state): path config in a by-value sub-struct, mutable state behind a pointer sub-struct, immutable fields cached in locals, closures take parameters instead of capturing',
HEAD+'''
type layout struct {
	base, target, leaf string
}

type history struct {
	dir *string
}

// Dir atomically writes files to a given directory.
type Dir struct {
	log logger.Logger
	at  layout
	was *history
}

func New(opts Options) *Dir {
	return &Dir{
		log: opts.Log,
		at:  layout{base: filepath.Dir(opts.Target), target: opts.Target, leaf: filepath.Base(opts.Target)},
		was: &history{},
	}
}

func (d *Dir) Write(files map[string][]byte) error {
	base, target, leaf := d.at.base, d.at.target, d.at.leaf
	newDir := filepath.Join(base, fmt.Sprintf("%d-%s", time.Now().UTC().UnixNano(), leaf))
	staging := target + ".new"

	mk := func(dir string) error { return os.MkdirAll(dir, os.ModePerm) }
	put := func(dir, name string, data []byte) error {
		return os.WriteFile(filepath.Join(dir, name), data, os.ModePerm)
	}
	link := func(to, at string) error {
		if err := os.Remove(at); err != nil && !errors.Is(err, os.ErrNotExist) {
			return err
		}
		return os.Symlink(to, at)
	}

	if err := mk(base); err != nil {
		return err
	}
	if err := mk(newDir); err != nil {
		return err
	}
	for file, b := range files {
		if err := put(newDir, file, b); err != nil {
			return err
		}
		d.log.Infof("Written file %s", file)
	}
	if err := link(newDir, staging); err != nil {
		return err
	}
	if err := os.Rename(staging, target); err != nil {
		return err
	}
	hist := d.was
	if hist.dir != nil {
		if err := os.RemoveAll(*hist.dir); err != nil {
			return err
		}
	}
	hist.dir = &newDir
	return nil
}
''')
# r53 enum phase result
whole('c18-r53-enum-phase-result.sh','REFACTOR (invocation/moved): dropPrevious returns a small enum + error the caller switches on; publish returns a bool ok + error',
HEAD+STRUCT+'''
type dropOutcome int

const (
	nothingToDrop dropOutcome = iota
	dropped
	dropFailed
)

func (d *Dir) dropPrevious() (dropOutcome, error) {
	if d.prev == nil {
		return nothingToDrop, nil
	}
	if err := os.RemoveAll(*d.prev); err != nil {
		return dropFailed, err
	}
	return dropped, nil
}

func (d *Dir) publish(newDir string) (bool, error) {
	if err := os.Remove(d.target + ".new"); err != nil && !errors.Is(err, os.ErrNotExist) {
		return false, err
	}
	if err := os.Symlink(newDir, d.target+".new"); err != nil {
		return false, err
	}
	if err := os.Rename(d.target+".new", d.target); err != nil {
		return false, err
	}
	return true, nil
}

func (d *Dir) Write(files map[string][]byte) error {
	newDir := filepath.Join(d.base, fmt.Sprintf("%d-%s", time.Now().UTC().UnixNano(), d.targetDir))
	if err := os.MkdirAll(d.base, os.ModePerm); err != nil {
		return err
	}
	if err := os.MkdirAll(newDir, os.ModePerm); err != nil {
		return err
	}
	for file, b := range files {
		if err := os.WriteFile(filepath.Join(newDir, file), b, os.ModePerm); err != nil {
			return err
		}
		d.log.Infof("Written file %s", file)
	}
	ok, err := d.publish(newDir)
	if !ok {
		return err
	}
	d.log.Infof("Atomic write to %s", d.target)
	outcome, err := d.dropPrevious()
	switch outcome {
	case dropFailed:
		return err
	case dropped, nothingToDrop:
	}
	d.prev = &newDir
	return nil
}
''')
# r54 plain functions in a new file, merged helper
files('c18-r54-moved-merged-plain-funcs.sh','REFACTOR (moved): file-system phases as plain functions in a new file fsops.go; publish and retire merged into one helper',
{'concurrency/dir/dir.go': HEAD.replace('	"errors"\n','').replace('	"os"\n','')+STRUCT+'''
func (d *Dir) Write(files map[string][]byte) error {
	newDir := filepath.Join(d.base, fmt.Sprintf("%d-%s", time.Now().UTC().UnixNano(), d.targetDir))
	if err := fillVersion(d.base, newDir, files, d.log); err != nil {
		return err
	}
	if err := publishAndRetire(d, newDir); err != nil {
		return err
	}
	d.prev = &newDir
	return nil
}
''',
'concurrency/dir/fsops.go': '''package dir

import (
	"errors"
	"os"
	"path/filepath"

	"github.com/dapr/kit/logger"
)

func fillVersion(base, dir string, files map[string][]byte, log logger.Logger) error {
	if err := os.MkdirAll(base, os.ModePerm); err != nil {
		return err
	}
	if err := os.MkdirAll(dir, os.ModePerm); err != nil {
		return err
	}
	for file, b := range files {
		if err := os.WriteFile(filepath.Join(dir, file), b, os.ModePerm); err != nil {
			return err
		}
		log.Infof("Written file %s", file)
	}
	return nil
}

func publishAndRetire(d *Dir, dir string) error {
	staging := d.target + ".new"
	if err := os.Remove(staging); err != nil && !errors.Is(err, os.ErrNotExist) {
		return err
	}
	if err := os.Symlink(dir, staging); err != nil {
		return err
	}
	if err := os.Rename(staging, d.target); err != nil {
		return err
	}
	d.log.Infof("Atomic write to %s", d.target)
	if d.prev == nil {
		return nil
	}
	return os.RemoveAll(*d.prev)
}
'''})
# r55 library/language forms
whole('c18-r55-library-language-forms.sh','REFACTOR (library/language forms): cmp.Or over the two MkdirAll, labelled continue, range-over-int over a step table, os.IsNotExist, strconv',
HEAD.replace('	"errors"\n','	"cmp"\n').replace('	"fmt"\n','').replace('	"path/filepath"\n','	"path/filepath"\n	"strconv"\n')+STRUCT+'''
func (d *Dir) Write(files map[string][]byte) error {
	newDir := filepath.Join(d.base, strconv.FormatInt(time.Now().UnixNano(), 10)+"-"+d.targetDir)

	if err := cmp.Or(os.MkdirAll(d.base, os.ModePerm), os.MkdirAll(newDir, os.ModePerm)); err != nil {
		return err
	}

entries:
	for file, b := range files {
		if err := os.WriteFile(filepath.Join(newDir, file), b, os.ModePerm); err != nil {
			return err
		}
		d.log.Infof("Written file %s", file)
		continue entries
	}

	steps := []func() error{
		func() error {
			if err := os.Remove(d.target + ".new"); err != nil && !os.IsNotExist(err) {
				return err
			}
			return nil
		},
		func() error { return os.Symlink(newDir, d.target+".new") },
		func() error { return os.Rename(d.target+".new", d.target) },
	}
	for i := range len(steps) {
		if err := steps[i](); err != nil {
			return err
		}
	}

	if d.prev != nil {
		if err := os.RemoveAll(*d.prev); err != nil {
			return err
		}
	}
	d.prev = &newDir
	return nil
}
''')
# u06 range-over-func
repl('c18-u06-range-over-func.sh','library form: for file, b := range maps.All(files) (range-over-func): property preserved; may be UNDECIDED, never a VIOLATION',
 [('	for file, b := range files {\n','	for file, b := range maps.All(files) {\n',1),('	"fmt"\n','	"fmt"\n	"maps"\n',1)])
# mutants
on_rf('concurrency/dir/phases.go','c18-r64-ext3.diff','c18-m51-retired-helper-inverted.sh','phases-as-plain-functions shape; retired() reports "none" exactly when there IS a previous version',
 [('	if d.prev == nil {\n		return "", false\n	}\n\n	return *d.prev, true\n','	if d.prev != nil {\n		return "", false\n	}\n\n	return "", true\n',1)])
on_r('c18-r52-pointer-substruct-locals-params.sh','c18-m52-pointer-substruct-prev-set-early.sh','pointer sub-struct shape; the remembered directory is overwritten before the old one is removed',
 [('''	hist := d.was
	if hist.dir != nil {
		if err := os.RemoveAll(*hist.dir); err != nil {
			return err
		}
	}
	hist.dir = &newDir
''','''	hist := d.was
	had := hist.dir != nil
	hist.dir = &newDir
	if had {
		if err := os.RemoveAll(*hist.dir); err != nil {
			return err
		}
	}
''',1)])
on_r('c18-r55-library-language-forms.sh','c18-m53-cmp-or-result-dropped.sh','library-forms shape; the combined MkdirAll error (cmp.Or) is dropped',
 [('''	if err := cmp.Or(os.MkdirAll(d.base, os.ModePerm), os.MkdirAll(newDir, os.ModePerm)); err != nil {
		return err
	}
''','''	_ = cmp.Or(os.MkdirAll(d.base, os.ModePerm), os.MkdirAll(newDir, os.ModePerm))
''',1)])
on_rf('concurrency/dir/fsops.go','c18-r54-moved-merged-plain-funcs.sh','c18-m54-merged-helper-retires-first.sh','merged-helper shape; inside publishAndRetire the previous version is removed before the link is swapped in',
 [('''	if err := os.Symlink(dir, staging); err != nil {
		return err
	}
	if err := os.Rename(staging, d.target); err != nil {
		return err
	}
	d.log.Infof("Atomic write to %s", d.target)
	if d.prev == nil {
		return nil
	}
	return os.RemoveAll(*d.prev)
''','''	if d.prev != nil {
		if err := os.RemoveAll(*d.prev); err != nil {
			return err
		}
	}
	if err := os.Symlink(dir, staging); err != nil {
		return err
	}
	return os.Rename(staging, d.target)
''',1)])
on_r('c18-r53-enum-phase-result.sh','c18-m55-enum-publish-flag-ignored.sh','enum/flag shape; the caller ignores publish()\'s ok flag and error',
 [('''	ok, err := d.publish(newDir)
	if !ok {
		return err
	}
''','''	_, _ = d.publish(newDir)
''',1),('	outcome, err := d.dropPrevious()','	outcome, err := d.dropPrevious()',1)])
on_r('c18-r63-ext3.diff','c18-m56-step-table-rename-before-symlink.sh','step-table + interface-seam shape; the Rename step listed before the Symlink step',
 [('''		func() error {
			if err := d.fs.Symlink(newDir, d.target+".new"); err != nil {
				return err
			}
			d.log.Infof("Syslink %s to %s.new", newDir, d.target)
			return nil
		},
		func() error {
			if err := d.fs.Rename(d.target+".new", d.target); err != nil {
				return err
			}
			d.log.Infof("Atomic write to %s", d.target)
			return nil
		},
''','''		func() error {
			if err := d.fs.Rename(d.target+".new", d.target); err != nil {
				return err
			}
			d.log.Infof("Atomic write to %s", d.target)
			return nil
		},
		func() error {
			if err := d.fs.Symlink(newDir, d.target+".new"); err != nil {
				return err
			}
			d.log.Infof("Syslink %s to %s.new", newDir, d.target)
			return nil
		},
''',1)])
