exec(open('gen.py').read().split('# r81 rename')[0])
exec(open('gen2.py').read().split("on_r('c18-r91-ext.diff'")[0].split("R91=")[1].split('\n',1)[1])
whole('c18-r31-inline-err-chain.sh','REFACTOR: every step written inline and chained through one error variable (`if err == nil { err = … }`), single return at the end',
HEAD+STRUCT+'''
func (d *Dir) Write(files map[string][]byte) error {
	newDir := filepath.Join(d.base, fmt.Sprintf("%d-%s", time.Now().UTC().UnixNano(), d.targetDir))

	err := os.MkdirAll(d.base, os.ModePerm)
	if err == nil {
		err = os.MkdirAll(newDir, os.ModePerm)
	}
	if err != nil {
		return err
	}
	for file, b := range files {
		if err := os.WriteFile(filepath.Join(newDir, file), b, os.ModePerm); err != nil {
			return err
		}
		d.log.Infof("Written file %s", file)
	}
	if rmErr := os.Remove(d.target + ".new"); rmErr != nil && !errors.Is(rmErr, os.ErrNotExist) {
		return rmErr
	}
	err = os.Symlink(newDir, d.target+".new")
	if err == nil {
		err = os.Rename(d.target+".new", d.target)
	}
	if err == nil && d.prev != nil {
		err = os.RemoveAll(*d.prev)
	}
	if err == nil {
		d.prev = &newDir
	}
	return err
}
''')
on_r('c18-r91-ext.diff','c18-r32-helpers-mixed-chain.sh','REFACTOR: helper results partly returned early, partly chained through the error variable',
 [('''	if err := d.populate(newDir, files); err != nil {
		return err
	}

	if err := d.publish(newDir); err != nil {
		return err
	}

	if err := d.removePrevious(); err != nil {
		return err
	}

	d.prev = &newDir

	return nil
''','''	err := d.populate(newDir, files)
	if err != nil {
		return err
	}
	if err = d.publish(newDir); err == nil {
		err = d.removePrevious()
	}
	if err != nil {
		return err
	}

	d.prev = &newDir

	return nil
''',1)])
on_r('c18-r41-ext5.diff','c18-m31-chain-retire-unguarded.sh','err-chain shape; retire runs whatever publish returned',
 [('''	if err == nil {
		err = d.retire(version)
	}
''','''	if rerr := d.retire(version); err == nil {
		err = rerr
	}
''',1)])
on_r('c18-r41-ext5.diff','c18-m32-chain-publish-unguarded.sh','err-chain shape; publish runs although populate failed (guard dropped)',
 [('''	err := d.populate(version, files)
	if err == nil {
		err = d.publish(version)
	}
''','''	err := d.populate(version, files)
	err = d.publish(version)
''',1)])
on_r('c18-r31-inline-err-chain.sh','c18-m33-inline-chain-rename-unguarded.sh','inline err-chain shape; a failed MkdirAll of the version directory is overwritten by the next assignment',
 [('''	if err == nil {
		err = os.MkdirAll(newDir, os.ModePerm)
	}
	if err != nil {
		return err
	}
''','''	if err == nil {
		err = os.MkdirAll(newDir, os.ModePerm)
	}
''',1)])
