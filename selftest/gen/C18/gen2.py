import re
exec(open('gen.py').read().split('# r81 rename')[0])
R91=open('/tmp/kcdev/C18/refac/r1/patch.diff').read()
def on_r(base_script, name, desc, repls):
    # apply a refactoring script first, then textual replacements
    body='#!/bin/bash\n# '+desc+'\nset -e\n'
    if base_script.endswith('.diff'):
        body+='patch -s -p1 < /tmp/kcdev/C18/selftest/mutants/C18/'+base_script+'\n'
    else:
        body+='bash /tmp/kcdev/C18/selftest/mutants/C18/'+base_script+' >/dev/null\n'
    body+="python3 - <<'PYEOF'\nimport sys\nf='concurrency/dir/dir.go'\ns=open(f).read()\n"
    for a,b,n in repls:
        body+="a='''"+a+"'''\nb='''"+b+"'''\nif a not in s: sys.exit('pattern not found: '+a[:40])\ns=s.replace(a,b,"+str(n)+")\n"
    body+="open(f,'w').write(s)\nPYEOF\ngofmt -l concurrency/dir\n"
    open(OUT+name,'w').write(body); os.chmod(OUT+name,0o755)

on_r('c18-r91-ext.diff','c18-m91-helper-skips-empty.sh','split-into-helpers shape; populate skips entries with empty content (write only on some paths of the helper)',
 [('		path := filepath.Join(newDir, file)\n','		if len(b) == 0 {\n			continue\n		}\n		path := filepath.Join(newDir, file)\n',1)])
on_r('c18-r91-ext.diff','c18-m92-helper-swallows-write-error.sh','split-into-helpers shape; populate logs a failed WriteFile and still returns nil',
 [('''		if err := os.WriteFile(path, b, os.ModePerm); err != nil {
			return err
		}
''','''		if err := os.WriteFile(path, b, os.ModePerm); err != nil {
			d.log.Infof("Failed to write %s: %s", file, err)
			continue
		}
''',1)])
on_r('c18-r91-ext.diff','c18-m93-helpers-publish-before-populate.sh','split-into-helpers shape; publish() is called before populate()',
 [('''	if err := d.populate(newDir, files); err != nil {
		return err
	}

	if err := d.publish(newDir); err != nil {
		return err
	}
''','''	if err := d.publish(newDir); err != nil {
		return err
	}

	if err := d.populate(newDir, files); err != nil {
		return err
	}
''',1)])
on_r('c18-r91-ext.diff','c18-m94-helpers-remove-prev-first.sh','split-into-helpers shape; removePrevious() runs before publish()',
 [('''	if err := d.publish(newDir); err != nil {
		return err
	}

	if err := d.removePrevious(); err != nil {
		return err
	}
''','''	if err := d.removePrevious(); err != nil {
		return err
	}

	if err := d.publish(newDir); err != nil {
		return err
	}
''',1)])
on_r('c18-r91-ext.diff','c18-m95-helper-result-ignored.sh','split-into-helpers shape; the result of populate() is dropped by the caller',
 [('''	if err := d.populate(newDir, files); err != nil {
		return err
	}
''','''	_ = d.populate(newDir, files)
''',1)])
on_r('c18-r95-ext.diff','c18-m96-staging-field-cleanup-mismatch.sh','staging-field shape; the stale-link cleanup removes target+".tmp" while the link is made at the staging field (one sibling updated only)',
 [('os.Remove(d.staging)','os.Remove(d.target + ".tmp")',1)])
on_r('c18-r88-stage-returns-dir.sh','c18-m97-stage-error-ignored.sh','stage()-returns-dir shape; the caller ignores stage()\'s error',
 [('''	newDir, err := d.stage(files)
	if err != nil {
		return err
	}
''','''	newDir, _ := d.stage(files)
''',1)])
on_r('c18-r87-prev-as-string.sh','c18-m98-string-prev-sentinel-inverted.sh','string-prev shape; sentinel test inverted: removal only when there is nothing to remove',
 [('	if d.current != "" {','	if d.current == "" {',1)])
on_r('c18-r85-defer-cleanup-method.sh','c18-m99-defer-method-ignores-published.sh','deferred-cleanup-method shape; the method no longer looks at the published flag',
 [('	if *err != nil && !*published {','	if *err != nil {',1)])
on_r('c18-r84-closures-and-method-value.sh','c18-m90-closure-rename-error-dropped.sh','closure shape; publish closure drops the rename error (returns nil)',
 [('		return os.Rename(staging, d.target)\n','		os.Rename(staging, d.target)\n		return nil\n',1)])
on_r('c18-r81-rename-fields.sh','c18-m89-renamed-prev-set-early.sh','renamed-fields shape; the renamed previous-version field is overwritten before the old version is removed',
 [('''	if d.last != nil {
		if err := os.RemoveAll(*d.last); err != nil {
			return err
		}
	}

	d.last = &newDir
''','''	old := d.last
	d.last = &newDir
	if old != nil {
		if err := os.RemoveAll(*d.last); err != nil {
			return err
		}
	}
''',1)])
on_r('c18-u01-sorted-keys.sh','c18-m87-sorted-keys-filter.sh','sorted-keys shape; hidden files are left out when the names are collected',
 [('	for file := range files {\n		names = append(names, file)\n	}\n','	for file := range files {\n		if len(file) > 0 && file[0] == \'.\' {\n			continue\n		}\n		names = append(names, file)\n	}\n',1)])
on_r('c18-u01-sorted-keys.sh','c18-m86-sorted-keys-skip-first.sh','sorted-keys shape; the write loop starts at index 1',
 [('	for _, file := range names {\n','	for i := 1; i < len(names); i++ {\n		file := names[i]\n',1)])
on_r('c18-u01-sorted-keys.sh','c18-r79-sorted-keys-index-loop.sh','REFACTOR: sorted key slice walked by a classic index loop',
 [('	for _, file := range names {\n','	for i := 0; i < len(names); i++ {\n		file := names[i]\n',1)])
on_r('c18-u05-interface-seam.sh','c18-m84-iface-seam-swallows-write-error.sh','interface-seam shape; the osFS.WriteFile wrapper drops the error of os.WriteFile',
 [('	return os.WriteFile(name, data, perm)\n','	os.WriteFile(name, data, perm)\n	return nil\n',1)])
on_r('c18-r77-func-field-seams.sh','c18-m83-func-seam-symlink-unchecked-no-cleanup.sh','func-field-seam shape; stale-link cleanup removed and the symlink seam\'s error ignored',
 [('''	if err := os.Remove(d.target + ".new"); err != nil && !errors.Is(err, os.ErrNotExist) {
		return err
	}
	if err := d.symlink(newDir, d.target+".new"); err != nil {
		return err
	}
''','''	_ = d.symlink(newDir, d.target+".new")
''',1),('	"errors"\n','',1)])
