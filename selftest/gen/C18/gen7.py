exec(open('gen.py').read().split('# r81 rename')[0])
exec(open('gen2.py').read().split("on_r('c18-r91-ext.diff'")[0].split("R91=")[1].split('\n',1)[1])
def on_rf(path, base_script, name, desc, repls):
    on_r(base_script, name, desc, repls)
    b=open(OUT+name).read().replace("f='concurrency/dir/dir.go'","f='"+path+"'")
    open(OUT+name,'w').write(b)
# r26: value+flag handed down as arguments
on_r('c18-r75-ext2.diff','c18-r26-value-flag-as-arguments.sh','REFACTOR: value+flag previous version handed to a plain function retire(prev, has) as arguments',
 [('''	if d.hasPrev {
		if err := os.RemoveAll(d.prev); err != nil {
			return err
		}
	}
''','''	if err := retireOld(d.prev, d.hasPrev); err != nil {
		return err
	}
''',1),('func (d *Dir) Write(','''func retireOld(prev string, has bool) error {
	if !has {
		return nil
	}
	return os.RemoveAll(prev)
}

func (d *Dir) Write(''',1)])
# r27: pointer handed to a local closure through a local alias
whole('c18-r27-prev-through-closure-param.sh','REFACTOR: the previous version pointer is copied into a local and handed to a closure parameter that tests and removes it',
HEAD+STRUCT+'''
func (d *Dir) Write(files map[string][]byte) error {
	newDir := filepath.Join(d.base, fmt.Sprintf("%d-%s", time.Now().UTC().UnixNano(), d.targetDir))
	drop := func(old *string) error {
		if old == nil {
			return nil
		}
		return os.RemoveAll(*old)
	}
	if err := os.MkdirAll(d.base, os.ModePerm); err != nil {
		return err
	}
	if err := os.MkdirAll(newDir, os.ModePerm); err != nil {
		return err
	}
	for file, b := range files {
		if err := os.WriteFile(filepath.Join(newDir, file), b, os.ModePerm); err != nil {
			return err
		}
		d.log.Infof("Written file %s", file)
	}
	if err := os.Remove(d.target + ".new"); err != nil && !errors.Is(err, os.ErrNotExist) {
		return err
	}
	if err := os.Symlink(newDir, d.target+".new"); err != nil {
		return err
	}
	if err := os.Rename(d.target+".new", d.target); err != nil {
		return err
	}
	superseded := d.prev
	if err := drop(superseded); err != nil {
		return err
	}
	d.prev = &newDir
	return nil
}
''')
on_r('c18-r24-ext6.diff','c18-m36-retire-called-with-nil.sh','phases-as-plain-functions shape; Write hands nil to retire: nothing is ever removed',
 [('	if err := retire(d.prev); err != nil {','	if err := retire(nil); err != nil {',1)])
on_r('c18-r24-ext6.diff','c18-m37-retire-before-publish.sh','phases-as-plain-functions shape; retire(d.prev) runs before publish',
 [('''	if err := publish(d, newDir); err != nil {
		return err
	}

	if err := retire(d.prev); err != nil {
		return err
	}
''','''	if err := retire(d.prev); err != nil {
		return err
	}

	if err := publish(d, newDir); err != nil {
		return err
	}
''',1)])
on_r('c18-r26-value-flag-as-arguments.sh','c18-m38-flag-argument-inverted.sh','value+flag-as-arguments shape; the flag argument is negated at the call',
 [('retireOld(d.prev, d.hasPrev)','retireOld(d.prev, !d.hasPrev)',1)])
