#!/bin/bash
# usage: validate.sh <script-or-diff>: applies to a scratch copy, builds, vets, runs the packages' tests and the behaviour program
export GOFLAGS=-mod=mod GOPROXY=off GOSUMDB=off GOTOOLCHAIN=local GOWORK=off
P=$1
D=$(mktemp -d /tmp/kcval.XXXXXX)
rsync -a --exclude .git /repo/ "$D/"
case "$P" in
  *.sh) (cd "$D" && bash "$P" >/dev/null) ;;
  *) (cd "$D" && (git apply --unsafe-paths -p1 "$P" 2>/dev/null || patch -s -p1 < "$P")) ;;
esac || { echo "APPLY-FAILED $P"; rm -rf "$D"; exit 3; }
(cd "$D" && go build ./... && go vet ./concurrency/dir/ ./crypto/spiffe/ && go test -count=1 -tags unit ./concurrency/dir/... ./crypto/spiffe/... 2>&1 | grep -v "no test files" | tr '\n' ' ')
B=$(mktemp -d /tmp/kcbeh.XXXXXX); cp /tmp/kcdev/C18/triage/behave/* $B/; sed -i "s#=> /repo#=> $D#" $B/go.mod
(cd $B && go run . 2>&1 | tail -1)
rm -rf "$D" "$B"
