import os
OUT='/tmp/kcdev/C18/selftest/mutants/C18/'
def whole(name, desc, body):
    s='#!/bin/bash\n# '+desc+'\nset -e\npython3 - <<\'PYEOF\'\nf=\'concurrency/dir/dir.go\'\ns=open(f).read()\ni=s.index(\'package dir\')\ns=s[:i]+\'\'\''+body+'\'\'\'\nopen(f,\'w\').write(s)\nPYEOF\ngofmt -l concurrency/dir\n'
    open(OUT+name,'w').write(s); os.chmod(OUT+name,0o755)
def repl(name, desc, repls, file='concurrency/dir/dir.go'):
    body='#!/bin/bash\n# '+desc+'\nset -e\n'+"python3 - <<'PYEOF'\nimport sys\nf='"+file+"'\ns=open(f).read()\n"
    for a,b,n in repls:
        body+="a='''"+a+"'''\nb='''"+b+"'''\nif a not in s: sys.exit('pattern not found: '+a[:40])\ns=s.replace(a,b,"+str(n)+")\n"
    body+="open(f,'w').write(s)\nPYEOF\ngofmt -l "+os.path.dirname(file)+"\n"
    open(OUT+name,'w').write(body); os.chmod(OUT+name,0o755)

HEAD='''package dir

import (
	"errors"
	"fmt"
	"os"
	"path/filepath"
	"time"

	"github.com/dapr/kit/logger"
)

type Options struct {
	Log    logger.Logger
	Target string
}
'''
STRUCT='''
// Dir atomically writes files to a given directory.
type Dir struct {
	log logger.Logger

	base      string
	target    string
	targetDir string

	prev *string
}

func New(opts Options) *Dir {
	return &Dir{
		log:       opts.Log,
		base:      filepath.Dir(opts.Target),
		target:    opts.Target,
		targetDir: filepath.Base(opts.Target),
	}
}
'''
# r81 rename unexported fields
whole('c18-r81-rename-fields.sh','REFACTOR: every unexported field of Dir renamed (target->dst, base->root, targetDir->leaf, prev->last, log->lg)',
HEAD+'''
// Dir atomically writes files to a given directory.
type Dir struct {
	lg logger.Logger

	root string
	dst  string
	leaf string

	last *string
}

func New(opts Options) *Dir {
	return &Dir{
		lg:   opts.Log,
		root: filepath.Dir(opts.Target),
		dst:  opts.Target,
		leaf: filepath.Base(opts.Target),
	}
}

func (d *Dir) Write(files map[string][]byte) error {
	newDir := filepath.Join(d.root, fmt.Sprintf("%d-%s", time.Now().UTC().UnixNano(), d.leaf))

	if err := os.MkdirAll(d.root, os.ModePerm); err != nil {
		return err
	}

	if err := os.MkdirAll(newDir, os.ModePerm); err != nil {
		return err
	}

	for file, b := range files {
		path := filepath.Join(newDir, file)
		if err := os.WriteFile(path, b, os.ModePerm); err != nil {
			return err
		}
		d.lg.Infof("Written file %s", file)
	}

	if err := os.Remove(d.dst + ".new"); err != nil && !errors.Is(err, os.ErrNotExist) {
		return err
	}

	if err := os.Symlink(newDir, d.dst+".new"); err != nil {
		return err
	}

	d.lg.Infof("Syslink %s to %s.new", newDir, d.dst)

	if err := os.Rename(d.dst+".new", d.dst); err != nil {
		return err
	}

	d.lg.Infof("Atomic write to %s", d.dst)

	if d.last != nil {
		if err := os.RemoveAll(*d.last); err != nil {
			return err
		}
	}

	d.last = &newDir

	return nil
}
''')
# r82 rename unexported method in spiffe
repl('c18-r82-rename-spiffe-method.sh','REFACTOR: crypto/spiffe fetchIdentityCertificate renamed to obtainIdentity',
 [('fetchIdentityCertificate','obtainIdentity',99)], file='crypto/spiffe/spiffe.go')
# r83 Join inlined as concatenation; base derived from target at use
whole('c18-r83-join-inlined-concat.sh','REFACTOR: filepath.Join inlined as concatenation with the separator; base recomputed from target; no targetDir field',
HEAD.replace('	"errors"\n','').replace('	"fmt"\n','').replace('	"path/filepath"\n','	"path/filepath"\n	"strconv"\n')+'''
const sep = string(filepath.Separator)

// Dir atomically writes files to a given directory.
type Dir struct {
	log    logger.Logger
	target string
	prev   *string
}

func New(opts Options) *Dir {
	return &Dir{log: opts.Log, target: opts.Target}
}

func (d *Dir) Write(files map[string][]byte) error {
	base := filepath.Dir(d.target)
	newDir := base + sep + strconv.FormatInt(time.Now().UnixNano(), 10) + "-" + filepath.Base(d.target)

	if err := os.MkdirAll(base, os.ModePerm); err != nil {
		return err
	}
	if err := os.MkdirAll(newDir, os.ModePerm); err != nil {
		return err
	}

	for file, b := range files {
		if err := os.WriteFile(newDir+sep+file, b, os.ModePerm); err != nil {
			return err
		}
		d.log.Infof("Written file %s", file)
	}

	tmp := d.target + ".new"
	if err := os.Remove(tmp); err != nil && !os.IsNotExist(err) {
		return err
	}
	if err := os.Symlink(newDir, tmp); err != nil {
		return err
	}
	d.log.Infof("Syslink %s to %s", newDir, tmp)
	if err := os.Rename(tmp, d.target); err != nil {
		return err
	}
	d.log.Infof("Atomic write to %s", d.target)

	if d.prev != nil {
		if err := os.RemoveAll(*d.prev); err != nil {
			return err
		}
	}
	d.prev = &newDir
	return nil
}
''')
# r84 steps as local closures and a bound method value
whole('c18-r84-closures-and-method-value.sh','REFACTOR: populate/publish as local closures capturing newDir, previous-version removal through a bound method value',
HEAD+STRUCT+'''
func (d *Dir) Write(files map[string][]byte) error {
	newDir := filepath.Join(d.base, fmt.Sprintf("%d-%s", time.Now().UTC().UnixNano(), d.targetDir))

	populate := func() error {
		if err := os.MkdirAll(d.base, os.ModePerm); err != nil {
			return err
		}
		if err := os.MkdirAll(newDir, os.ModePerm); err != nil {
			return err
		}
		for file, b := range files {
			if err := os.WriteFile(filepath.Join(newDir, file), b, os.ModePerm); err != nil {
				return err
			}
			d.log.Infof("Written file %s", file)
		}
		return nil
	}
	publish := func() error {
		staging := d.target + ".new"
		if err := os.Remove(staging); err != nil && !errors.Is(err, os.ErrNotExist) {
			return err
		}
		if err := os.Symlink(newDir, staging); err != nil {
			return err
		}
		d.log.Infof("Syslink %s to %s", newDir, staging)
		return os.Rename(staging, d.target)
	}
	dropOld := d.dropPrevious

	if err := populate(); err != nil {
		return err
	}
	if err := publish(); err != nil {
		return err
	}
	d.log.Infof("Atomic write to %s", d.target)
	if err := dropOld(); err != nil {
		return err
	}
	d.prev = &newDir
	return nil
}

func (d *Dir) dropPrevious() error {
	if d.prev == nil {
		return nil
	}
	return os.RemoveAll(*d.prev)
}
''')
# r85 deferred cleanup as a method with pointer params
whole('c18-r85-defer-cleanup-method.sh','REFACTOR: cleanup of the unpublished version dir on failure, as a deferred METHOD taking &err and &published',
HEAD+STRUCT+'''
func (d *Dir) Write(files map[string][]byte) (err error) {
	newDir := filepath.Join(d.base, fmt.Sprintf("%d-%s", time.Now().UTC().UnixNano(), d.targetDir))
	published := false
	defer d.discardUnpublished(newDir, &err, &published)

	if err = os.MkdirAll(d.base, os.ModePerm); err != nil {
		return err
	}
	if err = os.MkdirAll(newDir, os.ModePerm); err != nil {
		return err
	}
	for file, b := range files {
		if err = os.WriteFile(filepath.Join(newDir, file), b, os.ModePerm); err != nil {
			return err
		}
		d.log.Infof("Written file %s", file)
	}
	if err = os.Remove(d.target + ".new"); err != nil && !errors.Is(err, os.ErrNotExist) {
		return err
	}
	if err = os.Symlink(newDir, d.target+".new"); err != nil {
		return err
	}
	d.log.Infof("Syslink %s to %s.new", newDir, d.target)
	if err = os.Rename(d.target+".new", d.target); err != nil {
		return err
	}
	published = true
	d.log.Infof("Atomic write to %s", d.target)
	if d.prev != nil {
		if err = os.RemoveAll(*d.prev); err != nil {
			return err
		}
	}
	d.prev = &newDir
	return nil
}

// discardUnpublished removes a version directory that was never published.
func (d *Dir) discardUnpublished(dir string, err *error, published *bool) {
	if *err != nil && !*published {
		os.RemoveAll(dir)
	}
}
''')
# r86 loop/branch forms
whole('c18-r86-loop-branch-forms.sh','REFACTOR: range over keys + map lookup, inverted guards with else branches, prev handled by early-out switch',
HEAD+STRUCT+'''
func (d *Dir) Write(files map[string][]byte) error {
	newDir := filepath.Join(d.base, fmt.Sprintf("%d-%s", time.Now().UTC().UnixNano(), d.targetDir))

	if err := os.MkdirAll(d.base, os.ModePerm); err == nil {
		if err = os.MkdirAll(newDir, os.ModePerm); err != nil {
			return err
		}
	} else {
		return err
	}

	for file := range files {
		b := files[file]
		err := os.WriteFile(filepath.Join(newDir, file), b, os.ModePerm)
		if err == nil {
			d.log.Infof("Written file %s", file)
			continue
		}
		return err
	}

	switch err := os.Remove(d.target + ".new"); {
	case err == nil, errors.Is(err, os.ErrNotExist):
	default:
		return err
	}

	if err := os.Symlink(newDir, d.target+".new"); !(err == nil) {
		return err
	}
	d.log.Infof("Syslink %s to %s.new", newDir, d.target)

	if err := os.Rename(d.target+".new", d.target); err != nil {
		return err
	}
	d.log.Infof("Atomic write to %s", d.target)

	if old := d.prev; old == nil {
		d.prev = &newDir
		return nil
	} else if err := os.RemoveAll(*old); err != nil {
		return err
	}
	d.prev = &newDir
	return nil
}
''')
# r87 prev as string
whole('c18-r87-prev-as-string.sh','REFACTOR: previous version remembered in a plain string field ("" = none) instead of *string',
HEAD+'''
// Dir atomically writes files to a given directory.
type Dir struct {
	log logger.Logger

	base      string
	target    string
	targetDir string

	current string
}

func New(opts Options) *Dir {
	return &Dir{
		log:       opts.Log,
		base:      filepath.Dir(opts.Target),
		target:    opts.Target,
		targetDir: filepath.Base(opts.Target),
	}
}

func (d *Dir) Write(files map[string][]byte) error {
	newDir := filepath.Join(d.base, fmt.Sprintf("%d-%s", time.Now().UTC().UnixNano(), d.targetDir))

	if err := os.MkdirAll(d.base, os.ModePerm); err != nil {
		return err
	}
	if err := os.MkdirAll(newDir, os.ModePerm); err != nil {
		return err
	}
	for file, b := range files {
		if err := os.WriteFile(filepath.Join(newDir, file), b, os.ModePerm); err != nil {
			return err
		}
		d.log.Infof("Written file %s", file)
	}
	if err := os.Remove(d.target + ".new"); err != nil && !errors.Is(err, os.ErrNotExist) {
		return err
	}
	if err := os.Symlink(newDir, d.target+".new"); err != nil {
		return err
	}
	d.log.Infof("Syslink %s to %s.new", newDir, d.target)
	if err := os.Rename(d.target+".new", d.target); err != nil {
		return err
	}
	d.log.Infof("Atomic write to %s", d.target)
	if d.current != "" {
		if err := os.RemoveAll(d.current); err != nil {
			return err
		}
	}
	d.current = newDir
	return nil
}
''')
# r88 staging helper returning (dir, error); tail-call helpers
whole('c18-r88-stage-returns-dir.sh','REFACTOR: stage(files) creates and fills the version directory and RETURNS its path; link/rename/removal in tail-calling helpers',
HEAD+STRUCT+'''
func (d *Dir) Write(files map[string][]byte) error {
	newDir, err := d.stage(files)
	if err != nil {
		return err
	}
	if err := d.clearStaging(); err != nil {
		return err
	}
	if err := d.link(newDir); err != nil {
		return err
	}
	d.log.Infof("Syslink %s to %s.new", newDir, d.target)
	if err := d.swap(); err != nil {
		return err
	}
	d.log.Infof("Atomic write to %s", d.target)
	if d.prev != nil {
		if err := os.RemoveAll(*d.prev); err != nil {
			return err
		}
	}
	d.prev = &newDir
	return nil
}

func (d *Dir) stage(files map[string][]byte) (string, error) {
	dir := filepath.Join(d.base, fmt.Sprintf("%d-%s", time.Now().UTC().UnixNano(), d.targetDir))
	if err := os.MkdirAll(d.base, os.ModePerm); err != nil {
		return "", err
	}
	if err := os.MkdirAll(dir, os.ModePerm); err != nil {
		return "", err
	}
	for file, b := range files {
		if err := os.WriteFile(filepath.Join(dir, file), b, os.ModePerm); err != nil {
			return "", err
		}
		d.log.Infof("Written file %s", file)
	}
	return dir, nil
}

func (d *Dir) staging() string { return d.target + ".new" }

func (d *Dir) clearStaging() error {
	if err := os.Remove(d.staging()); err != nil && !errors.Is(err, os.ErrNotExist) {
		return err
	}
	return nil
}

func (d *Dir) link(dir string) error { return os.Symlink(dir, d.staging()) }

func (d *Dir) swap() error { return os.Rename(d.staging(), d.target) }
''')
# r89 bare returns, loop-body helper, ptr.Of
whole('c18-r89-bare-returns-loop-helper-ptr.sh','REFACTOR: named result with bare returns, loop body extracted into writeOne, prev set through ptr.Of',
HEAD.replace('	"github.com/dapr/kit/logger"\n','	"github.com/dapr/kit/logger"\n	"github.com/dapr/kit/ptr"\n')+STRUCT+'''
func (d *Dir) Write(files map[string][]byte) (err error) {
	newDir := filepath.Join(d.base, fmt.Sprintf("%d-%s", time.Now().UTC().UnixNano(), d.targetDir))

	if err = os.MkdirAll(d.base, os.ModePerm); err != nil {
		return
	}
	if err = os.MkdirAll(newDir, os.ModePerm); err != nil {
		return
	}
	for file, b := range files {
		if err = d.writeOne(newDir, file, b); err != nil {
			return
		}
	}
	if err = os.Remove(d.target + ".new"); err != nil && !errors.Is(err, os.ErrNotExist) {
		return
	}
	if err = os.Symlink(newDir, d.target+".new"); err != nil {
		return
	}
	d.log.Infof("Syslink %s to %s.new", newDir, d.target)
	if err = os.Rename(d.target+".new", d.target); err != nil {
		return
	}
	d.log.Infof("Atomic write to %s", d.target)
	if d.prev != nil {
		if err = os.RemoveAll(*d.prev); err != nil {
			return
		}
	}
	d.prev = ptr.Of(newDir)
	return nil
}

func (d *Dir) writeOne(dir, name string, data []byte) error {
	if err := os.WriteFile(filepath.Join(dir, name), data, os.ModePerm); err != nil {
		return err
	}
	d.log.Infof("Written file %s", name)
	return nil
}
''')
# r80 r85 + bare returns (named result lives in a cell because the deferred method takes its address)
body85=open(OUT+'c18-r85-defer-cleanup-method.sh').read()
b=body85.replace('REFACTOR: cleanup','REFACTOR: bare returns of the named result +cleanup')
import re
b=re.sub(r'\t\treturn err\n','\t\treturn\n',b)
open(OUT+'c18-r80-defer-method-bare-returns.sh','w').write(b); os.chmod(OUT+'c18-r80-defer-method-bare-returns.sh',0o755)
# r78 Write as a thin wrapper around an unexported worker; errors wrapped
repl('c18-r78-thin-wrapper-wrapped-errors.sh','REFACTOR: Write delegates to an unexported worker (tail call); every error wrapped with fmt.Errorf',
 [('func (d *Dir) Write(files map[string][]byte) error {\n','func (d *Dir) Write(files map[string][]byte) error {\n	return d.replace(files)\n}\n\nfunc (d *Dir) replace(files map[string][]byte) error {\n',1),
  ('		return err\n','		return fmt.Errorf("dir %s: %w", d.target, err)\n',8)])
# u04 relative link content (behaviour CHANGE of the link content, property preserved): must not be a VIOLATION
repl('c18-u04-relative-link-content.sh','link content = base name of the version dir (relative link in the same directory): property preserved, must never be a VIOLATION',
 [('os.Symlink(newDir, d.target+".new")','os.Symlink(filepath.Base(newDir), d.target+".new")',1)])
# r77 test seams: os functions reached through construction-time func fields
whole('c18-r77-func-field-seams.sh','REFACTOR: os.Symlink/os.Rename/os.WriteFile reached through function-typed fields set once in New (test seams)',
HEAD+'''
// Dir atomically writes files to a given directory.
type Dir struct {
	log logger.Logger

	base      string
	target    string
	targetDir string

	prev *string

	symlink   func(oldname, newname string) error
	rename    func(oldpath, newpath string) error
	writeFile func(name string, data []byte, perm os.FileMode) error
}

func New(opts Options) *Dir {
	return &Dir{
		log:       opts.Log,
		base:      filepath.Dir(opts.Target),
		target:    opts.Target,
		targetDir: filepath.Base(opts.Target),
		symlink:   os.Symlink,
		rename:    os.Rename,
		writeFile: os.WriteFile,
	}
}

func (d *Dir) Write(files map[string][]byte) error {
	newDir := filepath.Join(d.base, fmt.Sprintf("%d-%s", time.Now().UTC().UnixNano(), d.targetDir))

	if err := os.MkdirAll(d.base, os.ModePerm); err != nil {
		return err
	}
	if err := os.MkdirAll(newDir, os.ModePerm); err != nil {
		return err
	}
	for file, b := range files {
		if err := d.writeFile(filepath.Join(newDir, file), b, os.ModePerm); err != nil {
			return err
		}
		d.log.Infof("Written file %s", file)
	}
	if err := os.Remove(d.target + ".new"); err != nil && !errors.Is(err, os.ErrNotExist) {
		return err
	}
	if err := d.symlink(newDir, d.target+".new"); err != nil {
		return err
	}
	d.log.Infof("Syslink %s to %s.new", newDir, d.target)
	if err := d.rename(d.target+".new", d.target); err != nil {
		return err
	}
	d.log.Infof("Atomic write to %s", d.target)
	if d.prev != nil {
		if err := os.RemoveAll(*d.prev); err != nil {
			return err
		}
	}
	d.prev = &newDir
	return nil
}
''')
# u05 interface seam
whole('c18-u05-interface-seam.sh','file system reached through an unexported interface implemented in the package (property preserved): may be UNDECIDED, never a VIOLATION',
HEAD+'''
type filesystem interface {
	MkdirAll(path string, perm os.FileMode) error
	WriteFile(name string, data []byte, perm os.FileMode) error
	Remove(name string) error
	RemoveAll(path string) error
	Symlink(oldname, newname string) error
	Rename(oldpath, newpath string) error
}

type osFS struct{}

func (osFS) MkdirAll(path string, perm os.FileMode) error { return os.MkdirAll(path, perm) }
func (osFS) WriteFile(name string, data []byte, perm os.FileMode) error {
	return os.WriteFile(name, data, perm)
}
func (osFS) Remove(name string) error                { return os.Remove(name) }
func (osFS) RemoveAll(path string) error             { return os.RemoveAll(path) }
func (osFS) Symlink(oldname, newname string) error  { return os.Symlink(oldname, newname) }
func (osFS) Rename(oldpath, newpath string) error   { return os.Rename(oldpath, newpath) }

// Dir atomically writes files to a given directory.
type Dir struct {
	log logger.Logger
	fs  filesystem

	base      string
	target    string
	targetDir string

	prev *string
}

func New(opts Options) *Dir {
	return &Dir{
		log:       opts.Log,
		fs:        osFS{},
		base:      filepath.Dir(opts.Target),
		target:    opts.Target,
		targetDir: filepath.Base(opts.Target),
	}
}

func (d *Dir) Write(files map[string][]byte) error {
	newDir := filepath.Join(d.base, fmt.Sprintf("%d-%s", time.Now().UTC().UnixNano(), d.targetDir))

	if err := d.fs.MkdirAll(d.base, os.ModePerm); err != nil {
		return err
	}
	if err := d.fs.MkdirAll(newDir, os.ModePerm); err != nil {
		return err
	}
	for file, b := range files {
		if err := d.fs.WriteFile(filepath.Join(newDir, file), b, os.ModePerm); err != nil {
			return err
		}
		d.log.Infof("Written file %s", file)
	}
	if err := d.fs.Remove(d.target + ".new"); err != nil && !errors.Is(err, os.ErrNotExist) {
		return err
	}
	if err := d.fs.Symlink(newDir, d.target+".new"); err != nil {
		return err
	}
	if err := d.fs.Rename(d.target+".new", d.target); err != nil {
		return err
	}
	if d.prev != nil {
		if err := d.fs.RemoveAll(*d.prev); err != nil {
			return err
		}
	}
	d.prev = &newDir
	return nil
}
''')
