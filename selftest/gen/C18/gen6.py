exec(open('gen.py').read().split('# r81 rename')[0])
SP='crypto/spiffe/spiffe.go'
repl('c18-m34-spiffe-dir-field-reset-per-fetch.sh','crypto/spiffe keeps the dir field but re-creates the Dir before every write',
 [('''		if err := s.dir.Write(map[string][]byte{''','''		s.dir = dir.New(dir.Options{Log: s.log, Target: s.identityTarget})
		if err := s.dir.Write(map[string][]byte{''',1),
  ('	dir          *dir.Dir\n','	dir            *dir.Dir\n	identityTarget string\n',1),
  ('''		sdir = dir.New(dir.Options{
			Log:    opts.Log,
			Target: *opts.WriteIdentityToFile,
		})
	}
''','''		sdir = dir.New(dir.Options{
			Log:    opts.Log,
			Target: *opts.WriteIdentityToFile,
		})
	}
	target := ""
	if opts.WriteIdentityToFile != nil {
		target = *opts.WriteIdentityToFile
	}
''',1),
  ('		dir:           sdir,\n','		dir:           sdir,\n		identityTarget: target,\n',1)], file=SP)
repl('c18-m35-spiffe-dir-from-helper-per-fetch.sh','crypto/spiffe obtains the Dir from a helper that constructs a new one on every fetch',
 [('''		if err := s.dir.Write(map[string][]byte{''','''		if err := s.identityWriter().Write(map[string][]byte{''',1),
  ('func (s *SPIFFE) SVIDSource() x509svid.Source {','''func (s *SPIFFE) identityWriter() *dir.Dir {
	return dir.New(dir.Options{Log: s.log, Target: s.identityTarget})
}

func (s *SPIFFE) SVIDSource() x509svid.Source {''',1),
  ('	dir          *dir.Dir\n','	dir            *dir.Dir\n	identityTarget string\n',1),
  ('		dir:           sdir,\n','		dir:           sdir,\n		identityTarget: func() string {\n			if opts.WriteIdentityToFile != nil {\n				return *opts.WriteIdentityToFile\n			}\n			return ""\n		}(),\n',1)], file=SP)
repl('c18-r33-spiffe-dir-built-by-helper-once.sh','REFACTOR: spiffe.New builds the Dir through an unexported helper (still once, at construction)',
 [('''	var sdir *dir.Dir
	if opts.WriteIdentityToFile != nil {
		sdir = dir.New(dir.Options{
			Log:    opts.Log,
			Target: *opts.WriteIdentityToFile,
		})
	}
''','''	sdir := identityDir(opts)
''',1),
  ('func (s *SPIFFE) Run(ctx context.Context) error {','''func identityDir(opts Options) *dir.Dir {
	if opts.WriteIdentityToFile == nil {
		return nil
	}
	return dir.New(dir.Options{
		Log:    opts.Log,
		Target: *opts.WriteIdentityToFile,
	})
}

func (s *SPIFFE) Run(ctx context.Context) error {''',1)], file=SP)
repl('c18-r34-spiffe-dir-in-substruct-local-alias.sh','REFACTOR: the Dir lives in a nested struct of SPIFFE and is read into a local before Write',
 [('	dir          *dir.Dir\n','	files        struct{ sink *dir.Dir }\n',1),
  ('		dir:           sdir,\n','		files:         struct{ sink *dir.Dir }{sink: sdir},\n',1),
  ('	if s.dir != nil {\n','	if sink := s.files.sink; sink != nil {\n',1),
  ('		if err := s.dir.Write(map[string][]byte{','		if err := sink.Write(map[string][]byte{',1)], file=SP)
