exec(open('gen.py').read().split('# r81 rename')[0])
exec(open('gen2.py').read().split("on_r('c18-r91-ext.diff'")[0].split("R91=")[1].split('\n',1)[1])
repl('c18-m39-lock-dir-via-helper.sh','a lock DIRECTORY (os.Mkdir of <target>.lock) taken in a helper, released by defer: a crash leaves it behind and blocks every later Write',
 [('func (d *Dir) Write(files map[string][]byte) error {\n','''func (d *Dir) acquire() error {
	if err := os.Mkdir(d.target+".lock", 0o700); err != nil {
		return fmt.Errorf("another write to %s is in progress: %w", d.target, err)
	}
	return nil
}

func (d *Dir) Write(files map[string][]byte) error {
	if err := d.acquire(); err != nil {
		return err
	}
	defer os.Remove(d.target + ".lock")
''',1)])
repl('c18-r28-mkdir-excl-openfile-write.sh','REFACTOR: os.Mkdir for the fresh version dir; files written through os.OpenFile(O_CREATE|O_EXCL|O_WRONLY)+Write+Close with every error checked',
 [('	if err := os.MkdirAll(newDir, os.ModePerm); err != nil {','	if err := os.Mkdir(newDir, os.ModePerm); err != nil {',1),
  ('''		if err := os.WriteFile(path, b, os.ModePerm); err != nil {
			return err
		}
''','''		f, err := os.OpenFile(path, os.O_CREATE|os.O_EXCL|os.O_WRONLY, os.ModePerm)
		if err != nil {
			return err
		}
		if _, err := f.Write(b); err != nil {
			f.Close()
			return err
		}
		if err := f.Close(); err != nil {
			return err
		}
''',1)])
repl('c18-r29-best-effort-lock.sh','REFACTOR-like addition that keeps the property: a best-effort O_EXCL lock file whose failure does not abort the write',
 [('func (d *Dir) Write(files map[string][]byte) error {\n','''func (d *Dir) Write(files map[string][]byte) error {
	if lock, lerr := os.OpenFile(d.target+".lock", os.O_CREATE|os.O_EXCL|os.O_WRONLY, 0o600); lerr == nil {
		defer func() {
			lock.Close()
			os.Remove(d.target + ".lock")
		}()
	} else {
		d.log.Infof("another write to %s may be in progress: %s", d.target, lerr)
	}
''',1)])
